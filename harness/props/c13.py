"""C13 -- sampled variable sets are complete and dependent values are consistent.

Tie (A): Gen/Resolve.v regenerated from numbered_vars_regexp / is_subset / construct_constants (translate/resolve.py).
Tie (B): differential correspondence at three levels, the model being evaluated inside Coq on the very inputs the
         implementation ran (recorded draws fed to the model, the implementation's dictionaries embedded in the terms):
   L0  numbered_vars_regexp(heads).match(s)            vs  Model.numbered_match
   L1  sampling.gen_symbols_samples(...) direct calls   vs  Model.gen_symbols_samples   (random DAGs <= 8 variables in many
       declaration orders, cyclic / dangling / ill-typed variants, exhaustive 2- and 3-dependent graphs)
   L2  FormulaGrader / ListGrader calls                  vs  Model.gen_var_samples       (numbered instances, collisions,
       user constants over defaults, siblings), observing the arguments of the library's own gen_symbols_samples call
Oracle: an independent statement of the property on what the implementation returned / on what an author-defined
        recording function saw (complete key set; every dependent value = its formula on the other values of the same
        sample, by the library's evaluator bit-for-bit and by an exact Fraction evaluator; ConfigError for cyclic or
        dangling declarations as determined by the harness's own graph analysis).
"""
import hashlib
import itertools
import random
from fractions import Fraction

from harness import core
from translate import resolve as tr_resolve

ID = 'C13'
PROPS = 'Props/C13.v'
TRANSLATORS = [('Gen/Resolve.v', tr_resolve.generate)]
MIRRORED = [('mitxgraders/sampling.py', 'gen_symbols_samples'),
            ('mitxgraders/sampling.py', 'is_subset'),
            ('mitxgraders/sampling.py', 'construct_constants'),
            ('mitxgraders/sampling.py', 'DependentSampler'),
            ('mitxgraders/helpers/math_helpers.py', 'numbered_vars_regexp'),
            ('mitxgraders/helpers/math_helpers.py', 'MathMixin.generate_variable_list'),
            ('mitxgraders/helpers/math_helpers.py', 'MathMixin.gen_var_and_func_samples'),
            ('mitxgraders/helpers/math_helpers.py', 'MathMixin.get_used_vars'),
            ('mitxgraders/formulagrader/formulagrader.py', 'FormulaGrader.gen_evaluations'),
            ('mitxgraders/formulagrader/formulagrader.py', 'FormulaGrader.raw_check')]
REFUTED = []
TRUSTED = [
    'translator translate/resolve.py (regexp text, is_subset, construct_constants -> Gallina; fail-closed)',
    'correspondence harness harness/props/c13.py: recording samplers / wrapped gen_symbols_samples / recording user function; '
    'numbers enter Coq as exact rationals (complex as pairs), agreement decided in Coq, exactly (eps = 0) on the integer/dyadic stream',
    'modelled, not verified: the expression evaluator (the theorems take it as an extensional oracle; the correspondence instantiates '
    'it with an exact evaluator of the + - * / array-literal fragment the generators emit), the parser\'s variables_used (C10), '
    'Python dict semantics (association lists with first-match lookup), Python re (the matcher is specified against the regenerated '
    'pattern text; names are ASCII because the grammar of variable names is)',
]
ASSUMPTIONS = ['a formula\'s value depends only on the names it uses (ev_extensional; proved for the evaluator used in the cases)',
               'symbols are pairwise distinct (schema all_unique; numbered instances are added only when not declared) in the '
               'order-independence and draw-attribution theorems; every symbol has a sampling set (voluptuous fills defaults)',
               'the head of a numbered instance is not itself an instance (no parseable name carries two index groups)']

LIMIT_BITS = 46

# ------------------------------------------------------------------------------------------------
# expressions:  ('num', n>=0) ('var', name) ('neg', e) ('add'|'sub'|'mul', a, b) ('vec', [e...])
# ------------------------------------------------------------------------------------------------
OPS = {'add': '+', 'sub': '-', 'mul': '*'}
# ('numsuf', n, suffix): a number with a suffix;  ('call', f, e): an author-defined (non-random) function of one argument.
# The harness's own tables (not the library's):
SUFFIX_VALUE = {'%': 0.01, 'k': 1e3, 'M': 1e6}
METRIC = ('k', 'M')
USER_FUNCS = {'dbl': (lambda x: 2 * x), 'sq': (lambda x: x * x)}


def numsuf_value(n, suf):
    return Fraction(float(n) * SUFFIX_VALUE[suf])      # eval_number: float(text) * suffixes[suffix]


def render(e):
    k = e[0]
    if k == 'num':
        return str(e[1])
    if k == 'var':
        return e[1]
    if k == 'numsuf':
        return '%d%s' % (e[1], e[2])
    if k == 'call':
        return '%s(%s)' % (e[1], render(e[2]))
    if k == 'neg':
        return '(-%s)' % render(e[1])
    if k in OPS:
        return '(%s%s%s)' % (render(e[1]), OPS[k], render(e[2]))
    if k == 'vec':
        return '[' + ','.join(render(x) for x in e[1]) + ']'
    raise ValueError(e)


def coq_expr(e):
    k = e[0]
    if k == 'num':
        return '(N_ %d)' % e[1]
    if k == 'var':
        return '(V_ "%s")' % e[1]
    if k == 'numsuf':
        return '(ENum %s)' % core.qlit(numsuf_value(e[1], e[2]))
    if k == 'call':       # dbl(x) = 2*x, sq(x) = x*x: expressed in the model's fragment
        a = coq_expr(e[2])
        return '(EMul (N_ 2) %s)' % a if e[1] == 'dbl' else '(EMul %s %s)' % (a, a)
    if k == 'neg':
        return '(ENeg %s)' % coq_expr(e[1])
    if k in OPS:
        return '(%s %s %s)' % ({'add': 'EAdd', 'sub': 'ESub', 'mul': 'EMul'}[k], coq_expr(e[1]), coq_expr(e[2]))
    if k == 'vec':
        return '(EVec [%s])' % '; '.join(coq_expr(x) for x in e[1])
    raise ValueError(e)


def expr_vars(e):
    k = e[0]
    if k in ('num', 'numsuf'):
        return set()
    if k == 'var':
        return {e[1]}
    if k == 'neg':
        return expr_vars(e[1])
    if k == 'call':
        return expr_vars(e[2])
    if k in OPS:
        return expr_vars(e[1]) | expr_vars(e[2])
    out = set()
    for x in e[1]:
        out |= expr_vars(x)
    return out


def tolist(e):
    """JSON-able copy"""
    if e[0] == 'vec':
        return ['vec', [tolist(x) for x in e[1]]]
    return [e[0]] + [tolist(x) if isinstance(x, (tuple, list)) else x for x in e[1:]]


def fromlist(e):
    if e[0] == 'vec':
        return ('vec', [fromlist(x) for x in e[1]])
    return tuple([e[0]] + [fromlist(x) if isinstance(x, list) else x for x in e[1:]])


class FormulaError(Exception):
    pass


# canonical values: ('s', (re, im)) | ('v', [(re, im), ...]) with Fractions
def c_add(a, b):
    return (a[0] + b[0], a[1] + b[1])


def c_sub(a, b):
    return (a[0] - b[0], a[1] - b[1])


def c_mul(a, b):
    return (a[0] * b[0] - a[1] * b[1], a[0] * b[1] + a[1] * b[0])


EXACT_LIMIT = 2 ** 50
INEXACT = [False]        # set when an exact (intermediate or final) value could not be held exactly by float arithmetic


def component_exact(x):
    d = x.denominator
    return abs(x) < EXACT_LIMIT and d & (d - 1) == 0 and abs(x.numerator).bit_length() <= 53


def value_exact(v):
    if v is None:
        return True
    comps = [v[1]] if v[0] == 's' else v[1]
    return all(component_exact(x) for c in comps for x in c)


def fr_eval(e, env):
    """exact evaluation; every node's value is checked for float-exactness (INEXACT[0] records a failure)"""
    v = fr_eval_node(e, env)
    if not value_exact(v):
        INEXACT[0] = True
    return v


def beyond_exact(dicts, dep_exprs):
    """True when some value of the given samples (dicts name -> implementation value), or some intermediate of the exact
    evaluation of a dependent formula on them, lies outside the range where float arithmetic is exact (guard band)"""
    saved = INEXACT[0]
    try:
        for d in dicts:
            env = {k: canon(v) for k, v in d.items()}
            if any(v is not None and not value_exact(v) for v in env.values()):
                return True
            env = {k: v for k, v in env.items() if v is not None}
            for nm, e in dep_exprs.items():
                INEXACT[0] = False
                try:
                    fr_eval(fromlist(e), {k: v for k, v in env.items() if k != nm})
                except FormulaError:
                    pass
                if INEXACT[0]:
                    return True
        return False
    finally:
        INEXACT[0] = saved


def fr_eval_node(e, env):
    """exact evaluation of the generator fragment (independent of the library)"""
    k = e[0]
    if k == 'num':
        return ('s', (Fraction(e[1]), Fraction(0)))
    if k == 'var':
        if e[1] not in env:
            raise FormulaError('undefined ' + e[1])
        return env[e[1]]
    if k == 'numsuf':
        return ('s', (numsuf_value(e[1], e[2]), Fraction(0)))
    if k == 'call':
        if e[1] == 'dbl':
            return fr_eval(('mul', ('num', 2), e[2]), env)
        return fr_eval(('mul', e[2], e[2]), env)
    if k == 'neg':
        v = fr_eval(e[1], env)
        if v[0] == 's':
            return ('s', (-v[1][0], -v[1][1]))
        return ('v', [(-x[0], -x[1]) for x in v[1]])
    if k in ('add', 'sub'):
        a, b = fr_eval(e[1], env), fr_eval(e[2], env)
        f = c_add if k == 'add' else c_sub
        if a[0] == 's' and b[0] == 's':
            return ('s', f(a[1], b[1]))
        if a[0] == 'v' and b[0] == 'v' and len(a[1]) == len(b[1]):
            return ('v', [f(x, y) for x, y in zip(a[1], b[1])])
        # MathArray accepts the number zero on either side of + and - (any other scalar is a shape error)
        if a[0] == 's' and b[0] == 'v' and a[1] == (0, 0):
            return ('v', [f(a[1], y) for y in b[1]])
        if a[0] == 'v' and b[0] == 's' and b[1] == (0, 0):
            return ('v', [f(x, b[1]) for x in a[1]])
        raise FormulaError('shape')
    if k == 'mul':
        a, b = fr_eval(e[1], env), fr_eval(e[2], env)
        if a[0] == 's' and b[0] == 's':
            return ('s', c_mul(a[1], b[1]))
        if a[0] == 's':
            return ('v', [c_mul(a[1], y) for y in b[1]])
        if b[0] == 's':
            return ('v', [c_mul(x, b[1]) for x in a[1]])
        if len(a[1]) != len(b[1]):
            raise FormulaError('shape')
        acc = (Fraction(0), Fraction(0))
        for x, y in zip(a[1], b[1]):
            acc = c_add(acc, c_mul(x, y))
        return ('s', acc)
    if k == 'vec':
        vals = [fr_eval(x, env) for x in e[1]]
        if not vals or any(v[0] != 's' for v in vals):
            raise FormulaError('array literal')
        return ('v', [v[1] for v in vals])
    raise ValueError(e)


def canon(v):
    """implementation value -> canonical exact value, or None when it is not a finite scalar / 1-D array"""
    import math
    import numpy as np
    if isinstance(v, bool):
        return None
    if isinstance(v, (int, np.integer)):
        return ('s', (Fraction(int(v)), Fraction(0)))
    if isinstance(v, (float, np.floating)):
        return ('s', (Fraction(float(v)), Fraction(0))) if math.isfinite(v) else None
    if isinstance(v, (complex, np.complexfloating)):
        v = complex(v)
        if not (math.isfinite(v.real) and math.isfinite(v.imag)):
            return None
        return ('s', (Fraction(v.real), Fraction(v.imag)))
    if isinstance(v, np.ndarray) and v.ndim == 1:
        out = []
        for x in v.tolist():
            c = canon(x)
            if c is None or c[0] != 's':
                return None
            out.append(c[1])
        return ('v', out)
    return None


def coq_c(c):
    return '(%s, %s)' % (core.qlit(c[0]), core.qlit(c[1]))


def coq_val(v):
    if v[0] == 's':
        return '(VS %s)' % coq_c(v[1])
    return '(VV [%s])' % '; '.join(coq_c(c) for c in v[1])


def same_value(a, b):
    """bit-for-bit equality of two implementation values (nan == nan)"""
    import numpy as np
    try:
        return bool(np.array_equal(np.asarray(a), np.asarray(b), equal_nan=True)) and np.shape(a) == np.shape(b)
    except Exception:       # noqa
        return a is b


# ------------------------------------------------------------------------------------------------
# constants and samplers (specs are JSON-able so that witnesses replay)
# ------------------------------------------------------------------------------------------------
def const_value(spec):
    from mitxgraders.helpers.calc import MathArray
    import numpy as np
    k = spec[0]
    if k == 'int':
        return int(spec[1])
    if k == 'float':
        return float(spec[1])
    if k == 'cplx':
        return complex(spec[1], spec[2])
    if k == 'vec':
        return MathArray(list(spec[1]))
    if k == 'pi':
        return float(np.pi)
    if k == 'e':
        return float(np.e)
    raise ValueError(spec)


def const_type(spec):
    return ('v', len(spec[1])) if spec[0] == 'vec' else ('s', 0)


DEFAULT_CONST_SPECS = {'i': ['cplx', 0, 1], 'j': ['cplx', 0, 1], 'e': ['e'], 'pi': ['pi']}
USER_CONST_POOL = [('c1', ['int', 3]), ('c2', ['int', -2]), ('cv', ['vec', [1, 2]]), ('ch', ['float', 0.5]),
                   ('cz', ['cplx', 2, 1]), ('T', ['float', 1.5]), ('cw', ['vec', [2, -1, 3]])]

LOG = []       # (tag, value) for every gen_sample() of a recording sampler, in call order
_CLASSES = {}


def stable_seed(*parts):
    return int(hashlib.sha256('/'.join(str(p) for p in parts).encode()).hexdigest()[:12], 16)


def rec_classes():
    """recording sampling sets, defined lazily (needs /repo on the path)"""
    if _CLASSES:
        return _CLASSES
    from voluptuous import Schema, Required
    from mitxgraders.sampling import VariableSamplingSet, IntegerRange
    from mitxgraders.helpers.calc import MathArray

    class RecSampler(VariableSamplingSet):
        """author-defined sampling set: draws from its own seeded stream and records every draw"""
        schema_config = Schema({Required('tag'): str, Required('kind'): str, Required('lo'): int, Required('seed'): int})

        def __init__(self, config=None, **kwargs):
            super(RecSampler, self).__init__(config, **kwargs)
            self.rng = random.Random(self.config['seed'])

        def gen_sample(self):
            kind, lo = self.config['kind'], self.config['lo']
            if kind == 'int':
                v = lo + self.rng.randrange(10)
            elif kind == 'half':
                v = (lo + self.rng.randrange(10)) / 2.0
            else:
                v = MathArray([lo + self.rng.randrange(10) for _ in range(int(kind[3:]))])
            LOG.append((self.config['tag'], v))
            return v

    class RecIntegerRange(IntegerRange):
        """the library's own IntegerRange, recording what it returned"""
        def gen_sample(self):
            v = super(RecIntegerRange, self).gen_sample()
            LOG.append(('IntegerRange', v))
            return v

    _CLASSES.update(RecSampler=RecSampler, RecIntegerRange=RecIntegerRange)
    return _CLASSES


def make_sampler(name, spec):
    from mitxgraders.sampling import DependentSampler
    cl = rec_classes()
    if spec[0] == 'dep':
        return DependentSampler(formula=render(fromlist(spec[1])))
    if spec[0] == 'ind':
        return cl['RecSampler'](tag=name, kind=spec[1], lo=spec[2], seed=spec[3])
    if spec[0] == 'irange':
        return cl['RecIntegerRange']([spec[1], spec[2]])
    raise ValueError(spec)


def spec_type(spec):
    if spec[0] == 'ind' and spec[1].startswith('vec'):
        return ('v', int(spec[1][3:]))
    return ('s', 0)


def spec_bound(spec):
    """(magnitude bound, number of binary digits after the point)"""
    if spec[0] == 'irange':
        return max(abs(spec[1]), abs(spec[2])), 0
    return abs(spec[2]) + 10, (1 if spec[1] == 'half' else 0)


# ------------------------------------------------------------------------------------------------
# graph analysis by the harness (independent of the implementation)
# ------------------------------------------------------------------------------------------------
def analyze(symbols, sf, consts):
    """-> ('cyclic'|'dangling'|'both'|'ok', topological order of the dependents or None)"""
    deps = {s: expr_vars(fromlist(sf[s][1])) for s in symbols if sf[s][0] == 'dep'}
    known = set(symbols) | set(consts)
    dangling = any(d not in known for s in deps for d in deps[s])
    # cycle detection among dependents (Kahn)
    indeg = {s: sum(1 for d in deps[s] if d in deps) for s in deps}
    order, ready = [], [s for s in deps if indeg[s] == 0]
    users = {s: [t for t in deps if s in deps[t]] for s in deps}
    while ready:
        s = ready.pop()
        order.append(s)
        for t in users[s]:
            indeg[t] -= 1
            if indeg[t] == 0:
                ready.append(t)
    cyclic = len(order) != len(deps)
    if cyclic and dangling:
        return 'both', None
    if cyclic:
        return 'cyclic', None
    if dangling:
        return 'dangling', None
    return 'ok', order


def expected_sample(symbols, sf, consts, independents):
    """exact expected dictionary for one sample given the canonical values of the independents.
    Returns (env, None) or (None, 'formula') when some formula is ill-typed."""
    kind, order = analyze(symbols, sf, consts)
    assert kind == 'ok'
    env = {c: canon(const_value(consts[c])) for c in consts if c not in symbols}
    env.update(independents)
    for s in order:
        try:
            env[s] = fr_eval(fromlist(sf[s][1]), env)
        except FormulaError:
            return None, 'formula'
    return env, None


# ------------------------------------------------------------------------------------------------
# generators
# ------------------------------------------------------------------------------------------------
NAME_POOL = ['a', 'b', 'c', 'g', 'h', 'm', 'p', 'q', 'x', 'y', 'z', 'u', 'w', 'r', 's', 't',
             'n_{1}', 'n_{-3}', 'n_{12}', 'k_{0}', "x'", 'th_1', 'alpha', 'V0', 'n', 'pi', 'e', 'i', 'c1', 'cv']
UNDEFINED_POOL = ['zz', 'n_{99}', 'undefined1', 'q_{-7}', 'Pi']


def safe_addsub(op, ea, eb, ba, bb, da, db):
    """a sum that stays exactly representable; otherwise the second operand is kept in the formula but multiplied by 0"""
    if (ba + bb).bit_length() + max(da, db) < 52:
        return (op, ea, eb), ba + bb, max(da, db)
    return ('add', ea, ('mul', ('num', 0), eb)), ba, da


def combine_terms(rng, terms):
    """terms: list of (expr, type, bound, bits); fold into one well-typed expression keeping values exactly representable"""
    terms = list(terms)
    while len(terms) > 1:
        i, j = rng.sample(range(len(terms)), 2)
        (ea, ta, ba, da), (eb, tb, bb, db) = terms[i], terms[j]
        for k in sorted((i, j), reverse=True):
            terms.pop(k)
        small = (ba * bb * 4).bit_length() + da + db < LIMIT_BITS
        if ta[0] == 's' and tb[0] == 's':
            op = rng.choice(['add', 'sub', 'mul']) if small else rng.choice(['add', 'sub'])
            if op == 'mul':
                new = ((op, ea, eb), ('s', 0), ba * bb, da + db)
            else:
                new = (lambda r: (r[0], ('s', 0), r[1], r[2]))(safe_addsub(op, ea, eb, ba, bb, da, db))
        elif ta[0] == 'v' and tb[0] == 'v' and ta[1] == tb[1]:
            op = rng.choice(['add', 'sub', 'mul']) if small else rng.choice(['add', 'sub'])
            if op == 'mul':
                new = ((op, ea, eb), ('s', 0), ta[1] * ba * bb, da + db)
            else:
                new = (lambda r: (r[0], ta, r[1], r[2]))(safe_addsub(op, ea, eb, ba, bb, da, db))
        elif ta[0] == 's' and tb[0] == 'v' and small:
            new = (('mul', ea, eb) if rng.random() < 0.5 else ('mul', eb, ea), tb, ba * bb, da + db)
        elif ta[0] == 'v' and tb[0] == 's' and small:
            new = (('mul', ea, eb) if rng.random() < 0.5 else ('mul', eb, ea), ta, ba * bb, da + db)
        else:
            # incompatible shapes (or too large to scale): make both scalars by summing array literals' components is not
            # expressible, so wrap the scalar into an array literal or add after projecting with a small constant vector
            def to_scalar(e, t, b, d):
                if t[0] == 's':
                    return e, b, d
                unit = ('vec', [('num', rng.randrange(0, 3)) for _ in range(t[1])])
                return ('mul', e, unit), 2 * t[1] * b, d
            (sa, ba2, da2), (sb, bb2, db2) = to_scalar(ea, ta, ba, da), to_scalar(eb, tb, bb, db)
            new = (lambda r: (r[0], ('s', 0), r[1], r[2]))(safe_addsub(rng.choice(['add', 'sub']), sa, sb, ba2, bb2, da2, db2))
        if rng.random() < 0.12:
            new = (('neg', new[0]),) + new[1:]
        terms.append(new)
    return terms[0]


def gen_formula(rng, deps_info, allow_vec=True, extras=()):
    """deps_info: list of (name, type, bound, bits).  Uses every dependency at least once.
    extras: 'percent' / 'metric' (numbers with these suffixes may appear), 'funcs' (dbl, sq may be applied)."""
    terms = [(('var', n), t, b, d) for n, t, b, d in deps_info]
    for _ in range(rng.choice([0, 0, 1, 1, 2])):
        terms.append((('num', rng.randrange(0, 6)), ('s', 0), 5, 0))
    sufs = (['%'] if 'percent' in extras else []) + (list(METRIC) if 'metric' in extras else [])
    if sufs and rng.random() < (0.6 if 'metric' in extras else 0.25):
        suf = rng.choice(sufs)
        n = rng.choice([25, 50, 75, 100, 200]) if suf == '%' else rng.randrange(1, 6)
        v = numsuf_value(n, suf)
        if v.denominator <= 4:          # keep every intermediate exactly representable (exact comparison downstream)
            terms.append((('numsuf', n, suf), ('s', 0), int(abs(v)) + 1, (v.denominator.bit_length() - 1)))
    if 'funcs' in extras:
        for i, (e, t, b, d) in enumerate(terms):
            if t[0] == 's' and rng.random() < 0.2:
                if rng.random() < 0.5:
                    terms[i] = (('call', 'dbl', e), t, 2 * b, d)
                elif (b * b * 4).bit_length() + 2 * d < LIMIT_BITS:
                    terms[i] = (('call', 'sq', e), t, b * b, 2 * d)
    if not terms:
        terms.append((('num', rng.randrange(0, 9)), ('s', 0), 8, 0))
    if allow_vec and rng.random() < 0.15 and all(t[1][0] == 's' for t in terms) and len(terms) >= 2:
        # an array literal of scalars
        k = min(len(terms), rng.choice([2, 3]))
        parts, rest = terms[:k], terms[k:]
        vec = (('vec', [p[0] for p in parts]), ('v', k), max(p[2] for p in parts), max(p[3] for p in parts))
        terms = rest + [vec]
    return combine_terms(rng, terms)


SHAPES = ['random', 'random', 'chain', 'rev_chain', 'diamond', 'fan_in', 'fan_out', 'consts']


def gen_graph(rng, seed_tag, allow_illtyped=True):
    """an acyclic, closed declaration: (names in a topological order, sf specs, consts specs)"""
    n = rng.randint(1, 8)
    shape = rng.choice(SHAPES)
    names = rng.sample(NAME_POOL, n)
    nconst = rng.choice([0, 1, 2, 3])
    consts = dict(rng.sample(USER_CONST_POOL, nconst))
    if rng.random() < 0.3:
        consts.update(DEFAULT_CONST_SPECS)
    # constants with the name of a symbol are allowed on purpose: they must be shadowed
    for nm in names:
        if nm in ('pi', 'e', 'i', 'c1', 'cv') and rng.random() < 0.7:
            consts[nm] = dict(USER_CONST_POOL + list(DEFAULT_CONST_SPECS.items())).get(nm)
    if shape == 'consts' and not consts:
        consts = dict(USER_CONST_POOL[:2])
    sf, info = {}, {}
    ndep = {'chain': n - 1, 'rev_chain': n - 1, 'fan_in': 1 if n > 1 else 0, 'consts': n,
            'fan_out': n - 1, 'diamond': max(0, n - 1)}.get(shape, rng.randint(0, n))
    nind = n - ndep
    for idx, nm in enumerate(names):
        if idx < nind:
            r = rng.random()
            if r < 0.12:
                spec = ['irange', 1, 9]
            else:
                kind = 'int' if r < 0.7 else ('half' if r < 0.8 else rng.choice(['vec2', 'vec3']))
                spec = ['ind', kind, 10 * (idx + 1) * rng.choice([1, 1, -1]), stable_seed(seed_tag, nm)]
            sf[nm] = spec
            b, d = spec_bound(spec)
            info[nm] = (spec_type(spec), b, d)
            continue
        earlier = names[:idx]
        cnames = [c for c in consts if c not in names]
        if shape in ('chain', 'rev_chain'):
            deps = earlier[-1:]
        elif shape == 'fan_in':
            deps = list(earlier)
        elif shape == 'fan_out':
            deps = earlier[:1]
        elif shape == 'diamond':
            deps = earlier[:1] if idx < n - 1 or idx < 2 else earlier[1:]
        elif shape == 'consts':
            deps = []
        else:
            deps = rng.sample(earlier, rng.randint(0, min(3, len(earlier)))) if earlier else []
        cdeps = rng.sample(cnames, rng.randint(0, min(2, len(cnames)))) if cnames and (shape == 'consts' or rng.random() < 0.4) else []
        if shape == 'consts' and cnames and not cdeps:
            cdeps = [rng.choice(cnames)]
        di = [(d,) + info[d] for d in deps]
        for c in cdeps:
            v = canon(const_value(consts[c]))
            mags = [abs(x) for pair in ([v[1]] if v[0] == 's' else v[1]) for x in pair]
            bits = 52 if consts[c][0] in ('pi', 'e') else 1
            di.append((c, const_type(consts[c]), int(max(mags)) + 1, bits))
        e, t, b, d = gen_formula(rng, di, extras=('percent', 'metric', 'funcs') if rng.random() < 0.35 else ())
        if allow_illtyped and rng.random() < 0.03:
            e, t = ('add', e, ('vec', [('num', 1), ('num', 2)])) if t[0] == 's' else ('add', e, ('num', 1)), t
        sf[nm] = ['dep', tolist(e)]
        info[nm] = (t, b, d)
    return names, sf, consts


def transitive_users(sf, x):
    """dependents that (transitively) depend on x, including x"""
    deps = {s: expr_vars(fromlist(sf[s][1])) for s in sf if sf[s][0] == 'dep'}
    out, todo = {x}, [x]
    while todo:
        y = todo.pop()
        for s in deps:
            if y in deps[s] and s not in out:
                out.add(s)
                todo.append(s)
    return [s for s in out if s in deps]


def mutate_graph(rng, names, sf, consts, what):
    sf = {k: list(v) for k, v in sf.items()}
    dependents = [s for s in names if sf[s][0] == 'dep']
    if not dependents:
        x = names[0]
        sf[x] = ['dep', ['num', 1]]
        dependents = [x]
    if what in ('cyclic', 'both'):
        x = rng.choice(dependents)
        y = rng.choice(transitive_users(sf, x))
        sf[x] = ['dep', ['add', sf[x][1], ['var', y]]]
    if what in ('dangling', 'both'):
        x = rng.choice(dependents)
        u = rng.choice([z for z in UNDEFINED_POOL if z not in names and z not in consts])
        sf[x] = ['dep', [rng.choice(['add', 'mul']), ['var', u], sf[x][1]]]
    return sf


def orders_for(rng, names, k):
    n = len(names)
    if n <= 4:
        return [list(p) for p in itertools.permutations(names)]
    out = [list(names), list(reversed(names))]
    if rng.random() < 0.2:
        dup = list(names)
        dup.insert(rng.randrange(len(dup) + 1), rng.choice(names))      # a symbol listed twice (a dict cannot hold it twice)
        out.append(dup)
    seen = {tuple(o) for o in out}
    while len(out) < k:
        p = list(names)
        rng.shuffle(p)
        if tuple(p) not in seen:
            seen.add(tuple(p))
            out.append(p)
    return out


# ------------------------------------------------------------------------------------------------
# L1: direct calls of gen_symbols_samples
# ------------------------------------------------------------------------------------------------
def run_l1(cfg, patience=5):
    """cfg = {symbols, sf, consts, samples}; returns (status, value, log)"""
    from mitxgraders import sampling
    functions, suffixes = eval_scope(True)
    sampling.set_seed(stable_seed('np', cfg.get('tag', 0)) % (2 ** 32))
    st, sample_from = core.guarded(lambda: {s: make_sampler(s, cfg['sf'][s]) for s in cfg['sf']}, seconds=LONG)
    if st != 'ret':
        return 'construct-' + st, sample_from, []
    consts = {c: const_value(cfg['consts'][c]) for c in cfg['consts']}
    del LOG[:]
    st, out = core.guarded(sampling.gen_symbols_samples, list(cfg['symbols']), cfg['samples'], sample_from,
                           functions, suffixes, consts, seconds=patience)
    if st == 'timeout' and confirm_timeout(patience):
        return run_l1(cfg, patience=LONG)        # a loaded machine is not a looping implementation: ask again, patiently
    return st, out, list(LOG)


LONG = 90


def eval_scope(metric):
    """(functions, suffixes) in which dependent formulas are meant to be evaluated: the grader's functions (defaults +
    the author's non-random functions) and suffixes (% and, with metric_suffixes=True, the metric ones)"""
    from mitxgraders.helpers.calc.mathfuncs import DEFAULT_FUNCTIONS, DEFAULT_SUFFIXES, METRIC_SUFFIXES
    functions = dict(DEFAULT_FUNCTIONS)
    functions.update(USER_FUNCS)
    suffixes = dict(DEFAULT_SUFFIXES)
    if metric:
        suffixes.update(METRIC_SUFFIXES)
    return functions, suffixes

TIMEOUTS = {'confirmed': 0, 'faced': 0}


def confirm_timeout(patience):
    """True when a timed-out call should be repeated with a long limit.  After two calls that did not return within
    the long limit either, timeouts are taken at face value (the witnesses exist; the run must still end)."""
    if patience >= LONG:
        TIMEOUTS['confirmed'] += 1
        return False
    if TIMEOUTS['confirmed'] < 2:
        return True
    TIMEOUTS['faced'] += 1
    return False


def long_patience():
    """the long limit while fewer than two calls have been confirmed as non-returning; afterwards a short one, so that a
    looping implementation costs seconds per case, not minutes (the witnesses exist already)"""
    return LONG if TIMEOUTS['confirmed'] < 2 else 8


def note_timeout(patience):
    if patience >= LONG:
        TIMEOUTS['confirmed'] += 1
    else:
        TIMEOUTS['faced'] += 1


def give_up_on_loops():
    """after two confirmed and six further non-returning calls, cyclic and dangling declarations are no longer run
    (counted in the evidence; the witnesses exist already)"""
    return TIMEOUTS['confirmed'] >= 2 and TIMEOUTS['faced'] >= 6


def config_error(x):
    from mitxgraders.exceptions import ConfigError
    return isinstance(x, ConfigError)


def parse_message(msg):
    for head, kind in (('DependentSamplers depend on undefined quantities: ', 'OUndefined'),
                       ('Circularly dependent DependentSamplers detected: ', 'OCircular')):
        if msg.startswith(head):
            return kind, msg[len(head):].split(', ')
    if msg.startswith('Formula error in dependent sampling formula: '):
        return 'OFormula', None
    return 'OOther', None


def oracle_l1(cfg, st, out, log):
    """the property, stated on the implementation's behaviour.  Returns a list of failure texts."""
    from mitxgraders.helpers.calc import evaluator
    from mitxgraders.helpers.calc.mathfuncs import DEFAULT_FUNCTIONS, DEFAULT_SUFFIXES
    symbols, sf, consts, k = cfg['symbols'], cfg['sf'], cfg['consts'], cfg['samples']
    kind, _ = analyze(symbols, sf, consts)
    if st == 'timeout':
        return ['call did not return (limit 5 s, repeated with %d s) on a %s declaration' % (LONG, kind)]
    if kind != 'ok':
        if st == 'exc' and config_error(out):
            return []
        return ['%s dependencies: expected ConfigError, got %s %r' % (kind, st, out)]
    if st != 'ret':
        # a formula that is ill-typed ON THE VALUES DRAWN for the failing sample (typing depends on values: MathArray
        # accepts the number zero next to an array) may be reported as a formula error; nothing else may fail
        ind0 = [s for s in symbols if sf[s][0] != 'dep']
        nfull = len(log) // len(ind0) if ind0 else 0
        last = log[(nfull - 1) * len(ind0):nfull * len(ind0)] if nfull else []
        drawn = {s: canon(v) for s, (_, v) in zip(ind0, last)}
        if (not ind0 or nfull) and all(v is not None for v in drawn.values()):
            _, err = expected_sample(symbols, sf, consts, drawn)
            if err == 'formula' and st == 'exc' and config_error(out):
                return []
        return ['closed acyclic well-typed declaration failed: %s %r' % (st, out)]
    fails = []
    if not isinstance(out, list) or len(out) != k:
        return ['expected %d samples, got %r' % (k, out if not isinstance(out, list) else len(out))]
    ind = [s for s in symbols if sf[s][0] != 'dep']
    if len(log) != k * len(ind):
        fails.append('%d draws recorded for %d samples of %d independent symbols' % (len(log), k, len(ind)))
        return fails
    for i, d in enumerate(out):
        draws = log[i * len(ind):(i + 1) * len(ind)]
        want_keys = set(symbols) | set(consts)
        missing = sorted(want_keys - set(d))
        if missing:
            fails.append('sample %d has no value for %s' % (i, missing))
            continue
        indep_vals = {}
        for s, (_, v) in zip(ind, draws):
            indep_vals[s] = v          # a repeated symbol keeps the later draw, as a dict does
        for s in ind:
            if not same_value(d[s], indep_vals[s]):
                fails.append('sample %d: %s = %r but its sampling set returned %r' % (i, s, d[s], indep_vals[s]))
        for c in consts:
            if c not in symbols and not same_value(d[c], const_value(consts[c])):
                fails.append('sample %d: constant %s = %r, declared %r' % (i, c, d[c], const_value(consts[c])))
        INEXACT[0] = False
        exp, err = expected_sample(symbols, sf, consts, {s: canon(indep_vals[s]) for s in ind})
        if INEXACT[0] or not all(value_exact(canon(v)) for v in d.values()):
            exp = None          # beyond the exact float range: only the bit-for-bit re-evaluation below applies
        for s in symbols:
            if sf[s][0] != 'dep':
                continue
            others = {key: val for key, val in d.items() if key != s}
            est, ev = core.guarded(evaluator, render(fromlist(sf[s][1])), others, *eval_scope(True), seconds=LONG)
            if est != 'ret':
                fails.append('sample %d: formula of %s does not evaluate on the other values of the sample: %r' % (i, s, ev))
            elif not same_value(ev[0], d[s]):
                fails.append('sample %d: %s = %r but its formula %s gives %r on the other values of the same sample'
                             % (i, s, d[s], render(fromlist(sf[s][1])), ev[0]))
            elif exp is not None and eps_for(sf, consts, symbols) == 0 and canon(d[s]) != exp[s]:
                fails.append('sample %d: %s = %r, exact evaluation of %s gives %r' % (i, s, d[s], render(fromlist(sf[s][1])), exp[s]))
    return fails


def cfg_key(cfg):
    import json
    return hashlib.sha256(json.dumps(cfg, sort_keys=True, default=repr).encode()).hexdigest()[:16]


def obs_term(st, out, k):
    """the implementation's outcome as a Coq term (None when it cannot be expressed)"""
    if st == 'ret':
        if not isinstance(out, list):
            return None
        envs = []
        for d in out:
            items = []
            for key, v in d.items():
                c = canon(v)
                if c is None or not isinstance(key, str):
                    return None
                items.append('("%s", %s)' % (key, coq_val(c)))
            envs.append('[' + '; '.join(items) + ']')
        return '(OOk [%s])' % '; '.join(envs)
    if st == 'exc' and config_error(out):
        kind, names = parse_message(str(out))
        if kind in ('OUndefined', 'OCircular'):
            return '(%s [%s])' % (kind, '; '.join('"%s"' % n for n in names))
        return kind
    return 'OOther'


def draws_term(log, n_ind, k):
    chunks = []
    for i in range(k):
        chunk = log[i * n_ind:(i + 1) * n_ind] if n_ind else []
        vals = [canon(v) for _, v in chunk]
        if any(v is None for v in vals):
            return None
        chunks.append('[' + '; '.join(coq_val(v) for v in vals) + ']')
    return '[' + '; '.join(chunks) + ']'


def sf_term(sf):
    return '[' + '; '.join('("%s", %s)' % (s, 'None' if sf[s][0] != 'dep' else '(Some %s)' % coq_expr(fromlist(sf[s][1])))
                           for s in sf) + ']'


def consts_term(consts):
    return '[' + '; '.join('("%s", %s)' % (c, coq_val(canon(const_value(consts[c])))) for c in consts) + ']'


HEADER = ('From Coq Require Import ZArith QArith Qabs List Bool String.\n'
          'From Verif.Lib Require Import QRound.\n'
          'From Verif.Model Require Import Result Resolve.\n'
          'Import ListNotations.\nOpen Scope string_scope.\n')

AGREE_DEFS = r'''
Definition V_ (s : string) : expr := EVar (s2l s).
Definition N_ (z : Z) : expr := ENum (inject_Z z).
Definition q_close (eps a b : Q) : bool := Qle_bool (Qabs (a - b)) (eps * (1 + Qabs b)).
Definition c_close eps (a b : cplx) : bool := q_close eps (fst a) (fst b) && q_close eps (snd a) (snd b).
Fixpoint cl_close eps (a b : list cplx) : bool :=
  match a, b with [], [] => true | x :: a', y :: b' => c_close eps x y && cl_close eps a' b' | _, _ => false end.
Definition v_close eps (a b : val) : bool :=
  match a, b with VS x, VS y => c_close eps x y | VV x, VV y => cl_close eps x y | _, _ => false end.
(* same key set, close values *)
Definition env_agree eps (m : list (str * val)) (o : list (string * val)) : bool :=
  forallb (fun kv => match alookup m (s2l (fst kv)) with Some v => v_close eps v (snd kv) | None => false end) o
  && forallb (fun kv => existsb (fun kv' => str_eqb (fst kv) (s2l (fst kv'))) o) m.
Inductive obs := OOk (l : list (list (string * val))) | OFormula | OUndefined (l : list string)
               | OCircular (l : list string) | OOther.
Definition seteqb (a : list str) (b : list string) : bool :=
  forallb (fun x => smem x (map s2l b)) a && forallb (fun y => smem (s2l y) a) b.
Definition agree_obs eps (r : results val) (o : obs) : bool :=
  match r, o with
  | RsOk l, OOk l' => Nat.eqb (List.length l) (List.length l') && forallb (fun p => env_agree eps (fst p) (snd p)) (combine l l')
  | RsErr _ (EFormula _), OFormula => true
  | RsErr _ (EUndefined l), OUndefined l' => seteqb l l'
  | RsErr _ (ECircular l), OCircular l' => seteqb l l'
  | _, _ => false
  end.
Definition mk_sf (l : list (string * option expr)) : list (str * sampler expr) :=
  map (fun p => (s2l (fst p), match snd p with None => SInd | Some f => SDep f end)) l.
Definition mk_env (l : list (string * val)) : list (str * val) := map (fun p => (s2l (fst p), snd p)) l.
(* L1: one declaration, many declaration orders: (symbols, draws per sample, observed) *)
Definition l1_case (c : list (string * option expr) * list (string * val) * Q *
                        list (list string * list (list val) * obs)) : bool :=
  match c with
  | (sf, consts, eps, runs) =>
      forallb (fun r => match r with (symbols, draws, o) =>
        agree_obs eps (gen_symbols_samples val expr expr_vars eval_expr (map s2l symbols) (mk_sf sf) (mk_env consts) draws) o end) runs
  end.
(* L2: a grader call: ((variables, heads, used, siblings, sample_from, constants, draws, eps, symbols seen, observed),
                       (blacklist, values the recording function saw in the author's / in the student's expression, per sample)) *)
Definition scope_agree eps (e : list (str * val)) (seen : list (string * val)) : bool :=
  forallb (fun kv => match alookup e (s2l (fst kv)) with Some v => v_close eps v (snd kv) | None => false end) seen.
Definition scopes_agree eps (bl : list string) (r : results val) (sa ss : list (list (string * val))) : bool :=
  match r with
  | RsOk l =>
      let scopes := eval_scopes val [] (map s2l bl) l in
      (match sa with [] => true | _ => Nat.eqb (List.length sa) (List.length scopes) end)
      && forallb (fun p => scope_agree eps (fst (fst p)) (snd p)) (combine scopes sa)
      && (match ss with [] => true | _ => Nat.eqb (List.length ss) (List.length scopes) end)
      && forallb (fun p => scope_agree eps (snd (fst p)) (snd p)) (combine scopes ss)
  | RsErr _ _ => match sa, ss with [], [] => true | _, _ => false end
  end.
Definition l2_case (c : (list string * list string * list string * list (string * expr) * list (string * option expr)
                         * list (string * val) * list (list val) * Q * list string * obs)
                        * (list string * list (list (string * val)) * list (list (string * val)))) : bool :=
  match c with
  | ((variables, heads, used, sibs, sf, consts, draws, eps, seen, o), (bl, sa, ss)) =>
      let sibs' := map (fun p => (s2l (fst p), snd p)) sibs in
      match generate_variable_list expr (map s2l variables) (map s2l heads) (map s2l used) (mk_sf sf) with
      | None => false
      | Some (vars, sf1) =>
          let '(vars2, sf2) := add_siblings expr sibs' vars sf1 in
          Nat.eqb (List.length vars2) (List.length seen)
          && forallb (fun p => str_eqb (fst p) (s2l (snd p))) (combine vars2 seen)
          && match gen_var_samples val expr expr_vars eval_expr (map s2l variables) (map s2l heads) (map s2l used) sibs'
                                   (mk_sf sf) (mk_env consts) draws with
             | Some r => agree_obs eps r o && scopes_agree eps bl r sa ss
             | None => false
             end
      end
  end.
(* L0: (heads, string, observed head or None) *)
Definition l0_case (c : list string * list (string * option string)) : bool :=
  forallb (fun p => match numbered_match (map s2l (fst c)) (s2l (fst p)), snd p with
                    | None, None => true
                    | Some h, Some h' => str_eqb h (s2l h')
                    | _, _ => false
                    end) (snd c).
'''


def seen_term(watch, tuples):
    """values the recording function saw, one association list per sample; None when not expressible"""
    rows = []
    for t in tuples:
        vals = [canon(v) for v in t]
        if len(t) != len(watch) or any(v is None for v in vals):
            return None
        rows.append('[' + '; '.join('("%s", %s)' % (n, coq_val(v)) for n, v in zip(watch, vals)) + ']')
    return '[' + '; '.join(rows) + ']'


def eps_for(sf, consts, symbols=None):
    """0 (exact comparison) unless a non-dyadic-exact constant (pi, e) can enter a formula"""
    used = set()
    for s in sf:
        if sf[s][0] == 'dep':
            used |= expr_vars(fromlist(sf[s][1]))
    shadowed = sf if symbols is None else symbols
    inexact = any(consts[c][0] in ('pi', 'e') for c in consts if c in used and c not in shadowed)
    return Fraction(1, 10 ** 9) if inexact else Fraction(0)


def l1_graphs(ctx, rng):
    """yield (label, names, sf, consts, orders, samples)"""
    quick = ctx['tier'] == 'quick'
    big = ctx['escalate'] and not quick
    n_random = 190 if quick else 1500
    k_orders = 8 if quick else 16
    for g in range(n_random):
        names, sf, consts = gen_graph(rng, 'g%d/%d' % (ctx['seed'], g))
        r = rng.random()
        what = 'ok' if r < 0.55 else ('cyclic' if r < 0.75 else ('dangling' if r < 0.9 else 'both'))
        if what != 'ok':
            sf = mutate_graph(rng, names, sf, consts, what)
        yield ('random-' + what, names, sf, consts, orders_for(rng, names, k_orders), rng.choice([1, 2, 3]))
    # exhaustive: 2 dependents x, y over {x, y, a (independent), zz (nowhere)}: every pair of dependency sets, both orders
    atoms = ['x', 'y', 'a', 'zz']
    subsets = [[atoms[i] for i in range(4) if m >> i & 1] for m in range(16)]

    def formula(sub):
        e = ['num', 1]
        for v in sub:
            e = ['add', e, ['var', v]]
        return e
    for sx in subsets:
        for sy in subsets:
            sf = {'a': ['ind', 'int', 10, stable_seed('ex2', 'a')], 'x': ['dep', formula(sx)], 'y': ['dep', formula(sy)]}
            yield ('exhaustive-2', ['a', 'x', 'y'], sf, {}, [['a', 'x', 'y'], ['y', 'x', 'a']], 1)
    # 3 dependents over {x, y, z, a, zz}: all 32^3 graphs on the thorough tier, a seeded sample otherwise
    atoms3 = ['x', 'y', 'z', 'a', 'zz']
    subsets3 = [[atoms3[i] for i in range(5) if m >> i & 1] for m in range(32)]
    triples = list(itertools.product(range(32), repeat=3))
    if not big:
        triples = rng.sample(triples, 240 if quick else 6000)
    perms = [list(p) for p in itertools.permutations(['a', 'x', 'y', 'z'])]
    for (i, j, l) in triples:
        sf = {'a': ['ind', 'int', 10, stable_seed('ex3', 'a')], 'x': ['dep', formula(subsets3[i])],
              'y': ['dep', formula(subsets3[j])], 'z': ['dep', formula(subsets3[l])]}
        orders = rng.sample(perms, 2) if big else rng.sample(perms, 3)
        yield ('exhaustive-3', ['a', 'x', 'y', 'z'], sf, {}, orders, 1)


def level1(ctx, res, rng):
    terms, metas = [], []
    dist = {}
    for label, names, sf, consts, orders, samples in l1_graphs(ctx, rng):
        runs = []
        kind, _ = analyze(names, sf, consts)
        if kind != 'ok' and give_up_on_loops():
            dist['L1 cyclic/dangling graphs skipped after repeated non-termination'] = dist.get('L1 cyclic/dangling graphs skipped after repeated non-termination', 0) + 1
            continue
        for order in orders:
            cfg = {'level': 'L1', 'symbols': order, 'sf': sf, 'consts': consts, 'samples': samples, 'tag': cfg_tag(names, sf)}
            st, out, log = run_l1(cfg)
            res.oracle_evals += 1
            for text in oracle_l1(cfg, st, out, log):
                res.witnesses.append({'key': 'L1:' + cfg_key(cfg), 'kind': 'gen_symbols_samples', 'cfg': cfg, 'what': text})
                break
            n_ind = len([s for s in order if sf[s][0] != 'dep'])
            o, d = obs_term(st, out, samples), draws_term(log, n_ind, samples)
            if o is None or d is None:
                res.notes.append('L1 case not expressible in the model value universe: %s' % cfg_key(cfg))
                continue
            if st == 'ret' and isinstance(out, list) and beyond_exact(out, {x: sf[x][1] for x in order if sf[x][0] == 'dep'}):
                res.boundary += 1
                dist['beyond_exact_float_range'] = dist.get('beyond_exact_float_range', 0) + 1
                continue
            runs.append('([%s], %s, %s)' % ('; '.join('"%s"' % s for s in order), d, o))
            res.nontrivial.add((label, cfg_key(cfg)))
            okey = 'L1 outcome ' + (o.split(' ')[0].strip('()'))
            dist[okey] = dist.get(okey, 0) + 1
        dist['L1 graphs ' + label] = dist.get('L1 graphs ' + label, 0) + 1
        dist['L1 size %d' % len(names)] = dist.get('L1 size %d' % len(names), 0) + 1
        if runs:
            terms.append('(%s, %s, %s, [%s])' % (sf_term(sf), consts_term(consts), core.qlit(eps_for(sf, consts)), ';\n     '.join(runs)))
            metas.append({'label': label, 'symbols': names, 'sf': {s: (sf[s] if sf[s][0] != 'dep' else render(fromlist(sf[s][1]))) for s in sf},
                          'consts': consts, 'harness_analysis': kind, 'orders': len(runs)})
    l1_history(ctx, res, rng, terms, metas, dist)
    res.distribution.update(dist)
    if metas:
        res.samples.append({'L1_case': metas[len(metas) // 7]})
    shard = max(1, -(-len(terms) // 16))
    n, failing, errors = core.eval_agreement('c13_l1', HEADER + AGREE_DEFS, 'l1_case', terms, shard=shard,
                                             case_type='list (string * option expr) * list (string * val) * Q * list (list string * list (list val) * obs)')
    res.programs += sum(m['orders'] for m in metas)
    res.corr_errors += errors
    for i in failing:
        res.disagreements.append({'level': 'L1', 'case': metas[i]})


def frozen(v):
    return (type(v).__name__, canon(v))


def l1_history(ctx, res, rng, terms, metas, dist):
    """repeated gen_symbols_samples calls that share ONE constants dict and ONE sample_from dict (same sampler objects),
    with varying symbol lists, some of which shadow constants.  Every call is judged by the ordinary oracle as if it
    were the only one, goes through the Coq correspondence, and must leave the caller's arguments as they were."""
    from mitxgraders import sampling
    n_hist = 40 if ctx['tier'] == 'quick' else 400
    functions, suffixes = eval_scope(True)
    done = 0
    for g in range(n_hist):
        names, sf, consts = gen_graph(rng, 'h%d/%d' % (ctx['seed'], g), allow_illtyped=False)
        if give_up_on_loops():
            dist['histories skipped after repeated non-returning calls'] = dist.get('histories skipped after repeated non-returning calls', 0) + 1
            continue
        consts = dict(consts)
        # constants carrying the names of some independent symbols (same shape), so that dropping the symbol leaves a closed graph
        ind = [s for s in names if sf[s][0] != 'dep']
        for s_ in rng.sample(ind, min(len(ind), rng.randint(1, 2))):
            t = spec_type(sf[s_])
            consts[s_] = ['int', rng.randrange(2, 9)] if t[0] == 's' else ['vec', [rng.randrange(1, 5) for _ in range(t[1])]]
        shadowing = [s for s in names if s in consts]
        if not shadowing:
            continue
        lists = []
        for step in range(rng.randint(3, 5)):
            sub = [s for s in names if rng.random() < 0.7]
            rng.shuffle(sub)
            lists.append(sub)
        full = list(names)
        rng.shuffle(full)
        lists.insert(rng.randrange(len(lists)), full)                              # every such constant is shadowed once ...
        lists.append([s for s in names if s not in shadowing])                     # ... and needed as a constant afterwards
        sampling.set_seed(stable_seed('np', 'hist', ctx['seed'], g) % (2 ** 32))
        st, sample_from = core.guarded(lambda: {s: make_sampler(s, sf[s]) for s in sf}, seconds=LONG)
        if st != 'ret':
            continue
        shared_consts = {c: const_value(consts[c]) for c in consts}
        before_consts = {c: frozen(v) for c, v in shared_consts.items()}
        before_sf = dict(sample_from)
        before_cfgs = {s: repr(sorted(sample_from[s].config.items(), key=repr)) for s in sample_from if sf[s][0] == 'dep'}
        samples = rng.choice([1, 2])
        runs = []
        history = {'level': 'L1H', 'sf': sf, 'consts': consts, 'samples': samples, 'lists': lists}
        changed = None
        for idx, symbols in enumerate(lists):
            cfg = {'level': 'L1', 'symbols': symbols, 'sf': sf, 'consts': consts, 'samples': samples}
            arg = list(symbols)
            del LOG[:]
            pat = long_patience()
            st, out = core.guarded(sampling.gen_symbols_samples, arg, samples, sample_from, functions, suffixes, shared_consts,
                                   seconds=pat)
            if st == 'timeout':
                note_timeout(pat)
            log = list(LOG)
            res.oracle_evals += 1
            text = None
            fails = oracle_l1(cfg, st, out, log)
            if changed is None and {c: frozen(v) for c, v in shared_consts.items()} != before_consts:
                changed = ('call %d changed the caller\'s constants dict from %r to %r'
                           % (idx + 1, sorted(before_consts), sorted(shared_consts)))
            if changed is None and (arg != list(symbols) or set(sample_from) != set(before_sf)
                                    or any(sample_from[k] is not before_sf[k] for k in before_sf)
                                    or {s: repr(sorted(sample_from[s].config.items(), key=repr)) for s in before_cfgs} != before_cfgs):
                changed = 'call %d changed the caller\'s symbol list or sample_from dict' % (idx + 1)
            if fails:
                text = 'call %d of the history %r (shared constants %r): %s%s' % (
                    idx + 1, lists, sorted(consts), fails[0], '' if changed is None else ' [earlier: %s]' % changed)
            elif changed is not None and idx == len(lists) - 1:
                text = 'history %r: %s' % (lists, changed)
            if text:
                res.witnesses.append({'key': 'L1H:' + cfg_key(history), 'kind': 'gen_symbols_samples-history', 'cfg': history, 'what': text})
                break
            n_ind = len([s for s in symbols if sf[s][0] != 'dep'])
            o, d = obs_term(st, out, samples), draws_term(log, n_ind, samples)
            if st == 'ret' and isinstance(out, list) and beyond_exact(out, {x: sf[x][1] for x in symbols if sf[x][0] == 'dep'}):
                res.boundary += 1
                dist['beyond_exact_float_range'] = dist.get('beyond_exact_float_range', 0) + 1
            elif o is not None and d is not None:
                runs.append('([%s], %s, %s)' % ('; '.join('"%s"' % s for s in symbols), d, o))
        res.nontrivial.add(('L1H', cfg_key(history)))
        done += 1
        if runs:
            terms.append('(%s, %s, %s, [%s])' % (sf_term(sf), consts_term(consts), core.qlit(eps_for(sf, consts, [])), ';\n     '.join(runs)))
            metas.append({'label': 'history', 'symbols': names, 'sf': {s: (sf[s] if sf[s][0] != 'dep' else render(fromlist(sf[s][1]))) for s in sf},
                          'consts': consts, 'harness_analysis': 'history of %d calls' % len(lists), 'orders': len(runs)})
    dist['L1 call histories on shared arguments'] = done


def replay_l1_history(h):
    from mitxgraders import sampling
    functions, suffixes = eval_scope(True)
    sf, consts = h['sf'], h['consts']
    sample_from = {s: make_sampler(s, sf[s]) for s in sf}
    shared = {c: const_value(consts[c]) for c in consts}
    before = {c: frozen(v) for c, v in shared.items()}
    changed = None
    for idx, symbols in enumerate(h['lists']):
        cfg = {'level': 'L1', 'symbols': symbols, 'sf': sf, 'consts': consts, 'samples': h['samples']}
        del LOG[:]
        st, out = core.guarded(sampling.gen_symbols_samples, list(symbols), h['samples'], sample_from, functions, suffixes, shared,
                               seconds=LONG)
        fails = oracle_l1(cfg, st, out, list(LOG))
        if changed is None and {c: frozen(v) for c, v in shared.items()} != before:
            changed = 'call %d changed the caller\'s constants from %r to %r' % (idx + 1, sorted(before), sorted(shared))
        if fails:
            return True, 'call %d, gen_symbols_samples(%r, ...) with the shared constants %r -> %s %r\n%s%s' % (
                idx + 1, symbols, sorted(consts), st, out, fails[0], '' if changed is None else '\n[earlier: %s]' % changed)
    if changed is not None:
        return True, changed
    return False, 'history of %d calls on shared arguments: every call complete and consistent, arguments unchanged' % len(h['lists'])


def cfg_tag(names, sf):
    return stable_seed('tag', sorted(names), sorted((s, repr(sf[s])) for s in sf)) % 10 ** 9


# ------------------------------------------------------------------------------------------------
# L0: the regular expression
# ------------------------------------------------------------------------------------------------
HEAD_SETS = [['a'], ['a', 'ab'], ['ab', 'a'], ['x', 'x2', 'Cat'], [], ['n', 'nn', 'n_1'], ['a.b', 'a'], ['a|b'], ['b', 'c', 'Cat'],
             ['a', 'a_{1}'], ['x+', 'x'], ['(a', 'a)'], ['a', 'a']]
TAILS = ['_{0}', '_{1}', '_{9}', '_{-1}', '_{10}', '_{-10}', '_{12}', '_{-3}', '_{100}', '_{2024}', '_{-987654321}',
         '_{007}', '_{05}', '_{-05}', '_{-0}', '_{+1}', '_{1}}', '_{}', '_{-}', '_{1', '{1}', '_1', "_{1}'", '_{1.0}', '_{1e3}',
         '_{ 1}', '_{1 }', '_{--1}', '_{1-}', '_{a}', '_{1a}', '', '_', '_{', '_{}}', '_{1}_{2}', '^{1}', '_{1}^{2}', '_[1]', '_{0}0',
         '_{00}', '_{-00}', '_{1234567890123456789012345678901234567890}']


def level0(ctx, res, rng):
    from mitxgraders.helpers.math_helpers import numbered_vars_regexp
    terms, metas = [], []
    alphabet = 'ab_{}-0159x|.'
    for heads in HEAD_SETS:
        st, rx = core.guarded(numbered_vars_regexp, heads, seconds=LONG)
        if st != 'ret':
            res.witnesses.append({'key': 'L0:%r' % heads, 'kind': 'regexp', 'heads': heads, 'string': None,
                                  'what': 'numbered_vars_regexp(%r) raised %r' % (heads, rx)})
            continue
        strings = []
        for h in heads + ['a', 'b', 'B', 'A', 'cat', '']:
            strings += [h + t for t in TAILS]
        for _ in range(60 if ctx['tier'] == 'quick' else 600):
            strings.append(''.join(rng.choice(alphabet) for _ in range(rng.randint(0, 9))))
            if heads:
                strings.append(rng.choice(heads) + '_{' + ''.join(rng.choice('-0123456789') for _ in range(rng.randint(0, 4))) + '}')
        strings = sorted(set(s for s in strings if all(32 <= ord(ch) < 127 and ch != '"' for ch in s)))
        pairs = []
        for s in strings:
            m = rx.match(s)
            got = None if m is None else m.groups()
            res.oracle_evals += 1
            # oracle: a numbered instance is head + "_{" + str(z) + "}" for an integer z; group 1 the whole name, group 2 its head
            want = None
            for h in heads:
                if s.startswith(h + '_{') and s.endswith('}'):
                    mid = s[len(h) + 2:-1]
                    if mid and all(ch in '-0123456789' for ch in mid):
                        try:
                            if str(int(mid)) == mid:
                                want = h
                                break
                        except ValueError:
                            pass
            bad = None
            if want is None and got is not None:
                pass        # an extra match is not demanded away by the property text; the correspondence reports it
            elif want is not None and got is None:
                bad = 'instance %r of head %r is not recognised' % (s, want)
            elif want is not None and (got[0] != s or got[1] not in heads or not s.startswith(got[1] + '_{')):
                bad = 'instance %r: groups %r' % (s, got)
            if bad:
                res.witnesses.append({'key': 'L0:%r/%s' % (heads, s), 'kind': 'regexp', 'heads': heads, 'string': s, 'what': bad})
            pairs.append('("%s", %s)' % (s, 'None' if got is None else '(Some "%s")' % got[1]))
            if got is not None:
                res.nontrivial.add(('L0', tuple(heads), s))
        terms.append('([%s], [%s])' % ('; '.join('"%s"' % h for h in heads), '; '.join(pairs)))
        metas.append({'heads': heads, 'strings': len(pairs)})
    res.distribution['L0 head sets'] = len(metas)
    res.distribution['L0 strings'] = sum(m['strings'] for m in metas)
    n, failing, errors = core.eval_agreement('c13_l0', HEADER + AGREE_DEFS, 'l0_case', terms, shard=max(1, -(-len(terms) // 4)),
                                             case_type='list string * list (string * option string)')
    res.programs += sum(m['strings'] for m in metas)
    res.corr_errors += errors
    for i in failing:
        res.disagreements.append({'level': 'L0', 'case': metas[i]})


# ------------------------------------------------------------------------------------------------
# L2: grader calls
# ------------------------------------------------------------------------------------------------
def make_recorder(n, sink):
    args = ','.join('a%d' % i for i in range(n))
    return eval('lambda %s: _r((%s,))' % (args, args), {'_r': lambda t: (sink.append(t), 0.0)[1]})


def is_instance_name(s, heads):
    """the harness's own definition of a numbered instance (independent of the library's regexp)"""
    for h in heads:
        if s.startswith(h + '_{') and s.endswith('}'):
            mid = s[len(h) + 2:-1]
            if mid and all(ch in '-0123456789' for ch in mid):
                try:
                    if str(int(mid)) == mid:
                        return h
                except ValueError:
                    pass
    return None


L2_VARS = ['a', 'b', 'c', 'x', 'y', 'z', 'u', 'w']
L2_HEADS = ['n', 'k', 'ab', 'a']
L2_INDICES = ['0', '1', '2', '7', '-1', '-3', '10', '12', '-25', '100', '2024']


def gen_l2(rng, tag, want_shadowable=False):
    """a FormulaGrader configuration + expressions.  Everything scalar (FormulaGrader forbids arrays in answers)."""
    nv = rng.randint(1, 6)
    variables = rng.sample(L2_VARS, nv)
    heads = rng.sample(L2_HEADS, rng.randint(0, 2))
    collide = []
    if heads and rng.random() < 0.35:
        # a declared plain variable whose name looks like an instance of a numbered head
        collide = [rng.choice(heads) + '_{' + rng.choice(L2_INDICES) + '}']
        variables = variables + collide
    instances = []
    for h in heads:
        for idx in rng.sample(L2_INDICES, rng.randint(0, 3)):
            nm = h + '_{' + idx + '}'
            if nm not in variables:
                instances.append(nm)
    user_consts = dict((k, v) for k, v in rng.sample([c for c in USER_CONST_POOL if c[1][0] != 'vec'], rng.randint(0, 3)))
    if rng.random() < 0.25:
        user_consts['pi'] = ['int', 3]          # user constant over a default (needs suppress_warnings)
    if rng.random() < 0.15:
        user_consts['e'] = ['float', 2.5]
    user_consts = {k: v for k, v in user_consts.items() if k not in variables}
    # user constants whose names are instances of a numbered head: a constant unless an expression of the call mentions it
    shadowable = []
    for h in heads:
        if rng.random() < (0.9 if want_shadowable else 0.3):
            nm = h + '_{' + rng.choice(L2_INDICES) + '}'
            if nm not in variables and nm not in instances:
                user_consts[nm] = ['int', rng.randrange(2, 9)]
                shadowable.append(nm)
    consts = dict(DEFAULT_CONST_SPECS)
    consts.update(user_consts)
    sf, info, topo = {}, {}, []
    metric = rng.random() < 0.4
    ndep = rng.randint(0, len(variables))
    order = list(variables)
    rng.shuffle(order)
    lo_i = 0
    for h in heads:                               # samplers of the numbered heads (independent, or sometimes dependent)
        lo_i += 1
        spec = ['ind', 'int', 10 * lo_i, stable_seed(tag, 'head', h)]
        sf[h] = spec
    for idx, nm in enumerate(order):
        if idx >= len(order) - ndep:
            pool = [(d,) + info[d] for d in topo]
            deps = rng.sample(pool, rng.randint(0, min(3, len(pool)))) if pool else []
            if instances and rng.random() < 0.4:
                i_nm = rng.choice(instances)
                deps.append((i_nm, ('s', 0), 10 * (L2_HEADS.index(is_instance_name(i_nm, heads)) + 2) + 10, 0))
            if shadowable and rng.random() < (0.7 if want_shadowable else 0.2):
                deps.append((rng.choice(shadowable), ('s', 0), 60, 0))      # 60 bounds the constant and every head's draws
            cn = [c for c in consts if c not in variables and consts[c][0] in ('int', 'float', 'cplx')]
            if cn and rng.random() < 0.4:
                c = rng.choice(cn)
                deps.append((c, ('s', 0), 4, 1))
            e, t, b, d = gen_formula(rng, deps, allow_vec=False, extras=('percent', 'funcs') + (('metric',) if metric else ()))
            if e[0] == 'vec' or t[0] != 's':
                e, t = ('mul', e, e), ('s', 0)
                b = b * b * 3
            sf[nm] = ['dep', tolist(e)]
            info[nm] = (t, b, d)
        else:
            lo_i += 1
            spec = ['ind', rng.choice(['int', 'int', 'half']), 10 * lo_i * rng.choice([1, -1]), stable_seed(tag, nm)]
            if nm in heads:
                spec = sf[nm]
            sf[nm] = spec
            b, d = spec_bound(spec)
            info[nm] = (('s', 0), b, d)
        topo.append(nm)
    what = rng.random()
    variant = 'ok'
    if what > 0.8:
        variant = 'cyclic' if what < 0.9 else 'dangling'
        sf = mutate_graph(rng, [v for v in variables], sf, consts, variant)
    watch = list(variables) + instances + [c for c in consts if c not in variables and c not in shadowable]
    rng.shuffle(watch)
    student_extra = [c for c in shadowable if rng.random() < 0.4]
    for h in heads:
        if rng.random() < 0.4:
            nm = h + '_{' + rng.choice(L2_INDICES) + '}'
            if nm not in variables and nm not in watch:
                student_extra.append(nm)
    return {'level': 'L2', 'variables': variables, 'numbered': heads, 'sf': sf, 'user_consts': user_consts, 'watch': watch,
            'student_extra': student_extra, 'samples': rng.choice([1, 2, 3]), 'variant': variant, 'metric': metric,
            'shadowable': shadowable,
            'suppress': any(c in DEFAULT_CONST_SPECS for c in user_consts) or any(v in DEFAULT_CONST_SPECS for v in variables + heads)}


def l2_answer(cfg):
    return 'rec(%s)' % ','.join(cfg['watch']) if cfg['watch'] else '1'


def build_l2(cfg):
    """-> (status, grader, seen): the grader with a recording function whose calls land in `seen`"""
    from mitxgraders import FormulaGrader
    from mitxgraders import sampling
    sampling.set_seed(1)
    seen = []
    watch = cfg['watch']

    def build():
        sample_from = {s: make_sampler(s, cfg['sf'][s]) for s in cfg['sf']}
        return FormulaGrader(answers=l2_answer(cfg), variables=list(cfg['variables']), numbered_vars=list(cfg['numbered']),
                             sample_from=sample_from, user_constants={c: const_value(v) for c, v in cfg['user_consts'].items()},
                             user_functions=dict(USER_FUNCS, **({'rec': make_recorder(len(watch), seen)} if watch else {})),
                             metric_suffixes=bool(cfg.get('metric')), samples=cfg['samples'], suppress_warnings=cfg['suppress'])
    st, g = core.guarded(build, seconds=LONG)
    return st, g, seen


def call_l2(g, seen, cfg, patience=8):
    """one submission (the answer itself plus 0*name for every extra name) on an existing grader"""
    from mitxgraders.helpers import math_helpers
    calls = []
    student = l2_answer(cfg) + ''.join('+0*%s' % nm for nm in cfg['student_extra'])
    orig = math_helpers.gen_symbols_samples

    def wrapped(symbols, samples, sample_from, functions, suffixes, constants):
        rec = {'symbols': list(symbols), 'constants': dict(constants), 'out': None, 'exc': None}
        calls.append(rec)
        try:
            rec['out'] = orig(symbols, samples, sample_from, functions, suffixes, constants)
        except BaseException as e:   # noqa
            rec['exc'] = e
            raise
        return rec['out']
    del LOG[:]
    del seen[:]
    math_helpers.gen_symbols_samples = wrapped
    try:
        st, out = core.guarded(g, None, student, seconds=patience)
    finally:
        math_helpers.gen_symbols_samples = orig
    return st, out, calls, list(LOG)


def run_l2(cfg, patience=8):
    """build the grader, call it with the answer itself as student input, observing samples and seen values"""
    st, g, seen = build_l2(cfg)
    if st != 'ret':
        return 'construct-' + st, g, seen, [], []
    st, out, calls, log = call_l2(g, seen, cfg, patience)
    if st == 'timeout' and confirm_timeout(patience):
        return run_l2(cfg, patience=LONG)
    return st, out, seen, calls, log


def snapshot_consts(d):
    return {k: (type(v).__name__, canon(v)) for k, v in d.items()}


def run_l2_history(cfg):
    """one grader, several submissions (cfg['history'] = list of student_extra lists).  Every submission is judged by the
    ordinary oracle as if it were the only one; the grader's own constants must not change between submissions.
    Returns the list of failure texts (empty when fine)."""
    st, g, seen = build_l2(cfg)
    if st != 'ret':
        return ['grader construction failed: %r' % (g,)]
    before = snapshot_consts(g.constants)
    before_cfg = snapshot_consts(g.config['user_constants'])
    changed = None
    for idx, extra in enumerate(cfg['history']):
        step = dict(cfg, student_extra=list(extra))
        pat = long_patience()
        st, out, calls, log = call_l2(g, seen, step, patience=pat)
        if st == 'timeout':
            note_timeout(pat)
        fails = oracle_l2(step, st, out, list(seen), log)
        if changed is None and (snapshot_consts(g.constants) != before or snapshot_consts(g.config['user_constants']) != before_cfg):
            changed = ('submission %d changed the grader\'s constants from %r to %r' % (idx + 1, sorted(before), sorted(g.constants)))
        if fails:
            return ['submission %d of %r (names mentioned besides the answer: %r): %s%s'
                    % (idx + 1, cfg['history'], extra, fails[0], '' if changed is None else ' [earlier: %s]' % changed)]
    if changed is not None:
        return ['submissions %r: %s' % (cfg['history'], changed)]
    return []


def oracle_l2(cfg, st, out, seen, log):
    """what the author-defined function saw, sample by sample"""
    from mitxgraders.helpers.calc import evaluator
    from mitxgraders.helpers.calc.mathfuncs import DEFAULT_FUNCTIONS, DEFAULT_SUFFIXES
    variables, heads, sf = cfg['variables'], cfg['numbered'], cfg['sf']
    consts = dict(DEFAULT_CONST_SPECS)
    consts.update(cfg['user_consts'])
    watch = cfg['watch']
    # the declaration as the property sees it: declared variables + the instances used in the expressions
    used_instances = [w for w in watch + cfg['student_extra'] if w not in variables and is_instance_name(w, heads)]
    symbols = list(variables) + used_instances
    full_sf = dict((s, sf[s]) for s in variables)
    for u in used_instances:
        full_sf[u] = sf[is_instance_name(u, heads)]
    kind, _ = analyze(symbols, full_sf, consts)
    if st == 'timeout':
        return ['grader call did not return (limit 8 s, repeated with %d s)' % LONG]
    if st.startswith('construct'):
        return ['grader construction failed: %r' % (out,)]
    if kind != 'ok':
        if st == 'exc' and config_error(out):
            return []
        return ['%s dependencies: expected ConfigError from the grader call, got %s %r' % (kind, st, out)]
    if st != 'ret':
        return ['grader call failed on a closed acyclic declaration: %s %r' % (st, out)]
    if not watch:
        return []
    k = cfg['samples']
    if len(seen) != 2 * k:
        return ['the recording function was called %d times for %d samples (answer and student expression)' % (len(seen), k)]
    fails = []
    for i in range(k):
        a, b = seen[2 * i], seen[2 * i + 1]
        if len(a) != len(watch) or any(not same_value(x, y) for x, y in zip(a, b)):
            fails.append('sample %d: answer and student expression saw different values %r / %r' % (i, a, b))
            continue
        vals = dict(zip(watch, a))
        for nm in watch:
            if nm in consts and nm not in symbols:
                want = const_value(consts[nm])
                if not same_value(complex(vals[nm]), complex(want)):
                    fails.append('sample %d: constant %s seen as %r, configured %r' % (i, nm, vals[nm], want))
            spec = full_sf.get(nm)
            if spec is None:
                continue
            if spec[0] == 'dep':
                e = fromlist(spec[1])
                if not expr_vars(e) <= set(watch):
                    continue
                others = {key: val for key, val in vals.items() if key != nm}
                est, ev = core.guarded(evaluator, render(e), others, *eval_scope(cfg.get('metric')), seconds=LONG)
                if est != 'ret':
                    fails.append('sample %d: formula of %s does not evaluate on the values seen: %r' % (i, nm, ev))
                elif not same_value(complex(ev[0]), complex(vals[nm])):
                    fails.append('sample %d: %s seen as %r but its formula %s gives %r on the other values seen'
                                 % (i, nm, vals[nm], render(e), ev[0]))
                else:
                    try:
                        INEXACT[0] = False
                        exact = fr_eval(e, {key: canon(val) for key, val in others.items()})
                        if canon(vals[nm]) != exact and eps_for(full_sf, consts) == 0 and not INEXACT[0] \
                                and all(value_exact(canon(val)) for val in vals.values()):
                            fails.append('sample %d: %s seen as %r, exact evaluation gives %r' % (i, nm, vals[nm], exact))
                    except FormulaError:
                        pass
            elif spec[0] == 'ind':
                lo = spec[2]
                x = vals[nm] * (2 if spec[1] == 'half' else 1)
                if not (isinstance(x, (int, float)) and float(x).is_integer() and lo <= x <= lo + 9):
                    fails.append('sample %d: %s seen as %r, outside its sampling set [%d..%d]%s'
                                 % (i, nm, vals[nm], lo, lo + 9, '/2' if spec[1] == 'half' else ''))
                # a sampling set used by this one name only: the value used in sample i is its i-th draw
                shared = [u for u in used_instances if is_instance_name(u, heads) == nm]
                mine = [v for tag, v in log if tag == nm]
                if nm in variables and not shared and len(mine) == k and not same_value(complex(mine[i]), complex(vals[nm])):
                    fails.append('sample %d: %s seen as %r but draw number %d of its sampling set was %r'
                                 % (i, nm, vals[nm], i, mine[i]))
    return fails


def level2(ctx, res, rng):
    n_cases = 260 if ctx['tier'] == 'quick' else 2500
    if ctx['escalate']:
        n_cases = max(n_cases, 360)
    terms, metas = [], []
    dist = {}
    for g in range(n_cases):
        cfg = gen_l2(rng, 'l2/%d/%d' % (ctx['seed'], g))
        if cfg['variant'] != 'ok' and give_up_on_loops():
            dist['L2 cyclic/dangling skipped after repeated non-termination'] = dist.get('L2 cyclic/dangling skipped after repeated non-termination', 0) + 1
            continue
        st, out, seen, calls, log = run_l2(cfg)
        res.oracle_evals += 1
        for text in oracle_l2(cfg, st, out, seen, log):
            res.witnesses.append({'key': 'L2:' + cfg_key(cfg), 'kind': 'grader-call', 'cfg': cfg, 'what': text})
            break
        dist['L2 ' + cfg['variant']] = dist.get('L2 ' + cfg['variant'], 0) + 1
        if not calls:
            res.notes.append('L2: gen_symbols_samples was not reached: %s %r' % (st, out))
            continue
        call = calls[0]
        variables, heads, sf = cfg['variables'], cfg['numbered'], cfg['sf']
        consts = dict(DEFAULT_CONST_SPECS)
        consts.update(cfg['user_consts'])
        # names used in the expressions, as the harness wrote them; numbered instances in the order the implementation listed them
        used_set = set(cfg['watch']) | set(cfg['student_extra'])
        listed = [s for s in call['symbols'] if s in used_set and s not in variables]
        used = listed + sorted(used_set - set(listed))
        if call['exc'] is not None:
            o = obs_term('exc', call['exc'], cfg['samples'])
        else:
            o = obs_term('ret', call['out'], cfg['samples'])
        n_ind = 0
        for s in call['symbols']:
            base = s if s in sf else is_instance_name(s, heads)
            if base is not None and base in sf and sf[base][0] != 'dep':
                n_ind += 1
        d = draws_term(log, n_ind, cfg['samples'])
        if o is None or d is None:
            res.notes.append('L2 case not expressible: %s' % cfg_key(cfg))
            continue
        impl_consts = {c: canon(v) for c, v in call['constants'].items()}
        if any(v is None for v in impl_consts.values()):
            continue
        # the constants the model gets are the harness's own merge (user over defaults); the implementation's merge is
        # compared against it here (construct_constants)
        mine = {c: canon(const_value(consts[c])) for c in consts}
        if impl_consts != mine:
            res.disagreements.append({'level': 'L2', 'what': 'constants passed to gen_symbols_samples differ from user-over-defaults',
                                      'implementation': sorted(call['constants']), 'expected': sorted(consts)})
        sf_items = '[' + '; '.join('("%s", %s)' % (s, 'None' if sf[s][0] != 'dep' else '(Some %s)' % coq_expr(fromlist(sf[s][1])))
                                   for s in sf) + ']'
        k = cfg['samples']
        dep_map = {}
        for x in call['symbols']:
            base = x if x in sf else is_instance_name(x, heads)
            if base is not None and base in sf and sf[base][0] == 'dep':
                dep_map[x] = sf[base][1]
        if beyond_exact((call['out'] or []) + [dict(zip(cfg['watch'], t)) for t in seen if len(t) == len(cfg['watch'])], dep_map):
            res.boundary += 1
            dist['beyond_exact_float_range'] = dist.get('beyond_exact_float_range', 0) + 1
            continue
        sa = seen_term(cfg['watch'], seen[0::2]) if st == 'ret' and len(seen) == 2 * k else '[]'
        ss = seen_term(cfg['watch'], seen[1::2]) if st == 'ret' and len(seen) == 2 * k else '[]'
        if sa is None or ss is None:
            continue
        terms.append('(([%s], [%s], [%s], [], %s, %s, %s, %s, [%s], %s), ([], %s, %s))' % (
            '; '.join('"%s"' % v for v in variables), '; '.join('"%s"' % h for h in heads), '; '.join('"%s"' % u for u in used),
            sf_items, consts_term(consts), d, core.qlit(eps_for(sf, consts)), '; '.join('"%s"' % s for s in call['symbols']), o, sa, ss))
        metas.append({'variables': variables, 'numbered_vars': heads, 'used': used, 'user_constants': cfg['user_consts'],
                      'sample_from': {s: (sf[s] if sf[s][0] != 'dep' else render(fromlist(sf[s][1]))) for s in sf},
                      'symbols_seen': call['symbols'], 'variant': cfg['variant']})
        res.nontrivial.add(('L2', cfg_key(cfg)))
    sib_cases(ctx, res, rng, dist, terms, metas)
    n_hist = 40 if ctx['tier'] == 'quick' else 300
    for g in range(n_hist):
        if give_up_on_loops():
            continue
        for attempt in range(20):
            cfg = gen_l2(rng, 'l2h/%d/%d/%d' % (ctx['seed'], g, attempt), want_shadowable=True)
            if cfg['variant'] == 'ok' and cfg['shadowable']:
                break
        else:
            continue
        pool = list(cfg['shadowable']) + [h + '_{' + i + '}' for h in cfg['numbered'] for i in ('3', '-8')
                                          if h + '_{' + i + '}' not in cfg['variables'] and h + '_{' + i + '}' not in cfg['watch']]
        hist = []
        for step in range(rng.randint(3, 5)):
            hist.append(sorted(x for x in pool if rng.random() < 0.5))
        hist.insert(rng.randrange(len(hist)), list(cfg['shadowable']))     # at least once every such constant is shadowed ...
        hist.append([])                                                      # ... and later is needed as a constant again
        cfg = dict(cfg, level='L2H', history=hist, student_extra=[])
        res.oracle_evals += len(hist)
        for text in run_l2_history(cfg):
            res.witnesses.append({'key': 'L2H:' + cfg_key(cfg), 'kind': 'grader-history', 'cfg': cfg, 'what': text})
        res.nontrivial.add(('L2H', cfg_key(cfg)))
    dist['L2 submission histories on one grader'] = n_hist
    res.distribution.update(dist)
    if metas:
        res.samples.append({'L2_case': metas[len(metas) // 5]})
    shard = max(1, -(-len(terms) // 8))
    n, failing, errors = core.eval_agreement('c13_l2', HEADER + AGREE_DEFS, 'l2_case', terms, shard=shard,
                                             case_type='(list string * list string * list string * list (string * expr) * list (string * option expr) * list (string * val) * list (list val) * Q * list string * obs) * (list string * list (list (string * val)) * list (list (string * val)))')
    res.programs += n
    res.corr_errors += errors
    for i in failing:
        res.disagreements.append({'level': 'L2', 'case': metas[i]})


# --- siblings: an ordered ListGrader hands every grader the inputs of all boxes; a FormulaGrader-family grader turns the
#     inputs of its FormulaGrader-family siblings into dependent variables sibling_<position of the box, from 1> -----------
FORMULA_FAMILY = ('formula', 'matrix', 'numerical', 'rec')


def box_input(box):
    return box['input'] if isinstance(box['input'], str) else render(fromlist(box['input']))


def run_sib(cfg, patience=8):
    from mitxgraders import FormulaGrader, ListGrader, StringGrader, NumericalGrader, MatrixGrader
    from mitxgraders import sampling
    from mitxgraders.helpers import math_helpers
    sampling.set_seed(1)
    seen, calls = [], []
    watch = cfg['watch']
    user_consts = {c: const_value(v) for c, v in cfg['user_consts'].items()}

    def build():
        graders, answers = [], []
        for pos, box in enumerate(cfg['boxes']):
            kind = box['kind']
            if kind == 'string':
                graders.append(StringGrader())
                answers.append('cat')
                continue
            if kind == 'numerical':
                graders.append(NumericalGrader())
                answers.append(box_input(box))
                continue
            names = list(cfg['sf']) if kind == 'rec' else list(cfg['ind_vars'])
            sample_from = {v: make_sampler('box%d/%s' % (pos, v) if kind != 'rec' else v, cfg['sf'][v]) for v in names}
            common = dict(variables=list(cfg['variables']) if kind == 'rec' else list(cfg['ind_vars']), sample_from=sample_from,
                          samples=cfg['samples'], metric_suffixes=bool(cfg['metric']), user_constants=dict(user_consts))
            if kind == 'rec':
                graders.append(FormulaGrader(user_functions=dict(USER_FUNCS, rec=make_recorder(len(watch), seen)),
                                             numbered_vars=list(cfg['numbered']), **common))
                answers.append('rec(%s)' % ','.join(watch))
            else:
                cls = FormulaGrader if kind == 'formula' else MatrixGrader
                graders.append(cls(user_functions=dict(USER_FUNCS), **common))
                answers.append(box_input(box))
        return ListGrader(answers=answers, subgraders=graders, ordered=True)
    st, g = core.guarded(build, seconds=LONG)
    if st != 'ret':
        return 'construct-' + st, g, seen, calls
    inputs = [box_input(b) for b in cfg['boxes']]
    orig = math_helpers.gen_symbols_samples

    def wrapped(symbols, samples, sample_from, functions, suffixes, constants):
        rec = {'symbols': list(symbols), 'constants': dict(constants), 'out': None, 'exc': None, 'log0': len(LOG)}
        calls.append(rec)
        try:
            rec['out'] = orig(symbols, samples, sample_from, functions, suffixes, constants)
        except BaseException as e:   # noqa
            rec['exc'] = e
            raise
        finally:
            rec['log'] = list(LOG[rec['log0']:])
        return rec['out']
    del LOG[:]
    math_helpers.gen_symbols_samples = wrapped
    try:
        st, out = core.guarded(g, None, inputs, seconds=patience)
    finally:
        math_helpers.gen_symbols_samples = orig
    if st == 'timeout' and confirm_timeout(patience):
        return run_sib(cfg, patience=LONG)
    return st, out, seen, calls


def sib_consts(cfg):
    consts = dict(DEFAULT_CONST_SPECS)
    consts.update(cfg['user_consts'])
    return consts


def oracle_sib(cfg, st, out, seen):
    """sibling_j, as seen by the author's function, is the input of box j (counting every box of the ListGrader)
    evaluated on the other values of the same sample"""
    watch, k = cfg['watch'], cfg['samples']
    if st != 'ret':
        return ['ListGrader call with sibling variables failed: %s %r' % (st, out)]
    if len(seen) != k:
        return ['recording function called %d times for %d samples' % (len(seen), k)]
    consts = {c: canon(const_value(v)) for c, v in sib_consts(cfg).items() if c not in cfg['variables']}
    fails = []
    for i, t in enumerate(seen):
        vals = dict(zip(watch, t))
        base = dict(consts)
        base.update({key: canon(v) for key, v in vals.items() if not key.startswith('sibling_')})
        sib_exact = {}
        INEXACT[0] = False
        outer, fails = fails, []
        for j, box in enumerate(cfg['boxes']):
            nm = 'sibling_%d' % (j + 1)
            if box['kind'] not in ('formula', 'matrix', 'numerical'):
                continue
            try:      # sibling inputs use independent variables and constants only
                sib_exact[nm] = fr_eval(fromlist(box['input']), {k2: v2 for k2, v2 in base.items() if k2 in cfg['ind_vars'] or k2 in consts})
            except FormulaError:
                continue
            if nm in vals and canon(vals[nm]) != sib_exact[nm]:
                fails.append('sample %d: %s seen as %r but the input of box %d, %s, gives %r on the other values seen'
                             % (i, nm, vals[nm], j + 1, box_input(box), sib_exact[nm]))
        env = dict(base)
        env.update(sib_exact)
        for nm, e in cfg['dep_exprs'].items():
            if nm not in vals:
                continue
            try:
                exact = fr_eval(fromlist(e), {k2: v2 for k2, v2 in env.items() if k2 != nm})
            except FormulaError:
                continue
            if canon(vals[nm]) != exact:
                fails.append('sample %d: %s seen as %r but its formula %s gives %r on the sibling inputs and the other values seen'
                             % (i, nm, vals[nm], render(fromlist(e)), exact))
        if INEXACT[0] or not all(value_exact(canon(v)) for v in vals.values()):
            fails = []          # beyond the exact float range: no exact comparison for this sample (guard band)
        fails = outer + fails
    return fails


def gen_sib(rng, tag):
    nv = rng.randint(1, 3)
    variables = rng.sample(L2_VARS, nv)
    sf = {v: ['ind', 'int', 10 * (i + 1), stable_seed(tag, v)] for i, v in enumerate(variables)}
    metric = rng.random() < 0.4
    user_consts = dict(rng.sample([c for c in USER_CONST_POOL if c[1][0] in ('int', 'float') and c[0] not in variables],
                                  rng.randint(0, 2)))
    nbox = rng.randint(2, 5)
    rec_pos = rng.randrange(nbox)
    boxes = []
    extras = ('percent', 'funcs') + (('metric',) if metric else ())
    for pos in range(nbox):
        if pos == rec_pos:
            boxes.append({'kind': 'rec', 'input': ['num', 0]})
            continue
        kind = rng.choice(['formula', 'formula', 'string', 'numerical', 'matrix'])
        if kind == 'string':
            boxes.append({'kind': kind, 'input': rng.choice(['cat', 'dog'])})
        elif kind == 'numerical':
            e, t, b, d = gen_formula(rng, [], allow_vec=False)
            boxes.append({'kind': kind, 'input': tolist(e), 'scalar': True})
        else:
            avail = [(v, ('s', 0), 20 * (len(variables) + 1), 0) for v in variables]
            deps = rng.sample(avail, rng.randint(1, len(avail)))
            for c in user_consts:
                if rng.random() < 0.4:
                    deps.append((c, ('s', 0), 4, 1))
            e, t, b, d = gen_formula(rng, deps, allow_vec=(kind == 'matrix'), extras=extras)
            boxes.append({'kind': kind, 'input': tolist(e), 'scalar': t[0] == 's'})
    sibs = ['sibling_%d' % (pos + 1) for pos, b in enumerate(boxes) if b['kind'] in ('formula', 'matrix', 'numerical')]
    # DependentSamplers of the recording grader that reference siblings: on a plain variable and/or on a numbered head
    ind_vars = list(variables)
    all_vars, numbered, instances, dep_exprs = list(variables), [], [], {}
    scalar_sibs = ['sibling_%d' % (pos + 1) for pos, b in enumerate(boxes) if b.get('scalar') and b['kind'] != 'rec']

    def sib_formula():
        sb = ('var', rng.choice(scalar_sibs))
        return tolist(rng.choice([('add', sb, ('num', rng.randrange(0, 6))), ('neg', sb),
                                  ('sub', ('var', rng.choice(ind_vars)), sb), ('add', sb, ('var', rng.choice(ind_vars)))]))
    if scalar_sibs and rng.random() < 0.6:
        mode = rng.choice(['plain', 'head', 'both'])
        if mode in ('plain', 'both'):
            sf['d'] = ['dep', sib_formula()]
            all_vars.append('d')
            dep_exprs['d'] = sf['d'][1]
        if mode in ('head', 'both'):
            sf['n'] = ['dep', sib_formula()]
            numbered = ['n']
            instances = ['n_{%s}' % i for i in rng.sample(L2_INDICES, rng.randint(1, 2))]
            for nm in instances:
                dep_exprs[nm] = sf['n'][1]
    referenced = set()
    for e in dep_exprs.values():
        referenced |= {v for v in expr_vars(fromlist(e)) if v.startswith('sibling_')}
    # siblings referenced by a sampler are mentioned in the answer only sometimes; the others always (they matter only then)
    mentioned = [x for x in sibs if x not in referenced or rng.random() < 0.4]
    watch = all_vars + instances + mentioned + [c for c in user_consts]
    rng.shuffle(watch)
    return {'level': 'SIB', 'variables': all_vars, 'ind_vars': ind_vars, 'numbered': numbered, 'dep_exprs': dep_exprs,
            'sf': sf, 'boxes': boxes, 'watch': watch, 'metric': metric, 'user_consts': user_consts, 'samples': rng.choice([1, 2])}


def instance_first(listed_symbols, used, variables):
    """the names used in the expressions, numbered instances first in the order the implementation listed them"""
    listed = [x for x in listed_symbols if x in used and x not in variables and not x.startswith('sibling_')]
    return listed + sorted(set(used) - set(listed))


def sib_cases(ctx, res, rng, dist, terms, metas):
    n = 60 if ctx['tier'] == 'quick' else 500
    for g in range(n):
        cfg = gen_sib(rng, 'sib/%d/%d' % (ctx['seed'], g))
        variables, sf, watch, boxes = cfg['variables'], cfg['sf'], cfg['watch'], cfg['boxes']
        st, out, seen, calls = run_sib(cfg)
        res.oracle_evals += 1
        for text in oracle_sib(cfg, st, out, seen):
            res.witnesses.append({'key': 'SIB:' + cfg_key(cfg), 'kind': 'siblings', 'cfg': cfg, 'what': text})
            break
        res.nontrivial.add(('SIB', cfg_key(cfg)))
        dist['sibling lists with a non-formula box'] = dist.get('sibling lists with a non-formula box', 0) + \
            (1 if any(b['kind'] == 'string' for b in boxes) else 0)
        # correspondence: the gen_symbols_samples call made for the recording box
        needed = set(watch)
        for e in cfg['dep_exprs'].values():
            needed |= expr_vars(fromlist(e))
        sibs = [('sibling_%d' % (pos + 1), fromlist(b['input'])) for pos, b in enumerate(boxes)
                if b['kind'] in ('formula', 'matrix', 'numerical') and 'sibling_%d' % (pos + 1) in needed]
        dist['sibling lists with a sampler that references a sibling'] = dist.get('sibling lists with a sampler that references a sibling', 0) + \
            (1 if cfg['dep_exprs'] else 0)
        rec_calls = [c for c in calls if set(c['symbols']) >= set(variables) and
                     (any(x.startswith('sibling_') for x in c['symbols']) or not sibs) and c['log'] and
                     all(tag in variables for tag, _ in c['log'])]
        if not rec_calls:
            if sibs:
                res.notes.append('siblings: no gen_symbols_samples call received sibling variables (%s %r)' % (st, out))
            continue
        call = rec_calls[-1]
        used = set(watch)
        for _, e in sibs:
            used |= expr_vars(e)
        o = obs_term('exc', call['exc'], cfg['samples']) if call['exc'] is not None else obs_term('ret', call['out'], cfg['samples'])
        d = draws_term(call['log'], len(cfg['ind_vars']), cfg['samples'])
        if o is None or d is None:
            continue
        sa = seen_term(watch, seen) if st == 'ret' and len(seen) == cfg['samples'] else '[]'
        if sa is None:
            continue
        dep_map = dict(cfg['dep_exprs'])
        dep_map.update({k2: tolist(e2) for k2, e2 in sibs})
        if beyond_exact((call['out'] or []) + [dict(zip(watch, t)) for t in seen if len(t) == len(watch)], dep_map):
            res.boundary += 1
            dist['beyond_exact_float_range'] = dist.get('beyond_exact_float_range', 0) + 1
            continue
        terms.append('(([%s], [%s], [%s], [%s], %s, %s, %s, %s, [%s], %s), ([%s], %s, []))' % (
            '; '.join('"%s"' % v for v in variables), '; '.join('"%s"' % h for h in cfg['numbered']),
            '; '.join('"%s"' % u for u in instance_first(call['symbols'], used, variables)),
            '; '.join('("%s", %s)' % (k, coq_expr(e)) for k, e in sibs), sf_term(sf), consts_term(sib_consts(cfg)), d,
            core.qlit(0), '; '.join('"%s"' % x for x in call['symbols']), o, '; '.join('"%s"' % k for k, _ in sibs), sa))
        metas.append({'variables': variables, 'boxes': [(b['kind'], box_input(b)) for b in boxes], 'symbols_seen': call['symbols']})
    dist['sibling ListGrader calls'] = n


# ------------------------------------------------------------------------------------------------
def run(ctx):
    res = core.Result()
    TIMEOUTS.update(confirmed=0, faced=0)
    rng = random.Random(1000003 * ctx['seed'] + 13)
    res.rule = ('L1: one case per (declaration, declaration order): random DAGs of 1..8 variables (chains, diamonds, fan-in/out, '
                'constants, vectors, index-like names, names shadowing constants) and their cyclic/dangling/both variants, every '
                '2-dependent graph over {x,y,a,undefined} and 3-dependent graphs over {x,y,z,a,undefined}; L2: one case per grader '
                'configuration (numbered instances incl. negative/multi-digit indices, collisions with declared names, user constants '
                'over defaults, dependents on instances); L0: one case per (heads, string) on which the regexp matches; siblings: one '
                'case per ListGrader call.  A case is counted once per distinct configuration hash.')
    level0(ctx, res, rng)
    level1(ctx, res, rng)
    level2(ctx, res, rng)
    res.exhaustive = False
    return res


def replay(w):
    kind = w.get('kind')
    if kind == 'regexp':
        from mitxgraders.helpers.math_helpers import numbered_vars_regexp
        heads, s = w['heads'], w['string']
        st, rx = core.guarded(numbered_vars_regexp, heads, seconds=LONG)
        if st != 'ret':
            return True, 'numbered_vars_regexp(%r) raises %r' % (heads, rx)
        m = rx.match(s)
        h = is_instance_name(s, heads)
        bad = h is not None and (m is None or m.groups()[0] != s)
        return bad, 'numbered_vars_regexp(%r).match(%r) -> %r; instance of %r by definition' % (heads, s, m and m.groups(), h)
    cfg = w['cfg']
    if kind == 'gen_symbols_samples-history':
        return replay_l1_history(cfg)
    if kind == 'grader-history':
        fails = run_l2_history(cfg)
        return bool(fails), 'FormulaGrader(variables=%r, numbered_vars=%r, user_constants=%r, sample_from=%r), submissions %r\n%s' % (
            cfg['variables'], cfg['numbered'], cfg['user_consts'],
            {s: (v if v[0] != 'dep' else render(fromlist(v[1]))) for s, v in cfg['sf'].items()}, cfg['history'], '\n'.join(fails[:2]))
    if kind == 'gen_symbols_samples':
        st, out, log = run_l1(cfg)
        fails = oracle_l1(cfg, st, out, log)
        return bool(fails), 'gen_symbols_samples(%r, %d, %r, ..., constants=%r) -> %s %r\n%s' % (
            cfg['symbols'], cfg['samples'], {s: (v if v[0] != 'dep' else render(fromlist(v[1]))) for s, v in cfg['sf'].items()},
            cfg['consts'], st, out, '\n'.join(fails[:3]))
    if kind == 'grader-call':
        st, out, seen, calls, log = run_l2(cfg)
        fails = oracle_l2(cfg, st, out, seen, log)
        return bool(fails), 'FormulaGrader(variables=%r, numbered_vars=%r, sample_from=%r, user_constants=%r, samples=%d) on rec(%s) -> %s %r\n%s' % (
            cfg['variables'], cfg['numbered'], {s: (v if v[0] != 'dep' else render(fromlist(v[1]))) for s, v in cfg['sf'].items()},
            cfg['user_consts'], cfg['samples'], ','.join(cfg['watch']), st, out, '\n'.join(fails[:3]))
    if kind == 'siblings':
        st, out, seen, _ = run_sib(cfg)
        fails = oracle_sib(cfg, st, out, seen)
        return bool(fails), 'ordered ListGrader, boxes %r (metric_suffixes=%r, user_constants=%r), recording rec(%s) -> %s %r\n%s' % (
            [(b['kind'], box_input(b)) for b in cfg['boxes']], cfg['metric'], cfg['user_consts'], ','.join(cfg['watch']),
            st, out, '\n'.join(fails[:3]))
    return False, 'unknown witness kind %r' % kind


LEVEL_TEXT = ('Theorems for symbol lists, dependency graphs and chains of any size, any declaration order, any number of samples, an '
              'arbitrary value type and an arbitrary extensional evaluation oracle: every sample binds exactly the declared symbols, the '
              'numbered instances used in the expressions (with their base name\'s sampler; instance = head_{canonical integer}, '
              'specified against the regenerated regexp text), the sibling formulas and the unshadowed constants; independent values '
              'are the recorded draws; every dependent value equals its formula on the same sample and does not involve itself; the '
              'result does not depend on the declaration order; the loop terminates within #dependents passes; cyclic or dangling '
              'declarations yield one of the three ConfigErrors and closed acyclic ones never do; both diagnoses are accurate.')
LEVEL_NOTE = ('Full relative to the extensionality hypothesis on the evaluator (proved for the evaluator used in the evaluated cases). '
              'Model tied by differential correspondence at three levels (regexp, gen_symbols_samples, grader calls) with recorded draws, '
              'plus regenerated definitions for the regexp text, is_subset and construct_constants; no axioms.')
TECHNIQUE = ('Coq proof (invariant of the fixed-point loop, induction on the build order / dependency rank, permutation invariance) '
             '+ source-to-Gallina translator for three helpers + vm_compute correspondence with recorded sampler draws')
DESIGN_REF = 'DESIGN.md section 3, C13'
