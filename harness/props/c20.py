"""C20 -- configuration validation.
Tie (A): coq/Gen/Schemas.v is regenerated on every run from every schema_config, the answer schemas and the
validatorfuncs combinators (translate/schemas.py); the per-class theorems of Props/C20.v are computed on it.
Tie (B): every ObjectWithSchema.validate_config / __init__ / validate_math_config / ListGrader.__init__ /
SingleListGrader.__init__ call made while the sweep runs is recorded (wrapped from here) and re-evaluated by the
Coq interpreter on the very same input; Coq decides agreement.
Oracle: the documented option domains (harness/props/c20_tables.py, written from the documentation) applied to
what the real constructors did."""
import random
import traceback

from harness import core
from harness.props import c20_values as V
from harness.props import c20_tables as TB
from harness.props import c20_registered as RG
from harness.props import c20_behaviour as BH
from translate import schemas as tr

ID = 'C20'
PROPS = 'Props/C20.v'
TRANSLATORS = [('Gen/Schemas.v', tr.generate)]
MIRRORED = [
    ('mitxgraders/baseclasses.py', 'ObjectWithSchema.__init__'),
    ('mitxgraders/baseclasses.py', 'ObjectWithSchema.apply_registered_defaults'),
    ('mitxgraders/baseclasses.py', 'ObjectWithSchema.validate_config'),
    ('mitxgraders/baseclasses.py', 'ItemGrader.validate_single_answer'),
    ('mitxgraders/formulagrader/formulagrader.py', 'FormulaGrader.validate_expect'),
    ('mitxgraders/helpers/math_helpers.py', 'validate_blacklist_whitelist_config'),
    ('mitxgraders/helpers/math_helpers.py', 'warn_if_override'),
    ('mitxgraders/helpers/math_helpers.py', 'validate_no_collisions'),
    ('mitxgraders/helpers/math_helpers.py', 'MathMixin.validate_math_config'),
    ('mitxgraders/listgrader.py', 'ListGrader.__init__'),
    ('mitxgraders/listgrader.py', 'ListGrader.schema_answers'),
    ('mitxgraders/listgrader.py', 'ListGrader.create_grouping_map'),
    ('mitxgraders/listgrader.py', 'ListGrader.validate_grouping'),
    ('mitxgraders/listgrader.py', 'SingleListGrader.__init__'),
    ('voluptuous/schema_builder.py', 'Schema._compile_mapping'),
    ('voluptuous/schema_builder.py', 'Schema._compile_dict'),
    ('voluptuous/schema_builder.py', 'Schema._compile_sequence'),
    ('voluptuous/schema_builder.py', '_compile_scalar'),
    ('voluptuous/schema_builder.py', 'Schema.extend'),
    ('voluptuous/validators.py', 'Any'),
    ('voluptuous/validators.py', 'All'),
    ('voluptuous/validators.py', 'Range'),
    ('voluptuous/validators.py', 'Length'),
    ('voluptuous/validators.py', 'Coerce'),
    ('voluptuous/validators.py', 'NotIn'),
    ('voluptuous/humanize.py', 'validate_with_humanized_errors'),
    ('mitxgraders/helpers/validatorfuncs.py', 'PercentageString'),
    ('mitxgraders/helpers/validatorfuncs.py', 'all_unique'),
    ('mitxgraders/helpers/validatorfuncs.py', 'is_callable_with_args'),
]
REFUTED = ['C20_rebuild_from_config_refuted_deleted_constant']
TRUSTED = [
    'translator translate/schemas.py (Python ast -> schema terms; fail-closed; two try/except functions are mirrored by '
    'hand-written constructors and guarded by an AST hash)',
    'correspondence harness harness/props/c20.py + c20_values.py: run-time wrappers around validate_config, __init__, '
    'validate_math_config, ListGrader/SingleListGrader.__init__; values enter Coq structurally, floats as exact rationals',
    'modelled, not verified: voluptuous engine (replaced by the interpreter Model/Schema.v), float() parsing inside '
    'PercentageString (oracle table per case), inspect.signature (arity tags), isinstance/MRO (class tags), '
    'the expression parser used by DependentSampler',
    'documented domains: harness/props/c20_tables.py, hand-written from docstrings and docs/*.md',
]
ASSUMPTIONS = ['configurations are finite trees of None/bool/int/float/str/list/tuple/dict/objects; dictionary keys are pairwise different',
               'objects other than ObjectWithSchema instances are compared by identity',
               'NaN is outside the value universe']
LEVEL_TEXT = ('Theorems for all schemas of the voluptuous fragment in use and all configurations: an accepted configuration has '
              'exactly the declared keys, omitted options carry their validated default, supplied options their validated value, '
              'unknown keys / missing required keys are refused, acceptance is characterised option by option, keyword and '
              'dictionary forms agree, and re-validating a validated configuration returns it unchanged (for the syntactic '
              'class of schemas that every class of the library falls in -- checked by computation on the schemas regenerated '
              'from the source). Cross-option rules (whitelist/blacklist, overrides, collisions, subgrader/grouping rules, nested '
              'delimiters) are characterised on hand-written models tied by correspondence. A refused configuration raises a '
              'validation error: proved for every class schema and every value. "Rebuilding from the exposed configuration" is '
              'proved at schema level for every class and REFUTED at constructor level (deleted default constants, known finding).')
LEVEL_NOTE = ('Interpreter faithfulness to voluptuous and of the rule models to the constructors is differential correspondence '
              '(every validate_config call of the sweep re-evaluated in Coq); documented defaults are a hand-written table.')
TECHNIQUE = 'Coq proof (deep embedding + interpreter, induction over nested schemas) + source-to-Gallina translator + vm_compute correspondence'
DESIGN_REF = 'DESIGN.md section 3, C20'

_CACHE = {}


def tables():
    if 'T' not in _CACHE:
        _CACHE['T'], _CACHE['POS'] = TB.build()
    return _CACHE['T'], _CACHE['POS']


def world():
    if 'W' not in _CACHE:
        _CACHE['W'] = tr.World()
    return _CACHE['W']


# ------------------------------------------------------------------------------------------------
# cases
# ------------------------------------------------------------------------------------------------
def doc_defaults(table):
    d = {}
    for k, o in table.options.items():
        if o.default in (TB.REQUIRED, TB.ABSENT, TB.DERIVED):
            continue
        d[k] = o.default
    return d


def case_config(case):
    """(class, supplied options dict, expected accept?) for a ('kw', cls, [(opt, kind, idx)]) case"""
    T, _ = tables()
    _, cname, picks = case
    table = T[cname]
    cfg = dict(table.base)
    all_good = True
    for opt, kind, idx in picks:
        dom = table.options[opt].dom
        cfg[opt] = (dom.good if kind == 'good' else dom.bad)[idx]
        all_good = all_good and kind == 'good'
    full = doc_defaults(table)
    for k, v in cfg.items():
        full[k] = table.options[k].dom.normal(v) if (k in table.options and all_good and table.options[k].dom.norm
                                                     and k not in ('answers',)) else v
    expect = all_good and bool(table.rules(cfg, dict(doc_defaults(table), **cfg)))
    return table, cfg, expect


def cross_cases():
    """explicit corpus: every cross-option rule violated (and its nearest accepted neighbour), unknown keys"""
    import mitxgraders as M
    T, _ = tables()
    sg = M.StringGrader()

    def f(x):
        return x
    out = []

    def add(name, cname, cfg, expect):
        out.append((name, cname, cfg, expect))
    for cname in ('FormulaGrader', 'NumericalGrader', 'MatrixGrader'):
        add('wl+bl', cname, {'blacklist': ['sin'], 'whitelist': ['cos']}, False)
        add('wl-none+bl', cname, {'blacklist': ['sin'], 'whitelist': [None]}, False)
        add('bl-unknown', cname, {'blacklist': ['notafunction']}, False)
        add('wl-unknown', cname, {'whitelist': ['sin', 'notafunction']}, False)
        add('wl-ok', cname, {'whitelist': ['sin', 'cos']}, True)
        add('wl-none', cname, {'whitelist': [None]}, True)
        add('const-override', cname, {'user_constants': {'pi': 3}}, False)
        add('const-override-suppressed', cname, {'user_constants': {'pi': 3}, 'suppress_warnings': True}, True)
        add('func-override', cname, {'user_functions': {'sin': f}}, False)
        add('func-override-suppressed', cname, {'user_functions': {'sin': f}, 'suppress_warnings': True}, True)
        add('const-delete', cname, {'user_constants': {'pi': None}}, True)
    # None-valued user constants: (a) default constants, (b) other names; accepted exactly when the configuration
    # without the None entries is (with the named default constants deleted) -- computed by the documented rules
    def add_auto(name, cname, cfg):
        table = T[cname]
        cfg = dict(table.base, **cfg)
        add(name, cname, cfg, bool(table.rules(cfg, dict(doc_defaults(table), **cfg))))
    for cname in ('FormulaGrader', 'NumericalGrader', 'MatrixGrader', 'SumGrader', 'IntegralGrader'):
        for tag, uc in (('a-i', {'i': None}), ('a-ij', {'i': None, 'j': None}), ('a-pi-e-mixed', {'pi': None, 'e': None, 'g': 9.8}),
                        ('b-fresh', {'c': None}), ('b-fresh-mixed', {'c': None, 'g': 9.8}), ('b-infty', {'infty': None}),
                        ('ab-mixed', {'pi': None, 'c': None, 'g': 1.5}), ('b-two', {'c': None, 'd': None})):
            add_auto('none-const-' + tag, cname, {'user_constants': uc})
        if cname != 'NumericalGrader':
            add_auto('none-const-b-also-variable', cname, {'variables': ['c'], 'user_constants': {'c': None, 'g': 9.8}})
            add_auto('none-const-b-also-variable-alone', cname, {'variables': ['c', 'x'], 'user_constants': {'c': None}})
            add_auto('none-const-b-infty-variable', cname, {'variables': ['infty'], 'user_constants': {'infty': None}})
            add_auto('none-const-b-numbered-head', cname, {'numbered_vars': ['c'], 'user_constants': {'c': None, 'g': 2}})
            add_auto('none-const-b-variable-real-collision', cname, {'variables': ['c', 'g'], 'user_constants': {'c': None, 'g': 2}})
            add_auto('none-const-a-also-variable', cname, {'variables': ['i'], 'user_constants': {'i': None, 'j': None}})
            add_auto('none-const-a-numbered-head', cname, {'numbered_vars': ['e'], 'user_constants': {'e': None}})
    for cname in ('FormulaGrader', 'NumericalGrader'):
        add_auto('none-const-infty-allow-inf', cname, {'allow_inf': True, 'user_constants': {'infty': None}})
        add_auto('none-const-infty-no-allow-inf', cname, {'allow_inf': False, 'user_constants': {'infty': None, 'g': 1}})
    add_auto('none-const-infty-variable-allow-inf', 'FormulaGrader', {'allow_inf': True, 'variables': ['infty'],
                                                                      'user_constants': {'infty': None}})
    add('var-override', 'FormulaGrader', {'variables': ['pi']}, False)
    add('var-override-suppressed', 'FormulaGrader', {'variables': ['pi'], 'suppress_warnings': True}, True)
    add('numvar-override', 'FormulaGrader', {'numbered_vars': ['e']}, False)
    add('numvar-override-suppressed', 'FormulaGrader', {'numbered_vars': ['e'], 'suppress_warnings': True}, True)
    add('collision', 'FormulaGrader', {'variables': ['x'], 'user_constants': {'x': 1}}, False)
    add('collision-suppressed', 'FormulaGrader', {'variables': ['x'], 'user_constants': {'x': 1}, 'suppress_warnings': True}, False)
    add('deleted-default-as-variable', 'FormulaGrader', {'variables': ['pi'], 'user_constants': {'pi': None}}, True)
    add('infty-override', 'FormulaGrader', {'allow_inf': True, 'variables': ['infty']}, False)
    add('infty-no-override', 'FormulaGrader', {'allow_inf': False, 'variables': ['infty']}, True)
    add('sample-from-orphan', 'FormulaGrader', {'variables': ['x'], 'sample_from': {'y': [1, 2]}}, False)
    add('sample-from-list', 'FormulaGrader', {'variables': ['x'], 'sample_from': {'x': [1, 2]}}, True)
    add('sample-from-set', 'FormulaGrader', {'variables': ['x', 'y'], 'sample_from': {'x': (1, 2, 3), 'y': 4}}, True)
    add('sample-from-object', 'FormulaGrader', {'variables': ['x'], 'numbered_vars': ['n'],
                                               'sample_from': {'x': M.IntegerRange([1, 3]), 'n': M.RealInterval()}}, True)
    add('sample-from-bad', 'FormulaGrader', {'variables': ['x'], 'sample_from': {'x': 'abc'}}, False)
    add('sample-from-badlist', 'FormulaGrader', {'variables': ['x'], 'sample_from': {'x': [1, 2, 3]}}, False)
    add('matrix-sample', 'MatrixGrader', {'variables': ['A'], 'sample_from': {'A': M.RealMatrices()}}, True)
    # ListGrader
    lg_inner = M.ListGrader(subgraders=sg)
    add('unordered-multi', 'ListGrader', {'subgraders': [sg, sg], 'answers': ['a', 'b'], 'ordered': False}, False)
    add('unordered-multi-default', 'ListGrader', {'subgraders': [sg, sg], 'answers': ['a', 'b']}, False)
    add('ordered-multi', 'ListGrader', {'subgraders': [sg, sg], 'answers': ['a', 'b'], 'ordered': True}, True)
    add('multi-count', 'ListGrader', {'subgraders': [sg, sg, sg], 'answers': ['a', 'b'], 'ordered': True}, False)
    add('single-answer', 'ListGrader', {'subgraders': sg, 'answers': ['a']}, False)
    add('ragged', 'ListGrader', {'subgraders': sg, 'answers': (['a', 'b'], ['c'])}, False)
    add('tuple-of-lists', 'ListGrader', {'subgraders': sg, 'answers': (['a', 'b'], ['c', 'd'])}, True)
    add('grouping-ok', 'ListGrader', {'subgraders': lg_inner, 'answers': [['a', 'b'], ['c', 'd']], 'grouping': [1, 1, 2, 2]}, True)
    add('grouping-gap', 'ListGrader', {'subgraders': lg_inner, 'answers': [['a', 'b'], ['c', 'd']], 'grouping': [1, 1, 3, 3]}, False)
    add('grouping-from-2', 'ListGrader', {'subgraders': lg_inner, 'answers': [['a', 'b'], ['c', 'd']], 'grouping': [2, 2, 3, 3]}, False)
    add('grouping-nonlist-sub', 'ListGrader', {'subgraders': sg, 'answers': ['a', 'b'], 'grouping': [1, 2]}, False)
    add('grouping-unequal-unordered', 'ListGrader', {'subgraders': lg_inner, 'answers': [['a', 'b'], ['c', 'd']],
                                                    'grouping': [1, 1, 1, 2]}, False)
    add('grouping-unequal-ordered', 'ListGrader', {'subgraders': [lg_inner, sg], 'answers': [['a', 'b'], 'c'],
                                                  'grouping': [1, 1, 2], 'ordered': True}, True)
    add('grouping-count', 'ListGrader', {'subgraders': [lg_inner, sg], 'answers': [['a', 'b'], 'c'],
                                        'grouping': [1, 1, 2, 3], 'ordered': True}, False)
    add('grouping-list-to-item', 'ListGrader', {'subgraders': [sg, sg], 'answers': ['a', 'b'],
                                               'grouping': [1, 1, 2], 'ordered': True}, False)
    # SingleListGrader
    inner = M.SingleListGrader(subgrader=sg)
    inner_semi = M.SingleListGrader(subgrader=sg, delimiter=';')
    add('same-delimiter', 'SingleListGrader', {'subgrader': inner}, False)
    add('same-delimiter-explicit', 'SingleListGrader', {'subgrader': inner_semi, 'delimiter': ';'}, False)
    add('different-delimiter', 'SingleListGrader', {'subgrader': inner_semi}, True)
    add('different-delimiter-2', 'SingleListGrader', {'subgrader': inner, 'delimiter': ';'}, True)
    mid = M.SingleListGrader(subgrader=inner, delimiter=';')
    add('deep-repeat', 'SingleListGrader', {'subgrader': mid, 'delimiter': ','}, False)
    add('deep-repeat-2', 'SingleListGrader', {'subgrader': mid, 'delimiter': ';'}, False)
    add('deep-distinct', 'SingleListGrader', {'subgrader': mid, 'delimiter': '|'}, True)
    add('nested-answers', 'SingleListGrader', {'subgrader': inner, 'delimiter': ';', 'answers': [['a', 'b'], ['c', 'd']]}, True)
    add('nested-answers-str', 'SingleListGrader', {'subgrader': inner, 'delimiter': ';', 'answers': 'a,b;c,d'}, True)
    # Integral / Sum positions
    ia = T['IntegralGrader'].base['answers']
    add('positions-repeat', 'IntegralGrader', {'answers': ia, 'input_positions': {'lower': 1, 'upper': 1}}, False)
    add('positions-gap', 'IntegralGrader', {'answers': ia, 'input_positions': {'lower': 1, 'upper': 3}}, False)
    add('positions-from-2', 'IntegralGrader', {'answers': ia, 'input_positions': {'integrand': 2}}, False)
    add('positions-ok', 'IntegralGrader', {'answers': ia, 'input_positions': {'integrand': 2, 'lower': 1}}, True)
    # SquareMatrices impossible combinations (documented)
    add('det0-traceless', 'SquareMatrices', {'determinant': 0, 'traceless': True}, False)
    add('det0-antisym-even', 'SquareMatrices', {'determinant': 0, 'symmetry': 'antisymmetric'}, False)
    add('det0-antisym-odd', 'SquareMatrices', {'determinant': 0, 'symmetry': 'antisymmetric', 'dimension': 3}, True)
    add('det1-antisym-odd', 'SquareMatrices', {'determinant': 1, 'symmetry': 'antisymmetric', 'dimension': 3}, False)
    add('det1-diag-traceless-2', 'SquareMatrices', {'determinant': 1, 'symmetry': 'diagonal', 'traceless': True}, False)
    add('det1-diag-traceless-2-complex', 'SquareMatrices', {'determinant': 1, 'symmetry': 'diagonal', 'traceless': True,
                                                          'complex': True}, True)
    # unknown option names, every class
    for cname, table in T.items():
        add('unknown-key', cname, dict(table.base, not_an_option=1), False)
        add('unknown-key-2', cname, dict(table.base, Debug=True), False)
    return out


def gen_cases(ctx, rng):
    T, POS = tables()
    cases = []
    # exhaustive single-option deviations
    for cname, table in T.items():
        cases.append(('kw', cname, ()))
        for opt, o in table.options.items():
            for i in range(len(o.dom.good)):
                cases.append(('kw', cname, ((opt, 'good', i),)))
            for i in range(len(o.dom.bad)):
                cases.append(('kw', cname, ((opt, 'bad', i),)))
    for cname, (cls, dom) in POS.items():
        for i in range(len(dom.good)):
            cases.append(('pos', cname, 'good', i))
        for i in range(len(dom.bad)):
            cases.append(('pos', cname, 'bad', i))
    # single-option deviations from a NON-default base: a non-empty `answers` supplied together with each in-domain
    # value of every other option (options may change what the constructor does with the answers)
    for cname, table in T.items():
        a = table.options.get('answers')
        if a is None or a.default is TB.REQUIRED:
            continue
        nonempty = [i for i, v in enumerate(a.dom.good) if v not in ((), [], {})]
        if not nonempty:
            continue
        for opt, o in table.options.items():
            if opt == 'answers':
                continue
            for j in range(len(o.dom.good)):
                cases.append(('kw', cname, tuple(sorted((('answers', 'good', nonempty[(j + len(opt)) % len(nonempty)]), (opt, 'good', j))))))
    n_single = len(cases)
    # random multi-option combinations
    n_multi = 700 if ctx['tier'] == 'quick' else 6000
    if ctx['escalate'] and ctx['tier'] == 'quick':
        n_multi = 1100
    names = sorted(T)
    for _ in range(n_multi):
        cname = rng.choice(names)
        table = T[cname]
        opts = sorted(table.options)
        if len(opts) < 2:
            continue
        k = rng.randint(2, min(5, len(opts)))
        picks = []
        for opt in rng.sample(opts, k):
            dom = table.options[opt].dom
            if rng.random() < 0.85 or not dom.bad:
                picks.append((opt, 'good', rng.randrange(len(dom.good))))
            else:
                picks.append((opt, 'bad', rng.randrange(len(dom.bad))))
        cases.append(('kw', cname, tuple(sorted(picks))))
    for name, cname, cfg, expect in cross_cases():
        cases.append(('cross', name, cname))
    cases += override_cases(ctx)
    cases += special_float_cases()
    return cases, n_single


# ------------------------------------------------------------------------------------------------
# streams derived from what the classes themselves declare: default-name tables and numeric ranges
# ------------------------------------------------------------------------------------------------
MATH_CLASSES = ('FormulaGrader', 'NumericalGrader', 'MatrixGrader', 'IntegralGrader', 'SumGrader')


def override_cases(ctx):
    """every name of each class's OWN effective default tables (cls.default_functions / cls.default_variables, 'infty'
    under allow_inf) used as a user function / user constant / variable / numbered variable, suppress_warnings off and on"""
    T, _ = tables()
    out = []
    for cname in MATH_CLASSES:
        cls = T[cname].cls
        fnames = sorted(cls.default_functions)
        vnames = sorted(cls.default_variables)
        step = 1 if ctx['tier'] != 'quick' or ctx.get('escalate') else 3      # suppress_warnings=True: every 3rd name in quick
        for i, n in enumerate(fnames):
            out.append(('override', cname, 'user_functions', n, False, False))
            if i % step == 0:
                out.append(('override', cname, 'user_functions', n, True, False))
        fields = ['user_constants'] + ([] if cname == 'NumericalGrader' else ['variables', 'numbered_vars'])
        for n in vnames + ['infty']:
            for field in fields:
                for sup in (False, True):
                    for inf in ((False, True) if cname in ('FormulaGrader', 'NumericalGrader') and n == 'infty' else (False,)):
                        out.append(('override', cname, field, n, sup, inf))
    return out


def override_config(case):
    _, cname, field, name, sup, inf = case

    def f(x):
        return x
    value = {'user_functions': {name: f}, 'user_constants': {name: 1.5}, 'variables': [name], 'numbered_vars': [name]}[field]
    cfg = {field: value}
    if sup:
        cfg['suppress_warnings'] = True
    if inf:
        cfg['allow_inf'] = True
    return cfg


SPECIAL_FLOATS = ['nan', 'npnan', 'inf', '-inf', '-0.0']


def special_float(tag):
    import numpy as np
    return {'nan': float('nan'), 'npnan': np.float64('nan'), 'inf': float('inf'), '-inf': float('-inf'), '-0.0': -0.0}[tag]


def schema_options(cls):
    """option name -> voluptuous validator, read from the schema the class declares"""
    from voluptuous import Schema
    try:
        sch = object.__new__(cls).schema_config
    except Exception:       # noqa
        return {}
    d = sch.schema if isinstance(sch, Schema) else None
    return {str(k): v for k, v in d.items()} if isinstance(d, dict) else {}


def has_range(v, depth=0):
    from voluptuous import Schema, Range
    if depth > 6:
        return False
    if isinstance(v, Range):
        return True
    if hasattr(v, 'validators'):
        return any(has_range(x, depth + 1) for x in v.validators)
    if isinstance(v, Schema):
        return has_range(v.schema, depth + 1)
    return False


def in_declared_domain(v, x):
    """is the float x admitted by the declared validator v?  Independent reading of the declaration (types, Range
    bounds with mathematical comparisons -- NaN is in no range --, NotIn, literals, Any/All); None = cannot tell"""
    import inspect
    from voluptuous import Schema, Range, NotIn, Any, All
    if isinstance(v, Schema):
        return in_declared_domain(v.schema, x)
    if inspect.isclass(v):
        return isinstance(x, v)
    if isinstance(v, Range):
        if x != x:
            return False
        lo = v.min is None or (x >= v.min if v.min_included else x > v.min)
        hi = v.max is None or (x <= v.max if v.max_included else x < v.max)
        return bool(lo and hi)
    if isinstance(v, NotIn):
        return not any(x == c for c in v.container)
    if isinstance(v, Any):
        rs = [in_declared_domain(a, x) for a in v.validators]
        return True if any(r is True for r in rs) else (False if all(r is False for r in rs) else None)
    if isinstance(v, All):
        rs = [in_declared_domain(a, x) for a in v.validators]
        return False if any(r is False for r in rs) else (True if all(r is True for r in rs) else None)
    if v is None or isinstance(v, (bool, int, float, str)):
        return bool(x == v)
    if isinstance(v, (list, tuple, dict)):
        return False
    if getattr(v, '__name__', '') == 'PercentageString':
        return False            # a float is not a percentage string
    return None


def special_float_cases():
    """NaN (python and numpy), +-inf and -0.0 for EVERY option whose declared validator contains a Range"""
    T, _ = tables()
    out = []
    for cname, table in sorted(T.items()):
        vals = schema_options(table.cls)
        for opt in sorted(table.options):
            if opt in vals and has_range(vals[opt]):
                for tag in SPECIAL_FLOATS:
                    if in_declared_domain(vals[opt], special_float(tag)) is not None:
                        out.append(('special', cname, opt, tag))
        if 'answers' in table.options and grade_template(table) is not None:
            for tag in SPECIAL_FLOATS:
                for wrap in ('plain', 'tuple'):
                    out.append(('special-grade', cname, tag, wrap))
    return out


def grade_template(table):
    """first in-domain answers value of the class that contains an {'expect': ...} dictionary"""
    def has(v):
        if isinstance(v, dict):
            return 'expect' in v
        return isinstance(v, (list, tuple)) and any(has(x) for x in v)
    for v in table.options['answers'].dom.good:
        if has(v):
            return v
    return None


def with_grade(v, x, done=None):
    done = done if done is not None else [False]
    if isinstance(v, dict) and 'expect' in v and not done[0]:
        done[0] = True
        return dict(v, grade_decimal=x)
    if isinstance(v, (list, tuple)) and not done[0]:
        return type(v)(with_grade(y, x, done) for y in v)
    return v


def resolve(case):
    """-> (cls, positional value or None, options dict or None, expected accept?, table or None)"""
    T, POS = tables()
    if case[0] == 'kw':
        table, cfg, expect = case_config(case)
        return table.cls, None, cfg, expect, table
    if case[0] == 'pos':
        cls, dom = POS[case[1]]
        v = (dom.good if case[2] == 'good' else dom.bad)[case[3]]
        return cls, v, None, case[2] == 'good', None
    if case[0] == 'override':
        table = T[case[1]]
        cfg = dict(table.base, **override_config(case))
        return table.cls, None, cfg, bool(table.rules(cfg, dict(doc_defaults(table), **cfg))), table
    if case[0] == 'special':
        table = T[case[1]]
        x = special_float(case[3])
        cfg = dict(table.base, **{case[2]: x})
        ok = in_declared_domain(schema_options(table.cls)[case[2]], x)
        return table.cls, None, cfg, bool(ok) and bool(table.rules(cfg, dict(doc_defaults(table), **cfg))), table
    if case[0] == 'special-grade':
        table = T[case[1]]
        x = special_float(case[2])
        a = with_grade(BH.struct_copy(grade_template(table)), x)
        if case[3] == 'tuple' and not isinstance(a, tuple) and table.cls.__name__ != 'ListGrader':
            a = (a,)
        cfg = dict(table.base, answers=a)
        return table.cls, None, cfg, bool(x == x and 0 <= x <= 1), table
    for name, cname, cfg, expect in cross_cases_cached():
        if name == case[1] and cname == case[2]:
            return T[cname].cls, None, cfg, expect, T[cname]
    raise KeyError(case)


def cross_cases_cached():
    if 'X' not in _CACHE:
        _CACHE['X'] = cross_cases()
    return _CACHE['X']


# ------------------------------------------------------------------------------------------------
# the property oracle on the implementation
# ------------------------------------------------------------------------------------------------
def default_constant_names(cls, cfg):
    names = set(getattr(cls, 'default_variables', {}))
    if cfg.get('allow_inf') is True:
        names.add('infty')
    return names


def is_config_or_validation_error(e):
    import voluptuous
    from mitxgraders.exceptions import ConfigError
    return isinstance(e, (ConfigError, voluptuous.Error))


def raise_site(e):
    tb = e.__traceback__
    if tb is None:
        return ''
    while tb.tb_next is not None:
        tb = tb.tb_next
    code = tb.tb_frame.f_code
    return '%s:%s' % ('/'.join(code.co_filename.split('/')[-2:]), getattr(code, 'co_qualname', code.co_name))


def same(a, b):
    """== that never raises and treats numpy arrays structurally"""
    try:
        r = a == b
        if isinstance(r, bool):
            return r
        import numpy as np
        return bool(np.all(r))
    except Exception:       # noqa
        return False


def check_case(case, res=None, witnesses=None):
    """Run one case against the implementation and apply the property.  Appends witnesses."""
    cls, pos, cfg, expect, table = resolve(case)
    w = witnesses if witnesses is not None else []

    if case[0] == 'kw':
        suspects = sorted(o for o, k, _ in case[2] if k == 'bad') or sorted(o for o, _, _ in case[2])
    elif case[0] == 'pos':
        suspects = ['<positional>']
    else:
        suspects = sorted(cfg)

    def witness(kind, what, **extra):
        d = {'key': repr(case) + ':' + kind, 'kind': kind, 'case': list(case), 'class': cls.__name__, 'what': what,
             'options': suspects}
        d.update(extra)
        w.append(d)

    is_pos = case[0] == 'pos'
    owned = BH.struct_copy(pos if is_pos else cfg)      # what the caller owns, before anything is constructed
    owned_text = BH.canon(owned)

    def caller_unchanged(after):
        now = pos if is_pos else cfg
        if BH.canon(now) != owned_text:
            if isinstance(now, dict) and isinstance(owned, dict):
                diff = ['%s: before %s, now %s' % (k, BH.canon(owned.get(k, '<absent>'))[:110], BH.canon(now.get(k, '<absent>'))[:160])
                        for k in sorted(set(now) | set(owned)) if BH.canon(now.get(k, '<absent>')) != BH.canon(owned.get(k, '<absent>'))]
            else:
                diff = ['before %s, now %s' % (owned_text[:120], BH.canon(now)[:160])]
            witness('caller-container-modified', "%s modified the caller's containers -- %s" % (after, '; '.join(diff[:2])))
            return False
        return True

    def construct(form):
        if is_pos:
            return core.guarded(cls, pos)
        if form == 'kw':
            return core.guarded(lambda: cls(**cfg))
        d = dict(cfg)
        r = core.guarded(cls, d)
        if BH.canon(d) != owned_text:
            witness('caller-container-modified', 'the configuration dictionary handed to the constructor was modified: %s'
                    % BH.canon(d)[:240])
        return r
    st, obj = construct('kw')
    caller_unchanged('construction (keyword form)')
    if res is not None:
        res.oracle_evals += 1
    if st == 'timeout':
        witness('timeout', 'constructor did not return within 10 s')
        return w
    if expect:
        if st != 'ret':
            witness('in-domain-refused', 'every supplied option is in its documented domain and the cross-option rules hold, '
                    'but construction raised %s: %s' % (type(obj).__name__, str(obj)[:200]),
                    exc_type=type(obj).__name__, raise_site=raise_site(obj))
            return w
    else:
        if st == 'ret':
            witness('out-of-domain-accepted', 'a supplied option is outside its documented domain (or a cross-option rule is '
                    'violated) but construction succeeded; config=%r' % (getattr(obj, 'config', None),))
            return w
        caller_unchanged('the refused construction')
        if not is_config_or_validation_error(obj):
            witness('wrong-error-class', 'refused configuration raised %s (%s), which is neither a configuration nor a '
                    'validation error' % (type(obj).__name__, str(obj)[:160]),
                    exc_type=type(obj).__name__, raise_site=raise_site(obj))
        # kwargs / dict equivalence of the refusal
        if not is_pos:
            st2, obj2 = construct('dict')
            if st2 == 'ret' or type(obj2) is not type(obj):
                witness('kwargs-dict-differ', 'keyword form raised %s but dictionary form gave %s'
                        % (type(obj).__name__, 'an object' if st2 == 'ret' else type(obj2).__name__))
        return w
    # ---- accepted: the exposed configuration
    conf = obj.config
    if table is not None:
        if not isinstance(conf, dict):
            witness('config-not-dict', 'configuration is %r' % (type(conf),))
            return w
        derived = getattr(table, 'derived_keys', set())
        full = dict(doc_defaults(table), **cfg)
        for k, o in table.options.items():
            supplied = k in cfg
            if supplied and k == 'answers' and (case[0] in ('cross', 'special-grade') or 'entry_partial_credit' in cfg or 'entry_partial_msg' in cfg):
                continue        # the normal form of the answers depends on the subgraders / the comparer in use
            if o.expected is not None and k in conf:
                want = o.expected(full)
                if not same(conf[k], want):
                    witness('exposed-value', 'option %r: configuration exposes %r, expected %r' % (k, conf[k], want), option=k)
                continue
            if k not in conf:
                if o.default is TB.ABSENT and not supplied:
                    continue
                witness('option-missing', 'option %r is not present in the exposed configuration' % k, option=k)
                continue
            if supplied:
                if o.derived_when_given or (k == 'answers' and (case[0] == 'cross' or o.dom.norm is None)):
                    continue
                want = o.dom.normal(cfg[k])
                got = conf[k]
                if o.dom.canon:
                    want, got = o.dom.canon(want), o.dom.canon(got)
                if not same(got, want):
                    witness('supplied-value', 'option %r was given %r; configuration exposes %r, expected %r'
                            % (k, cfg[k], conf[k], want), option=k)
            else:
                if o.default is TB.DERIVED or k in derived and any(x in cfg for x in ('symmetry',)):
                    continue
                if not same(conf[k], o.dom.normal(o.default)):
                    witness('default-value', 'option %r omitted; configuration exposes %r, documented default %r (normal form %r)'
                            % (k, conf[k], o.default, o.dom.normal(o.default)), option=k)
        if table.is_grader and 'answers' in conf and table.cls.__name__ not in ('ListGrader', 'IntegralGrader', 'SumGrader'):
            a = conf['answers']
            okform = isinstance(a, tuple) and all(isinstance(x, dict) and set(x) == {'expect', 'grade_decimal', 'msg', 'ok'}
                                                  and isinstance(x['expect'], tuple) for x in a)
            if not okform:
                witness('answers-not-canonical', 'answers are not a tuple of {expect (tuple), grade_decimal, msg, ok} '
                        'dictionaries: %r' % (a,))
        # None-valued user constants that do not name a default constant have no effect at all
        uc = cfg.get('user_constants')
        if isinstance(uc, dict) and hasattr(cls, 'default_variables'):
            dnames = default_constant_names(cls, cfg)
            idle = sorted(k for k, v in uc.items() if v is None and k not in dnames)
            if any(v is None for v in (conf.get('user_constants') or {}).values()):
                witness('none-constant-exposed', 'the exposed user_constants still contain None entries: %r' % (conf.get('user_constants'),))
            if idle:
                cfg2 = dict(cfg, user_constants={k: v for k, v in uc.items() if k not in idle})
                st4, obj4 = core.guarded(lambda: cls(**cfg2))
                if st4 != 'ret':
                    witness('none-constant-matters', 'accepted, but the same configuration without the None entries %r (which name '
                            'no default constant) raised %s' % (idle, type(obj4).__name__))
                elif not same(obj4, obj):
                    witness('none-constant-matters', 'differs from the grader built without the None entries %r (which name no default '
                            'constant): %r vs %r' % (idle, obj.config.get('user_constants'), obj4.config.get('user_constants')))
        # rebuild from the exposed configuration (graders)
        if table.is_grader:
            st3, obj3 = core.guarded(cls, conf)
            if st3 != 'ret':
                uc = cfg.get('user_constants') if isinstance(cfg.get('user_constants'), dict) else {}
                # (the known finding: a DEFAULT constant deleted with None and declared again as a variable)
                reused = sorted(k for k, v in uc.items() if v is None and k in default_constant_names(cls, cfg) and
                                (k in (cfg.get('variables') or []) or k in (cfg.get('numbered_vars') or [])))
                witness('rebuild-refused', 'constructing the grader again from its own configuration raised %s: %s'
                        % (type(obj3).__name__, str(obj3)[:160]),
                        condition='deleted-default-constant-reused' if reused else 'other', deleted_constants_reused=reused)
            elif not same(obj3, obj) or not same(obj3.config, conf):
                witness('rebuild-differs', 'the grader rebuilt from its configuration is not equal to the original: %r vs %r'
                        % (obj3.config, conf))
        # kwargs / dict equivalence: equal objects, canonically equal configurations, same behaviour
        st2, obj2 = construct('dict')
        caller_unchanged('construction (dictionary form)')
        if st2 != 'ret':
            witness('kwargs-dict-differ', 'keyword form succeeded but dictionary form raised %s' % type(obj2).__name__)
        elif not same(obj2, obj) or BH.canon(obj2.config) != BH.canon(obj.config):
            c1, c2 = obj.config, obj2.config
            if isinstance(c1, dict) and isinstance(c2, dict):
                diff = ['%s: keyword form %s / dictionary form %s' % (k, BH.canon(c1.get(k, '<absent>'))[:170], BH.canon(c2.get(k, '<absent>'))[:170])
                        for k in sorted(set(c1) | set(c2)) if BH.canon(c1.get(k, '<absent>')) != BH.canon(c2.get(k, '<absent>'))]
            else:
                diff = ['%s / %s' % (BH.canon(c1)[:170], BH.canon(c2)[:170])]
            witness('kwargs-dict-differ', 'keyword and dictionary forms give different configurations -- ' + '; '.join(diff[:2]))
        else:
            b1, b2 = BH.behaviour(obj, cfg), BH.behaviour(obj2, cfg)
            if res is not None:
                res.oracle_evals += len(b1)
            if b1 != b2:
                d = [(x[0], x[1][:120], y[1][:120]) for x, y in zip(b1, b2) if x != y]
                witness('kwargs-dict-behaviour-differ', 'objects built from the keyword and the dictionary form behave differently '
                        '(input, keyword form, dictionary form): %r' % (d[:2],))
    else:
        _, POS = tables()
        dom = POS[case[1]][1]
        want = dom.normal(pos)
        if not same(conf, want):
            witness('supplied-value', 'constructed from %r; configuration exposes %r, expected %r' % (pos, conf, want))
    return w


# ------------------------------------------------------------------------------------------------
# nested delimiters over the whole SingleListGrader family
# ------------------------------------------------------------------------------------------------
DELIMS = [',', ';', '|']
FRESH_DELIM = '/'


def single_list_family():
    import mitxgraders as M
    out, todo = [], [M.SingleListGrader]
    while todo:
        c = todo.pop(0)
        if c not in out:
            out.append(c)
            todo += sorted(c.__subclasses__(), key=lambda k: k.__name__)
    return out


def build_chain(chain, form='kw'):
    """chain = [(class, delimiter), ...] outermost first; the innermost level gets a plain item grader where the class
    needs one.  -> ('ret', object) | ('exc', e) | ('inner', e) when a level below the outermost cannot be built"""
    import mitxgraders as M
    obj = None
    for depth, (cls, d) in enumerate(reversed(chain)):
        kw = {'delimiter': d}
        if obj is not None:
            kw['subgrader'] = obj
        elif cls is M.SingleListGrader:
            kw['subgrader'] = M.StringGrader()
        outer = depth == len(chain) - 1
        st, new = core.guarded(lambda: cls(**kw)) if (form == 'kw' or not outer) else core.guarded(cls, dict(kw))
        if st != 'ret':
            return ('exc' if outer else 'inner'), new
        obj = new
    return 'ret', obj


def nested_delimiter_case(names, delims, res=None):
    """One chain of 2-3 nested graders of the SingleListGrader family (every subclass, every level).  Rule: the outermost
    grader is refused with a configuration error exactly when its delimiter equals the delimiter of a family member
    below it; otherwise it constructs -- in keyword and dictionary form, and is accepted as a ListGrader subgrader.
    Chains whose lower levels cannot be built, or that are refused even with a delimiter used nowhere else (the class
    does not admit that subgrader at all), are not cases of this rule."""
    import mitxgraders as M
    fam = {c.__name__: c for c in single_list_family()}
    chain = [(fam[n], d) for n, d in zip(names, delims)]
    wits = []
    ident = ['nested-delimiters', list(names), list(delims)]

    def witness(what):
        wits.append({'key': 'nested-delimiters:%r:%r' % (names, delims), 'kind': 'nested-delimiters', 'case': ident,
                     'class': names[0], 'options': ['delimiter', 'subgrader'], 'what': what})
    ref = build_chain([(chain[0][0], FRESH_DELIM)] + chain[1:])
    if ref[0] != 'ret':
        return None
    text = ' > '.join('%s(delimiter=%r)' % (n, d) for n, d in zip(names, delims))
    clash = delims[0] in delims[1:]
    for form in ('kw', 'dict'):
        st, obj = build_chain(chain, form)
        if res is not None:
            res.oracle_evals += 1
        if clash:
            if st == 'ret':
                witness('%s (%s form) was constructed although the outer delimiter is used again by a nested list grader' % (text, form))
            elif not is_config_or_validation_error(obj):
                witness('%s (%s form) raised %s, not a configuration or validation error' % (text, form, type(obj).__name__))
        else:
            if st != 'ret':
                witness('%s (%s form) has pairwise different delimiters but raised %s: %s' % (text, form, type(obj).__name__, str(obj)[:120]))
            elif form == 'kw':
                st2, lg = core.guarded(lambda: M.ListGrader(subgraders=obj))
                if st2 != 'ret':
                    witness('%s is refused as a ListGrader subgrader: %s' % (text, type(lg).__name__))
    return wits


def nested_delimiter_stream(res):
    import itertools
    names = [c.__name__ for c in single_list_family()]
    n = skipped = 0
    for depth in (2, 3):
        for ns in itertools.product(names, repeat=depth):
            for ds in itertools.product(DELIMS, repeat=depth):
                w = nested_delimiter_case(ns, ds, res)
                if w is None:
                    skipped += 1
                    continue
                n += 1
                res.witnesses += w
                res.nontrivial.add(('nested-delimiters', ns, ds))
    res.distribution['nested_delimiter_chains'] = n
    res.distribution['nested_delimiter_chains_not_applicable'] = skipped
    res.distribution['single_list_family'] = names


def registered_defaults_cases(res):
    """registered defaults behave as supplied options that an explicit option overrides (anchor: apply_registered_defaults)"""
    import mitxgraders as M
    from mitxgraders.baseclasses import AbstractGrader
    try:
        M.StringGrader.register_defaults({'case_sensitive': False, 'min_length': 2})
        AbstractGrader.register_defaults({'debug': True})
        for kw, want in (({}, {'case_sensitive': False, 'min_length': 2, 'debug': True, 'strip': True}),
                         ({'case_sensitive': True}, {'case_sensitive': True, 'min_length': 2, 'debug': True}),
                         ({'debug': False, 'min_length': 0}, {'case_sensitive': False, 'min_length': 0, 'debug': False})):
            st, g = core.guarded(lambda: M.StringGrader(**kw))
            st2, g2 = core.guarded(M.StringGrader, dict(kw))
            res.oracle_evals += 1
            bad = None
            if st != 'ret' or st2 != 'ret':
                bad = 'construction with registered defaults raised %r / %r' % (g, g2)
            elif any(g.config.get(k) != v for k, v in want.items()):
                bad = 'config %r does not carry registered defaults / explicit options %r' % (g.config, want)
            elif g != g2:
                bad = 'keyword and dictionary forms differ under registered defaults'
            if bad:
                res.witnesses.append({'key': 'registered:%r' % (kw,), 'kind': 'registered-defaults', 'case': ['registered', repr(kw)],
                                      'what': bad})
        st, fg = core.guarded(M.FormulaGrader)
        if st == 'ret' and (fg.config['debug'] is not True or 'case_sensitive' in fg.config):
            res.witnesses.append({'key': 'registered:inherit', 'kind': 'registered-defaults', 'case': ['registered', 'inherit'],
                                  'what': 'defaults registered on AbstractGrader/StringGrader leak wrongly: %r' % (fg.config,)})
    finally:
        M.StringGrader.clear_registered_defaults()
        AbstractGrader.clear_registered_defaults()


# ------------------------------------------------------------------------------------------------
def run(ctx):
    res = core.Result()
    rng = random.Random(1000003 * ctx['seed'] + 20)
    res.rule = ('one case per (class, set of supplied options with pool index) -- exhaustive single-option deviations from the '
                'default configuration over the documented in/out pools of 31 classes, random 2..5-option combinations, the '
                'explicit cross-rule corpus, positional forms, registered-defaults histories (one dictionary object on several '
                'classes, later registrations, edits by the caller, clears) checked after every step; non-trivial = distinct case identities; correspondence cases are '
                'distinct (class, input) pairs of recorded validate_config / rule calls')
    w = world()
    cases, n_single = gen_cases(ctx, rng)
    fresh = start_fresh_probe()
    rec = V.FullRecorder(w)
    outcomes = {'accepted': 0, 'refused': 0}
    with rec.recording():
        for case in cases:
            before = len(res.witnesses)
            try:
                check_case(case, res, res.witnesses)
            except Exception as e:       # noqa - a harness bug must not pass silently
                res.witnesses.append({'key': repr(case) + ':harness', 'kind': 'harness-error', 'case': list(case),
                                      'what': 'oracle raised %s: %s' % (type(e).__name__, e)})
            res.nontrivial.add(case)
            if len(res.witnesses) == before:
                pass
        registered_defaults_cases(res)
        RG.run_all(ctx, res)
        BH.reuse_histories(ctx, tables()[0], res)
        nested_delimiter_stream(res)
    compare_with_fresh_probe(fresh, res)
    for wit in res.witnesses:
        outcomes[wit['kind']] = outcomes.get(wit['kind'], 0) + 1
    recs = rec.take_all()
    res.distribution.update({'cases': len(cases), 'single_option_deviations': n_single,
                             'multi_option_random': sum(1 for c in cases if c[0] == 'kw' and len(c[2]) > 1),
                             'cross_rule_corpus': sum(1 for c in cases if c[0] == 'cross'),
                             'default_name_override_cases': sum(1 for c in cases if c[0] == 'override'),
                             'special_float_cases': sum(1 for c in cases if c[0] in ('special', 'special-grade')),
                             'classes': len(tables()[0]) + 2})
    res.exhaustive = True
    run_correspondence(ctx, res, recs, w)
    res.samples.append({'case': list(cases[n_single // 2]), 'resolved': repr(resolve(cases[n_single // 2])[1:4])[:300]})
    return res


def start_fresh_probe():
    """fingerprints of the fixed probe set computed in a NEW interpreter (nothing has run there before)"""
    import os
    import subprocess
    import sys
    env = dict(os.environ, PYTHONPATH='%s:%s' % (core.REPO, core.VERIF), PYTHONHASHSEED='0', PYTHONDONTWRITEBYTECODE='1')
    return subprocess.Popen(['timeout', '300', sys.executable, '-B', '-m', 'harness.props.c20_behaviour'], cwd=core.VERIF, env=env,
                            stdout=subprocess.PIPE, stderr=subprocess.PIPE, text=True)


def compare_with_fresh_probe(proc, res):
    """perturb-then-probe: after the whole sweep (the perturbers) every probe must construct and behave exactly as in a
    fresh interpreter; a difference is a history-dependence witness"""
    import json
    out, err = proc.communicate()
    try:
        fresh = json.loads(out)
    except ValueError:
        res.witnesses.append({'key': 'fresh-probe', 'kind': 'harness-error', 'case': ['fresh-probe'],
                              'what': 'fresh-interpreter probe did not run: %s' % err[-300:]})
        return
    here = json.loads(json.dumps(BH.fingerprints()))
    res.oracle_evals += len(here)
    res.distribution['fresh_interpreter_probes'] = len(here)
    for key in sorted(fresh):
        if here.get(key) != fresh[key]:
            a, b = fresh[key], here.get(key) or {}
            what = ('construction: fresh %s / after the sweep %s' % (a['construct'][:160], str(b.get('construct'))[:160])
                    if a['construct'] != b.get('construct') else
                    'behaviour: fresh %r / after the sweep %r' % ([x for x in a.get('behaviour', []) if x not in b.get('behaviour', [])][:2],
                                                                 [x for x in b.get('behaviour', []) if x not in a.get('behaviour', [])][:2]))
            res.witnesses.append({'key': 'history:' + key, 'kind': 'history-dependence', 'case': ['history', key],
                                  'what': 'probe %s differs from the same probe in a fresh interpreter -- %s' % (key, what)})


def dedup(items, key):
    seen, out = set(), []
    for x in items:
        k = key(x)
        if k in seen:
            continue
        seen.add(k)
        out.append(x)
    return out


def balanced_files(tag, header, agree_fn, case_type, terms, nshards):
    """case files with the terms spread by size (longest first onto the lightest shard); returns
    [(name, text, [global indices])]"""
    nshards = max(1, min(nshards, len(terms)))
    order = sorted(range(len(terms)), key=lambda i: -len(terms[i]))
    bins = [[0, []] for _ in range(nshards)]
    for i in order:
        b = min(bins, key=lambda x: x[0])
        b[0] += len(terms[i]) + 200
        b[1].append(i)
    files = []
    for k, (_, idx) in enumerate(bins):
        if not idx:
            continue
        text = (header + '\nRequire Import List. Import ListNotations.\n'
                'Definition verif_cases : list (%s) :=\n  [ %s ].\n' % (case_type, '\n  ; '.join(terms[i] for i in idx)) +
                'Fixpoint verif_failing {A} (f : A -> bool) (l : list A) (i : nat) : list nat :=\n'
                '  match l with nil => nil | x :: r => if f x then verif_failing f r (S i) '
                'else i :: verif_failing f r (S i) end.\n'
                'Eval vm_compute in (verif_failing (%s) verif_cases 0).\n' % agree_fn)
        files.append(('%s_%04d' % (tag, k), text, idx))
    return files


def run_correspondence(ctx, res, recs, w):
    quick = ctx['tier'] == 'quick'
    cap = (1700 if not ctx['escalate'] else 3200) if quick else 20000
    l1 = [r for r in recs['l1'] if r['cls'] in tr.PUBLIC and 'out' in r]
    res.distribution['validate_config_calls_recorded'] = len(recs['l1'])
    res.distribution['validate_config_calls_untranslated_class'] = len(recs['l1']) - len(l1)
    l1 = dedup(l1, lambda r: (r['cls'], r['in'], r['dc'], r['out']))
    res.distribution['validate_config_distinct'] = len(l1)
    # keep every refused / escaping case; thin the accepted bulk deterministically if above the cap
    if len(l1) > cap:
        keep = [r for r in l1 if r['out'].startswith('(OExc')]
        rest = [r for r in l1 if not r['out'].startswith('(OExc')]
        step = max(1, -(-len(rest) // max(1, cap - len(keep))))
        l1 = keep + rest[::step]
    res.distribution['validate_config_evaluated_in_coq'] = len(l1)
    kinds = {}
    for r in l1:
        k = 'accepted' if r['out'].startswith('(ORet') else r['out'][6:-1]
        kinds[k] = kinds.get(k, 0) + 1
    res.distribution['validate_config_outcomes'] = kinds
    per_class = {}
    for r in l1:
        per_class[r['cls']] = per_class.get(r['cls'], 0) + 1
    res.distribution['validate_config_per_class'] = per_class
    hdr1 = V.L1_HEADER + V.L1_DEFS
    hdr2 = V.L2_HEADER + V.L1_DEFS + V.L2_DEFS
    l0 = dedup(recs['l0'], lambda r: (r['chain'], r['config'], r['kwargs'], r['use']))
    plain = [r for r in l0 if r['chain'] == '[]']
    l0 = [r for r in l0 if r['chain'] != '[]'] + plain[::max(1, len(plain) // max(1, cap // 5))]
    m = dedup(recs['math'], lambda r: (r['in'], r['dfuncs'], r['dvars'], r['out']))[:cap]
    # the default function / variable name lists are long and few: name them once in the header
    names = {}
    for r in m:
        for k in ('dfuncs', 'dvars'):
            names.setdefault(r[k], 'names_%d' % len(names))
    hdr_math = ''.join('Definition %s : list pyval := %s.\n' % (n, t) for t, n in names.items())
    lg = dedup(recs['list'], lambda r: (r['in'], r['norm'], r['out']))[:cap]
    sl = dedup(recs['slist'], lambda r: (r['in'], r['out']))[:cap]
    batches = [
        ('validate_config', 'c20_l1', hdr1, 'l1_case', '(pyval -> schema) * pyval * list (pyval * outcome pyval) * pyval * obs',
         [V.l1_term(r) for r in l1], l1, 9 if quick else 32),
        ('use_config', 'c20_l0', hdr2, 'l0_case', 'list (list (pyval * pyval)) * option pyval * list (pyval * pyval) * pyval',
         ['(%s, %s, %s, %s)' % (r['chain'], r['config'], r['kwargs'], r['use']) for r in l0], l0, 1 if quick else 4),
        ('validate_math_config', 'c20_math', hdr2 + hdr_math, 'math_case', 'list pyval * list pyval * pyval * obs',
         ['(%s, %s, %s, %s)' % (names[r['dfuncs']], names[r['dvars']], r['in'], r['out']) for r in m[:(450 if quick and not ctx['escalate'] else len(m))]], m, 3 if quick else 12),
        ('ListGrader.__init__', 'c20_list', hdr2, 'list_case', 'Z * pyval * outcome pyval * obs',
         ['(%d, %s, %s, %s)' % (w.class_ids['ListGrader'], r['in'], r['norm'], r['out']) for r in lg], lg, 2 if quick else 6),
        ('SingleListGrader.__init__', 'c20_slist', hdr2, 'slist_case', 'Z * pyval * obs',
         ['(%d, %s, %s)' % (w.class_ids['SingleListGrader'], r['in'], r['out']) for r in sl], sl, 1 if quick else 4),
    ]
    files, owner = [], {}
    for level, tag, hdr, fn, ty, terms, rows, nsh in batches:
        for name, text, idx in balanced_files(tag, hdr, fn, ty, terms, nsh):
            files.append((name, text))
            owner[name] = (level, rows, idx)
        res.programs += len(terms)
    results = core.run_case_files(files)
    # a case file that did not evaluate is retried once (another build may have replaced a .vo under our feet)
    retry = [(n, t) for (n, t) in files if any(r[0] == n and (r[1] != 0 or core.failing_indices(r[2]) is None) for r in results)]
    if retry:
        redo = {r[0]: r for r in core.run_case_files(retry)}
        results = [redo.get(r[0], r) for r in results]
    for name, rc, out in results:
        level, rows, idx = owner[name]
        failing = core.failing_indices(out) if rc == 0 else None
        if failing is None:
            res.corr_errors.append((name, out[-2000:]))
            continue
        for j in failing:
            r = rows[idx[j]]
            res.disagreements.append({'level': level, 'class': r.get('cls'), 'input': (r.get('in') or r.get('config'))[:700],
                                      'implementation': (r.get('out') or r.get('use'))[:500]})
    if l1:
        r = l1[len(l1) // 3]
        res.samples.append({'validate_config_case': {'class': r['cls'], 'input': r['in'][:400], 'implementation': r['out'][:400]}})
    res.distribution.update({'use_config_cases': len(l0), 'math_rule_cases': len(m), 'list_rule_cases': len(lg),
                             'nested_delimiter_cases': len(sl)})


# ------------------------------------------------------------------------------------------------
def check_many_then_probe():
    """replay of a history-dependence witness: the quick sweep again, then the probes against a fresh interpreter"""
    ctx = {'tier': 'quick', 'seed': 0, 'escalate': False}
    res = core.Result()
    fresh = start_fresh_probe()
    cases, _ = gen_cases(ctx, random.Random(20))
    scratch = []
    for c in cases:
        check_case(c, None, scratch)
    compare_with_fresh_probe(fresh, res)
    return res.witnesses


def _tuplify(x):
    return tuple(_tuplify(y) for y in x) if isinstance(x, (list, tuple)) else x


def replay(w):
    case = _tuplify(w['case'])
    if case and case[0] == 'nested-delimiters':
        found = nested_delimiter_case(tuple(case[1]), tuple(case[2])) or []
        return bool(found), (found[0]['what'] if found else 'chain %r / %r obeys the nested-delimiter rule' % (case[1], case[2]))
    if case and case[0] == 'reuse':
        found = BH.run_reuse_history(int(case[1]), int(case[2]), tables()[0])
        return bool(found), 'reuse history %r: %s' % (case[1:], found[0]['what'] if found else "the caller's containers are left alone")
    if case and case[0] == 'history':
        res = core.Result()
        res.witnesses += check_many_then_probe()
        hit = [x for x in res.witnesses if x['case'] == list(case)] or res.witnesses
        return bool(hit), (hit[0]['what'] if hit else 'every probe agrees with the fresh interpreter after the sweep')
    if case and case[0] == 'registered-history':
        found = RG.replay_case(list(case))
        return bool(found), ('history %r: ' % (case[1:],)) + (found[0]['what'] if found else
                                                               'every class constructs as with its own registrations only')
    if case and case[0] == 'registered':
        res = core.Result()
        registered_defaults_cases(res)
        return bool(res.witnesses), 'registered-defaults witnesses on the current tree: %r' % (res.witnesses[:1],)
    found = check_case(case)
    same_kind = [x for x in found if x['kind'] == w.get('kind')]
    cls, pos, cfg, expect, _ = resolve(case)
    text = '%s(%s): expected %s by the documented domains; %s' % (
        cls.__name__, repr(pos)[:200] if case[0] == 'pos' else ', '.join('%s=%s' % (k, repr(v)[:120]) for k, v in cfg.items()),
        'acceptance' if expect else 'a configuration/validation error',
        same_kind[0]['what'] if same_kind else 'no violation of kind %s on the current tree' % w.get('kind'))
    return bool(same_kind), text


def classify_known(w, known):
    """The one finding that remains known is characterised by call site and triggering condition: rebuilding a grader
    from its own configuration is refused (kind rebuild-refused) BECAUSE a default constant removed with None is also
    declared as a variable / numbered variable (condition deleted-default-constant-reused, computed from the case).
    Everything else -- in particular a refusal with a non-validation error class, the repaired defects 9e7ee91 and
    49c25d3 -- is never classified."""
    if w.get('kind') != 'rebuild-refused' or w.get('condition') != 'deleted-default-constant-reused':
        return None
    for e in known:
        kw = e.get('witness', {})
        if kw.get('kind') == 'rebuild-refused' and kw.get('condition') == 'deleted-default-constant-reused':
            return e['id']
    return None
