"""C16 -- built-in comparers (mitxgraders/comparers/*.py), tolerance helpers and MatrixGrader's mismatch policy.

Tie B: every case runs a real Formula/Numerical/MatrixGrader; the comparer call (evaluated comparer_params,
evaluated student input, raw return value) and every numpy.linalg.lstsq call made underneath are recorded by
wrapping at run time; the Coq model (coq/Model/Comparers.v) is evaluated by vm_compute on exactly those
values (floats as exact dyadic rationals) and must reproduce the grader's final verdict / grade / message
kind / exception; the recorded lstsq residuals are checked against the Gram-Schmidt specification.
Tie A: LinearComparer's mode tables, defaults and the two decision skeletons are regenerated (translate/comparers.py).

Property oracle: membership of the student input in the documented class is known from the generating
transformation (t + k*m, c*v, sum c_i w_i, e^{i phi} t, a*x + b, entry subsets) or from an independent
Fraction / closed-form computation on the recorded values; non-members sit at >= 10^3 x tolerance.
"""
import cmath
import json
import math
import random
import re
from fractions import Fraction

from harness import core
from harness.core import qlit, zlit, listlit, boollit, optlit, natlit

try:
    from translate import comparers as tr_comparers
except Exception:                                         # pragma: no cover
    tr_comparers = None

ID = 'C16'
PROPS = 'Props/C16.v'
TRANSLATORS = [('Gen/Comparers.v', tr_comparers.generate)] if tr_comparers else []
MIRRORED = [
    ('mitxgraders/comparers/comparers.py', 'EqualityComparer'),
    ('mitxgraders/comparers/comparers.py', 'MatrixEntryComparer'),
    ('mitxgraders/comparers/comparers.py', 'between_comparer'),
    ('mitxgraders/comparers/comparers.py', 'congruence_comparer'),
    ('mitxgraders/comparers/comparers.py', 'eigenvector_comparer'),
    ('mitxgraders/comparers/comparers.py', 'vector_span_comparer'),
    ('mitxgraders/comparers/comparers.py', 'vector_phase_comparer'),
    ('mitxgraders/comparers/linear_comparer.py', '*'),
    ('mitxgraders/formulagrader/matrixgrader.py', 'MatrixGrader.check_response'),
    ('mitxgraders/formulagrader/matrixgrader.py', 'MatrixGrader.validate_student_input_shape'),
    ('mitxgraders/formulagrader/matrixgrader.py', 'MatrixGrader.get_comparer_utils'),
    ('mitxgraders/helpers/calc/mathfuncs.py', 'within_tolerance'),
    ('mitxgraders/helpers/calc/mathfuncs.py', 'is_nearly_zero'),
    ('mitxgraders/helpers/math_helpers.py', 'MathMixin.compare_evaluations'),
    ('mitxgraders/helpers/math_helpers.py', 'MathMixin.consolidate_results'),
]
REFUTED = ['C16_between_iff_refuted', 'C16_congruence_iff_refuted', 'C16_span_iff_refuted',
           'C16_linear_zero_rule_refuted', 'C16_linear_equals_complex_refuted']
TRUSTED = [
    'hand-written model coq/Model/Comparers.v tied to the source by differential correspondence: harness/props/c16.py wraps the '
    'comparer (function wrapper / subclass __call__) and numpy.linalg.lstsq at run time; verdict, grade, message kind '
    '(shape description, entry diagram) and exception class are compared inside Coq by vm_compute',
    'floats enter Coq as exact dyadic rationals; norm comparisons are modelled on squares (no square roots); cases whose verdict '
    'changes when the tolerance is scaled by 1 +- 1e-5 are counted as boundary and excluded (exact-stream cases are compared as is)',
    'modelled, not verified: numpy elementwise arithmetic, np.linalg.norm, np.linalg.lstsq (oracle; its residual field is recorded and '
    'checked against the exact Gram-Schmidt residual; its rank decision on exactly dependent columns is taken as observed), '
    'IEEE rounding, the expression evaluator that turns the input strings into numbers (C03), Python float % (exact fmod + one rounding)',
    'translator translate/comparers.py (fail-closed ast matcher) for LinearComparer mode tables/defaults, MatrixEntryComparer credit '
    'branches and the MatrixGrader.check_response policy',
]
ASSUMPTIONS = [
    'tolerance is a non-negative number or percentage (schema), values are finite, comparer transform is the identity',
    'lstsq returns the documented residual field (theorems about span/phase/proportional/linear use lstsq_spec)',
    'between/congruence parameters are real numbers; modulus nonzero',
]

HEADER = ('From Coq Require Import ZArith QArith Qabs List Bool.\n'
          'From Verif.Lib Require Import QRound.\n'
          'From Verif.Model Require Import Result Comparers.\n'
          'Import ListNotations.\nOpen Scope Q_scope.\n')

AGREE_DEFS = r'''
Definition eps : Q := 1 # 1000000000000.
Definition qclose (a b : Q) : bool := Qle_bool (Qabs (a - b)) eps.
Fixpoint zl_eqb (a b : list Z) : bool :=
  match a, b with [], [] => true | x :: a', y :: b' => Z.eqb x y && zl_eqb a' b' | _, _ => false end.
Fixpoint bl_eqb (a b : list bool) : bool :=
  match a, b with [], [] => true | x :: a', y :: b' => Bool.eqb x y && bl_eqb a' b' | _, _ => false end.
Definition shmsg_eqb (a b : shmsg) : bool :=
  match a, b with
  | SMEmpty, SMEmpty => true
  | SMExpected e ed r rd s, SMExpected e' ed' r' rd' s' =>
      Z.eqb e e' && zl_eqb ed ed' && Z.eqb r r' && zl_eqb rd rd' && Bool.eqb s s'
  | _, _ => false
  end.
Definition msgk_eqb (a b : msgk) : bool :=
  match a, b with
  | MsgOther, _ | _, MsgOther => true
  | MsgNone, MsgNone | MsgMustBeReal, MsgMustBeReal | MsgEigenNonzero, MsgEigenNonzero
  | MsgSpanNonzero, MsgSpanNonzero => true
  | MsgShape x, MsgShape y => shmsg_eqb x y
  | MsgEntries x, MsgEntries y => bl_eqb x y
  | _, _ => false
  end.
Definition exn_eqb (a b : exn) : bool :=
  match a, b with
  | XInputType x, XInputType y => msgk_eqb x y
  | XConfig, XConfig | XParams, XParams | XGeneric, XGeneric => true
  | _, _ => false
  end.
Definition outcome_eqb (a b : outcome) : bool :=
  match a, b with
  | ORes o g m, ORes o' g' m' => okv_eqb o o' && qclose g g' && msgk_eqb m m'
  | ORaise e, ORaise e' => exn_eqb e e'
  | _, _ => false
  end.
Definition tol_scale (f : Q) (tl : tol) : tol :=
  match tl with TAbs t => TAbs (t * f) | TPct p => TPct (p * f) end.

(* recorded numpy.linalg.lstsq call: columns, right-hand side, residual field (None = empty) *)
Definition lstsq_obs_ok (r : list cvec * cvec * option Q) : bool :=
  match r with
  | (ws, v, Some o) => Qle_bool (Qabs (o - cres2 ws v)) ((1 # 1000000000) * norm2 v + (1 # 10) ^ 200)
  | (ws, v, None) => (crank ws <? length ws)%nat || (length v <=? length ws)%nat
  end.

Record gcase := mkCase {
  k_g : gkind; k_tol : tol; k_cmp : comparer; k_ag : Q; k_failable : nat;
  k_samples : list csample; k_exact : bool; k_lstsq : list (list cvec * cvec * option Q); k_obs : outcome }.

Definition run_case (k : gcase) (tl : tol) : outcome :=
  grade (k_g k) tl (k_cmp k) (k_ag k) (k_failable k) (k_samples k).
Definition delta : Q := 1 # 100000.
Definition robust (k : gcase) : bool :=
  k_exact k || (outcome_eqb (run_case k (tol_scale (1 - delta) (k_tol k))) (run_case k (tol_scale (1 + delta) (k_tol k)))
                && outcome_eqb (run_case k (tol_scale (1 - delta) (k_tol k))) (run_case k (k_tol k))).
Definition case_ok (k : gcase) : bool :=
  forallb lstsq_obs_ok (k_lstsq k) && (negb (robust k) || outcome_eqb (run_case k (k_tol k)) (k_obs k)).
Definition case_boundary (k : gcase) : bool := negb (robust k).
Fixpoint c16_idx {A} (f : A -> bool) (l : list A) (i : nat) : list nat :=
  match l with nil => nil | x :: r => if f x then c16_idx f r (S i) else i :: c16_idx f r (S i) end.
'''

EDX_GOOD = '<span style="color:#008100">✓</span>'
EDX_BAD = '<span style="color:#b20610">✗</span>'
SHAPE_NAMES = {'scalar': 0, 'vector': 1, 'matrix': 2, 'tensor': 3}


# ------------------------------------------------------------------------------------------------
# number / value formatting
# ------------------------------------------------------------------------------------------------
def fnum(x):
    s = repr(float(x))
    return '(%s)' % s if s.startswith('-') else s


def cnum(z, force_complex=False):
    z = complex(z)
    if z.imag == 0 and not force_complex:
        return fnum(z.real)
    return '(%s+%s*i)' % (fnum(z.real), fnum(z.imag))


def vec_str(v):
    return '[' + ', '.join(cnum(z) for z in v) + ']'


def mat_str(m):
    return '[' + ', '.join(vec_str(r) for r in m) + ']'


def is_finite_c(z):
    z = complex(z)
    return math.isfinite(z.real) and math.isfinite(z.imag)


class Unrepresentable(Exception):
    pass


def c_term(z):
    z = complex(z)
    if not is_finite_c(z):
        raise Unrepresentable('non-finite value')
    return '(%s, %s)' % (qlit(z.real), qlit(z.imag))


def value_term(v):
    import numpy as np
    if isinstance(v, np.ndarray):
        if v.ndim == 1:
            return '(VVec %s)' % listlit([c_term(z) for z in v.tolist()])
        if v.ndim == 2:
            return '(VMat %s)' % listlit([listlit([c_term(z) for z in row]) for row in v.tolist()])
        raise Unrepresentable('array of ndim %d' % v.ndim)
    if isinstance(v, bool):
        raise Unrepresentable('bool')
    if isinstance(v, complex) and not isinstance(v, np.complexfloating):
        if not is_finite_c(v):
            raise Unrepresentable('non-finite')
        return '(VNum (NCplx %s %s))' % (qlit(v.real), qlit(v.imag))
    if isinstance(v, np.complexfloating):
        raise Unrepresentable('numpy complex scalar (ordering semantics differ from Python complex)')
    if isinstance(v, (int, float, np.floating, np.integer)):
        if not math.isfinite(float(v)):
            raise Unrepresentable('non-finite')
        return '(VNum (NReal %s))' % qlit(float(v) if not isinstance(v, int) else v)
    raise Unrepresentable('value of type %s' % type(v).__name__)


def tol_term(tolerance):
    if isinstance(tolerance, str):
        p = float(tolerance.strip()[:-1]) * 0.01            # mathfuncs.percentage_as_number
        return '(TPct %s)' % qlit(p)
    return '(TAbs %s)' % qlit(tolerance)


def tol_value(tolerance, ref):
    """effective tolerance as a float: number, or percentage of ref"""
    if isinstance(tolerance, str):
        return float(tolerance.strip()[:-1]) * 0.01 * ref
    return float(tolerance)


# ------------------------------------------------------------------------------------------------
# building and running one grader case (spec -> recorded run)
# ------------------------------------------------------------------------------------------------
class Run(object):
    def __init__(self):
        self.calls = []          # comparer calls: dict(params, student, ret | exc)
        self.lstsq = []          # (a, b, residuals, rank)
        self.status = None       # 'ret' | 'exc' | 'timeout'
        self.out = None


def comparer_terms(cmp):
    name, cfg = cmp['name'], cmp.get('cfg', {})
    if name == 'equality':
        return 'CmpEquality'
    if name == 'entry':
        pc = cfg.get('entry_partial_credit', 0)
        return '(CmpEntry %s)' % ('PCProp' if pc == 'proportional' else '(PCFlat %s)' % qlit(pc))
    if name == 'linear':
        full = {'equals': 1.0, 'proportional': 0.5, 'offset': None, 'linear': None}
        full.update(cfg)
        return '(CmpLinear (mkL %s %s %s %s))' % tuple(optlit(full[k], qlit) for k in ('equals', 'proportional', 'offset', 'linear'))
    return {'between': 'CmpBetween', 'congruence': 'CmpCongruence', 'eigen': 'CmpEigen',
            'span': 'CmpSpan', 'phase': 'CmpPhase'}[name]


def build_grader(spec, run):
    """returns the grader; recording wrappers are installed in `run`"""
    import numpy as np
    import mitxgraders
    from mitxgraders import FormulaGrader, NumericalGrader, MatrixGrader
    from mitxgraders.comparers import comparers as cmod
    from mitxgraders.comparers import linear_comparer as lmod
    from mitxgraders.sampling import IntegerRange, RealInterval, ComplexRectangle
    name, cfg = spec['cmp']['name'], dict(spec['cmp'].get('cfg', {}))

    def record(fn):
        def wrapped(params, student, utils):
            entry = {'params': params, 'student': student}
            run.calls.append(entry)
            try:
                entry['ret'] = fn(params, student, utils)
            except BaseException as e:          # noqa
                entry['exc'] = e
                raise
            return entry['ret']
        return wrapped

    if name in ('between', 'congruence', 'eigen', 'span', 'phase'):
        target = {'between': 'between_comparer', 'congruence': 'congruence_comparer', 'eigen': 'eigenvector_comparer',
                  'span': 'vector_span_comparer', 'phase': 'vector_phase_comparer'}[name]

        def simple(params, student, utils, target=target):
            return getattr(cmod, target)(params, student, utils)
        comparer = record(simple)
    else:
        base = {'equality': cmod.EqualityComparer, 'entry': cmod.MatrixEntryComparer, 'linear': lmod.LinearComparer}[name]

        class Recording(base):
            def __call__(self, params, student, utils):
                return record(lambda p, s, u: base.__call__(self, p, s, u))(params, student, utils)
        Recording.__name__ = base.__name__
        comparer = Recording(**cfg)

    config = {'answers': {'expect': {'comparer': comparer, 'comparer_params': list(spec['params'])},
                          'grade_decimal': spec.get('ag', 1)},
              'tolerance': spec['tolerance']}
    if spec.get('variables'):
        config['variables'] = list(spec['variables'])
        sf = {}
        for var, s in spec.get('sample_from', {}).items():
            if s[0] == 'int':
                sf[var] = IntegerRange([s[1], s[2]])
            elif s[0] == 'real':
                sf[var] = RealInterval([s[1], s[2]])
            elif s[0] == 'complex':
                sf[var] = ComplexRectangle(re=[s[1], s[2]], im=[s[1], s[2]])
        if sf:
            config['sample_from'] = sf
    kind = spec['grader']
    if kind != 'Numerical':
        config['samples'] = spec.get('samples', 2)
        config['failable_evals'] = spec.get('failable', 0)
    if kind == 'Matrix':
        pol = spec.get('policy') or {}
        config['max_array_dim'] = 2
        config['suppress_matrix_messages'] = bool(pol.get('suppress', False))
        config['answer_shape_mismatch'] = {'is_raised': bool(pol.get('is_raised', True)),
                                           'msg_detail': pol.get('msg_detail', 'type')}
        return MatrixGrader(**config)
    if kind == 'Numerical':
        return NumericalGrader(**config)
    return FormulaGrader(**config)


def execute(spec):
    """run the real grader on spec['student']; returns a Run"""
    import numpy as np
    run = Run()
    orig = np.linalg.lstsq

    def lstsq(a, b, rcond=None):
        res = orig(a, b, rcond=rcond)
        run.lstsq.append((np.array(a), np.array(b), np.array(res[1]), int(res[2])))
        return res

    def go():
        grader = build_grader(spec, run)
        random.seed(spec.get('seed', 0))
        np.random.seed(spec.get('seed', 0) % (2 ** 32))
        np.linalg.lstsq = lstsq
        try:
            return grader(None, spec['student'])
        finally:
            np.linalg.lstsq = orig
    run.status, run.out = core.guarded(go)
    np.linalg.lstsq = orig
    return run


# ------------------------------------------------------------------------------------------------
# canonical observed outcome -> Coq term
# ------------------------------------------------------------------------------------------------
DESC_RE = re.compile(r'^(scalar|vector|matrix|tensor)(?: of length (\d+)| of shape \(rows: (\d+), cols: (\d+)\))?$')
SHAPE_RE = re.compile(r'^Expected answer to be a (.+?), but input is a (.+?)( of incorrect shape)?$')


def shape_msg_term(msg):
    """'Expected answer to be a X, but input is a Y[ of incorrect shape]' -> shmsg term (None if not of that form)"""
    if msg == '':
        return 'SMEmpty'
    m = SHAPE_RE.match(msg)
    if not m:
        return None
    out = []
    for d in (m.group(1), m.group(2)):
        dm = DESC_RE.match(d)
        if not dm:
            return None
        dims = []
        if dm.group(2):
            dims = [int(dm.group(2))]
        elif dm.group(3):
            dims = [int(dm.group(3)), int(dm.group(4))]
        out.append((SHAPE_NAMES[dm.group(1)], dims))
    return '(SMExpected %s %s %s %s %s)' % (zlit(out[0][0]), listlit([zlit(x) for x in out[0][1]]),
                                           zlit(out[1][0]), listlit([zlit(x) for x in out[1][1]]),
                                           boollit(bool(m.group(3))))


def msg_term(msg, linear):
    if linear:
        return 'MsgOther'
    if msg == '':
        return 'MsgNone'
    if msg == 'Input must be real.':
        return 'MsgMustBeReal'
    if msg == 'Eigenvectors must be nonzero.':
        return 'MsgEigenNonzero'
    if msg == 'Input should be a nonzero vector.':
        return 'MsgSpanNonzero'
    if msg.startswith('Some array entries are incorrect'):
        locs = [tok == EDX_GOOD for tok in re.findall(re.escape(EDX_GOOD) + '|' + re.escape(EDX_BAD), msg)]
        return '(MsgEntries %s)' % listlit([boollit(b) for b in locs])
    sm = shape_msg_term(msg)
    if sm is not None:
        return '(MsgShape %s)' % sm
    return None


def observed_term(spec, run):
    """Coq `outcome` term for what the grader did; None if it cannot be expressed (case skipped, counted)"""
    from mitxgraders.exceptions import InputTypeError, ConfigError, StudentFacingError, MITxError
    linear = spec['cmp']['name'] == 'linear'
    if run.status == 'ret':
        r = run.out
        ok = {True: 'OkTrue', False: 'OkFalse', 'partial': 'OkPartial'}.get(r.get('ok'))
        mt = msg_term(r.get('msg', ''), linear)
        if ok is None or mt is None:
            return None
        return '(ORes %s %s %s)' % (ok, qlit(r['grade_decimal']), mt)
    if run.status != 'exc':
        return None
    e = run.out
    text = str(e)
    if isinstance(e, InputTypeError):
        mt = msg_term(text, False)
        if mt is None:
            return None
        if mt == 'MsgNone':
            mt = '(MsgShape SMEmpty)'
        return '(ORaise (XInputType %s))' % mt
    if isinstance(e, ConfigError):
        return '(ORaise XConfig)'
    if isinstance(e, StudentFacingError) and type(e) is StudentFacingError:
        if text.startswith('Invalid Input: Could not check input'):
            return '(ORaise XGeneric)'
        if text.startswith('Problem Configuration Error'):
            return '(ORaise XParams)'
    return None


def case_term(spec, run):
    """the Coq gcase term, or raises Unrepresentable"""
    import numpy as np
    obs = observed_term(spec, run)
    if obs is None:
        raise Unrepresentable('outcome %r %r' % (run.status, run.out))
    if not run.calls:
        raise Unrepresentable('comparer never called')
    name = spec['cmp']['name']
    samples = []
    if name in ('entry', 'linear'):
        call = run.calls[-1]
        if len(run.calls) != 1:
            raise Unrepresentable('correlated comparer called %d times' % len(run.calls))
        for params, student in zip(call['params'], call['student']):
            samples.append('(mkS %s %s None)' % (listlit([value_term(p) for p in params]), value_term(student)))
        lst = list(run.lstsq)
    else:
        li = 0
        lst = []
        for call in run.calls:
            params = call['params'] if isinstance(call['params'], list) else [call['params']]
            ols = None
            if name in ('span', 'phase') and li < len(run.lstsq) and call.get('lstsq_index') is not None:
                pass
            samples.append((params, call['student']))
        # lstsq calls happen at most once per simple comparer call, in order; pair them up by matching b
        pending = list(run.lstsq)
        out = []
        for params, student in samples:
            ols_t = 'None'
            if name in ('span', 'phase') and pending and isinstance(student, np.ndarray) \
                    and pending[0][1].shape == np.array(student).shape and np.array_equal(pending[0][1], np.array(student)):
                a, b, resid, rank = pending.pop(0)
                lst.append((a, b, resid, rank))
                ols_t = 'None' if resid.size == 0 else '(Some %s)' % qlit(float(resid.reshape(-1)[0]))
            out.append('(mkS %s %s %s)' % (listlit([value_term(p) for p in params]), value_term(student), ols_t))
        if pending:
            raise Unrepresentable('unmatched lstsq calls')
        samples = out
    lterms = []
    for a, b, resid, rank in lst:
        a = np.array(a)
        cols = [a[:, j] for j in range(a.shape[1])]
        r_t = 'None' if resid.size == 0 else '(Some %s)' % qlit(float(np.real(resid.reshape(-1)[0])))
        lterms.append('(%s, %s, %s)' % (listlit([listlit([c_term(z) for z in col.tolist()]) for col in cols]),
                                       listlit([c_term(z) for z in np.array(b).reshape(-1).tolist()]), r_t))
    kind = spec['grader']
    if kind == 'Matrix':
        pol = spec.get('policy') or {}
        det = {None: 'DNone', 'type': 'DType', 'shape': 'DShape'}[pol.get('msg_detail', 'type')]
        g = '(GMatrix (mkPolicy %s %s %s))' % (boollit(pol.get('suppress', False)), boollit(pol.get('is_raised', True)), det)
    else:
        g = 'GFormula'
    failable = spec.get('failable', 0) if kind != 'Numerical' else 0
    return '(mkCase %s %s %s %s %s %s %s %s %s)' % (
        g, tol_term(spec['tolerance']), comparer_terms(spec['cmp']), qlit(spec.get('ag', 1)), natlit(failable),
        listlit(samples), boollit(spec.get('exact', False)), listlit(lterms), obs)


def eval_cases(tag, terms, shard):
    """returns (n, failing indices, boundary indices, errors)"""
    files = []
    for k in range(0, len(terms), shard):
        chunk = terms[k:k + shard]
        text = (HEADER + AGREE_DEFS + '\nDefinition c16_cases : list gcase :=\n  [ %s ].\n' % '\n  ; '.join(chunk) +
                'Eval vm_compute in (c16_idx case_ok c16_cases 0, c16_idx (fun k => negb (case_boundary k)) c16_cases 0).\n')
        files.append(('%s_%04d' % (tag, k // shard), text))
    res = core.run_case_files(files)
    failing, boundary, errors = [], [], []
    for (name, rc, out), k in zip(res, range(0, len(terms), shard)):
        m = re.search(r'=\s*\(\s*(\[.*?\]|nil)\s*,\s*(\[.*?\]|nil)\s*\)\s*:\s*list nat \* list nat', out, re.S) if rc == 0 else None
        if not m:
            errors.append((name, out[-2000:]))
            continue
        failing += [k + int(x) for x in re.findall(r'\d+', m.group(1).replace('%nat', ''))]
        boundary += [k + int(x) for x in re.findall(r'\d+', m.group(2).replace('%nat', ''))]
    return len(terms), failing, boundary, errors
