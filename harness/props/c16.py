"""C16 -- built-in comparers (mitxgraders/comparers/*.py), tolerance helpers and MatrixGrader's mismatch policy.

Tie B: every case runs a real Formula/Numerical/MatrixGrader; the comparer call (evaluated comparer_params,
evaluated student input, raw return value) and every numpy.linalg.lstsq call made underneath are recorded by
wrapping at run time; the Coq model (coq/Model/Comparers.v) is evaluated by vm_compute on exactly those
values (floats as exact dyadic rationals) and must reproduce the grader's final verdict / grade / message
kind / exception; the recorded lstsq residuals are checked against the Gram-Schmidt specification.
Tie A: LinearComparer's mode tables, defaults and the two decision skeletons are regenerated (translate/comparers.py).

Property oracle: membership of the student input in the documented class is known from the generating
transformation (t + k*m, c*v, sum c_i w_i, e^{i phi} t, a*x + b, entry subsets) or from an independent
Fraction / closed-form computation on the recorded values; non-members sit at >= 10^3 x tolerance.
"""
import cmath
import json
import math
import random
import re
from fractions import Fraction

from harness import core
from harness.core import qlit, zlit, listlit, boollit, optlit, natlit

from translate import comparers as tr_comparers

ID = 'C16'
PROPS = 'Props/C16.v'
TRANSLATORS = [('Gen/Comparers.v', tr_comparers.generate)]
MIRRORED = [
    ('mitxgraders/comparers/comparers.py', 'EqualityComparer'),
    ('mitxgraders/comparers/comparers.py', 'MatrixEntryComparer'),
    ('mitxgraders/comparers/comparers.py', 'between_comparer'),
    ('mitxgraders/comparers/comparers.py', 'congruence_comparer'),
    ('mitxgraders/comparers/comparers.py', 'eigenvector_comparer'),
    ('mitxgraders/comparers/comparers.py', 'vector_span_comparer'),
    ('mitxgraders/comparers/comparers.py', 'vector_phase_comparer'),
    ('mitxgraders/comparers/linear_comparer.py', '*'),
    ('mitxgraders/formulagrader/matrixgrader.py', 'MatrixGrader.check_response'),
    ('mitxgraders/formulagrader/matrixgrader.py', 'MatrixGrader.validate_student_input_shape'),
    ('mitxgraders/formulagrader/matrixgrader.py', 'MatrixGrader.get_comparer_utils'),
    ('mitxgraders/helpers/calc/mathfuncs.py', 'within_tolerance'),
    ('mitxgraders/helpers/calc/mathfuncs.py', 'is_nearly_zero'),
    ('mitxgraders/helpers/math_helpers.py', 'MathMixin.compare_evaluations'),
    ('mitxgraders/helpers/math_helpers.py', 'MathMixin.consolidate_results'),
]
REFUTED = []          # the five defects found on the original tree were repaired in /repo (fix commits); none remains
TRUSTED = [
    'hand-written model coq/Model/Comparers.v tied to the source by differential correspondence: harness/props/c16.py wraps the '
    'comparer (function wrapper / subclass __call__) and numpy.linalg.lstsq at run time; verdict, grade, message kind '
    '(shape description, entry diagram) and exception class are compared inside Coq by vm_compute',
    'floats enter Coq as exact dyadic rationals; norm comparisons are modelled on squares (no square roots); cases whose verdict '
    'changes when the tolerance is scaled by 1 +- 1e-5 are counted as boundary and excluded (exact-stream cases are compared as is)',
    'modelled, not verified: numpy elementwise arithmetic, np.linalg.norm, np.linalg.lstsq (oracle; its residual field is recorded and '
    'checked against the exact Gram-Schmidt residual: the coefficients vector_span_comparer reads must be a minimiser, the residual field '
    'LinearComparer reads must be the minimum; runs where LAPACK fails to detect the rank of exactly dependent columns are set aside and counted), '
    'IEEE rounding, the expression evaluator that turns the input strings into numbers (C03), Python float % (exact fmod + one rounding)',
    'translator translate/comparers.py (fail-closed ast matcher) for LinearComparer mode tables/defaults, MatrixEntryComparer credit '
    'branches and the MatrixGrader.check_response policy',
]
ASSUMPTIONS = [
    'tolerance is a non-negative number or percentage (schema), values are finite, comparer transform is the identity',
    'lstsq keeps its contract: the returned coefficients minimise the residual (span/phase completeness theorems assume `minimiser`; '
    'soundness does not) and the residual field is the documented one (proportional/linear use lstsq_spec)',
    'between/congruence parameters are real numbers; modulus nonzero',
]

HEADER = ('From Coq Require Import ZArith QArith Qabs List Bool.\n'
          'From Verif.Lib Require Import QRound.\n'
          'From Verif.Model Require Import Result Comparers.\n'
          'Import ListNotations.\nOpen Scope Q_scope.\n')

AGREE_DEFS = r'''
Definition eps : Q := 1 # 1000000000000.
Definition qclose (a b : Q) : bool := Qle_bool (Qabs (a - b)) eps.
Fixpoint zl_eqb (a b : list Z) : bool :=
  match a, b with [], [] => true | x :: a', y :: b' => Z.eqb x y && zl_eqb a' b' | _, _ => false end.
Fixpoint bl_eqb (a b : list bool) : bool :=
  match a, b with [], [] => true | x :: a', y :: b' => Bool.eqb x y && bl_eqb a' b' | _, _ => false end.
Definition shmsg_eqb (a b : shmsg) : bool :=
  match a, b with
  | SMEmpty, SMEmpty => true
  | SMExpected e ed r rd s, SMExpected e' ed' r' rd' s' =>
      Z.eqb e e' && zl_eqb ed ed' && Z.eqb r r' && zl_eqb rd rd' && Bool.eqb s s'
  | _, _ => false
  end.
Definition msgk_eqb (a b : msgk) : bool :=
  match a, b with
  | MsgOther, _ | _, MsgOther => true
  | MsgNone, MsgNone | MsgMustBeReal, MsgMustBeReal | MsgEigenNonzero, MsgEigenNonzero
  | MsgSpanNonzero, MsgSpanNonzero => true
  | MsgShape x, MsgShape y => shmsg_eqb x y
  | MsgEntries x, MsgEntries y => bl_eqb x y
  | _, _ => false
  end.
Definition exn_eqb (a b : exn) : bool :=
  match a, b with
  | XInputType x, XInputType y => msgk_eqb x y
  | XConfig, XConfig | XParams, XParams | XGeneric, XGeneric => true
  | _, _ => false
  end.
Definition outcome_eqb (a b : outcome) : bool :=
  match a, b with
  | ORes o g m, ORes o' g' m' => okv_eqb o o' && qclose g g' && msgk_eqb m m'
  | ORaise e, ORaise e' => exn_eqb e e'
  | _, _ => false
  end.
(* a comparer transform as recorded: the (input, output) pairs observed during the run; identity elsewhere *)
Definition c_eqb (z w : C) : bool := Qeq_bool (fst z) (fst w) && Qeq_bool (snd z) (snd w).
Fixpoint cv_eqb (a b : cvec) : bool :=
  match a, b with [], [] => true | x :: a', y :: b' => c_eqb x y && cv_eqb a' b' | _, _ => false end.
Fixpoint cm_eqb (a b : list cvec) : bool :=
  match a, b with [], [] => true | x :: a', y :: b' => cv_eqb x y && cm_eqb a' b' | _, _ => false end.
Definition value_eqb (a b : value) : bool :=
  match a, b with
  | VNum (NReal x), VNum (NReal y) => Qeq_bool x y
  | VNum (NCplx x x'), VNum (NCplx y y') => Qeq_bool x y && Qeq_bool x' y'
  | VVec x, VVec y => cv_eqb x y
  | VMat x, VMat y => cm_eqb x y
  | _, _ => false
  end.
Definition tr_of (l : list (value * value)) (v : value) : value :=
  match find (fun p => value_eqb (fst p) v) l with Some p => snd p | None => v end.

Definition tol_scale (f : Q) (tl : tol) : tol :=
  match tl with TAbs t => TAbs (t * f) | TPct p => TPct (p * f) end.

(* recorded numpy.linalg.lstsq call: columns, right-hand side, and either the residual field (LinearComparer;
   None = empty) or the returned coefficients (vector_span_comparer) *)
Definition lstsq_obs_ok (r : list cvec * cvec * (option Q + list C)) : bool :=
  match r with
  | (ws, v, inl (Some o)) =>
      (* exactly dependent columns whose rank LAPACK failed to detect: the returned number is numerical noise *)
      if (crank ws <? length ws)%nat then true
      else Qle_bool (Qabs (o - cres2 ws v)) ((1 # 1000000000) * norm2 v + (1 # 10) ^ 200)
  | (ws, v, inl None) => (crank ws <? length ws)%nat || (length v <=? length ws)%nat
  | (ws, v, inr cs) =>
      (* the contract the span theorems assume: the coefficients are a minimiser *)
      Qle_bool (dist2 v (lincomb cs ws) - cres2 ws v) ((1 # 1000000000) * norm2 v + (1 # 10) ^ 200)
  end.

Record gcase := mkCase {
  k_g : gkind; k_tol : tol; k_cmp : comparer; k_ag : Q; k_failable : nat;
  k_samples : list csample; k_exact : bool; k_lstsq : list (list cvec * cvec * (option Q + list C)); k_obs : outcome }.

Definition run_case (k : gcase) (tl : tol) : outcome :=
  grade (k_g k) tl (k_cmp k) (k_ag k) (k_failable k) (k_samples k).
Definition delta : Q := 1 # 100000.
(* 0 = agrees, 1 = disagrees, 2 = boundary (verdict changes when the tolerance is scaled by 1 +- delta) *)
Definition case_code (k : gcase) : Z :=
  if negb (forallb lstsq_obs_ok (k_lstsq k)) then 1%Z
  else
    let mid := run_case k (k_tol k) in
    if k_exact k then (if outcome_eqb mid (k_obs k) then 0%Z else 1%Z)
    else
      let lo := run_case k (tol_scale (1 - delta) (k_tol k)) in
      if negb (outcome_eqb lo mid) then 2%Z
      else
        let hi := run_case k (tol_scale (1 + delta) (k_tol k)) in
        if negb (outcome_eqb lo hi) then 2%Z
        else if outcome_eqb mid (k_obs k) then 0%Z else 1%Z.
'''

EDX_GOOD = '<span style="color:#008100">✓</span>'
EDX_BAD = '<span style="color:#b20610">✗</span>'
SHAPE_NAMES = {'scalar': 0, 'vector': 1, 'matrix': 2, 'tensor': 3}


# ------------------------------------------------------------------------------------------------
# number / value formatting
# ------------------------------------------------------------------------------------------------
def fnum(x):
    s = repr(float(x))
    return '(%s)' % s if s.startswith('-') else s


def cnum(z, force_complex=False):
    z = complex(z)
    if z.imag == 0 and not force_complex:
        return fnum(z.real)
    return '(%s+%s*i)' % (fnum(z.real), fnum(z.imag))


def vec_str(v):
    return '[' + ', '.join(cnum(z) for z in v) + ']'


def mat_str(m):
    return '[' + ', '.join(vec_str(r) for r in m) + ']'


def is_finite_c(z):
    z = complex(z)
    return math.isfinite(z.real) and math.isfinite(z.imag)


class Unrepresentable(Exception):
    pass


def c_term(z):
    z = complex(z)
    if not is_finite_c(z):
        raise Unrepresentable('non-finite value')
    return '(%s, %s)' % (qlit(z.real), qlit(z.imag))


def value_term(v, np_complex_ok=False):
    import numpy as np
    if isinstance(v, np.ndarray):
        if v.ndim == 0:
            return value_term(v.item(), np_complex_ok)
        if v.ndim == 1:
            return '(VVec %s)' % listlit([c_term(z) for z in v.tolist()])
        if v.ndim == 2:
            return '(VMat %s)' % listlit([listlit([c_term(z) for z in row]) for row in v.tolist()])
        raise Unrepresentable('array of ndim %d' % v.ndim)
    if isinstance(v, bool):
        raise Unrepresentable('bool')
    if isinstance(v, complex) and not isinstance(v, np.complexfloating):
        if not is_finite_c(v):
            raise Unrepresentable('non-finite')
        return '(VNum (NCplx %s %s))' % (qlit(v.real), qlit(v.imag))
    if isinstance(v, np.complexfloating):
        if np_complex_ok and is_finite_c(v):
            return '(VNum (NCplx %s %s))' % (qlit(float(v.real)), qlit(float(v.imag)))
        raise Unrepresentable('numpy complex scalar (ordering semantics differ from Python complex)')
    if isinstance(v, (int, float, np.floating, np.integer)):
        if not math.isfinite(float(v)):
            raise Unrepresentable('non-finite')
        return '(VNum (NReal %s))' % qlit(float(v) if not isinstance(v, int) else v)
    raise Unrepresentable('value of type %s' % type(v).__name__)


def tol_term(tolerance):
    if isinstance(tolerance, str):
        p = float(tolerance.strip()[:-1]) * 0.01            # mathfuncs.percentage_as_number
        return '(TPct %s)' % qlit(p)
    return '(TAbs %s)' % qlit(tolerance)


def tol_value(tolerance, ref):
    """effective tolerance as a float: number, or percentage of ref"""
    if isinstance(tolerance, str):
        return float(tolerance.strip()[:-1]) * 0.01 * ref
    return float(tolerance)


# ------------------------------------------------------------------------------------------------
# building and running one grader case (spec -> recorded run)
# ------------------------------------------------------------------------------------------------
class Run(object):
    def __init__(self):
        self.calls = []          # comparer calls: dict(params, student, ret | exc)
        self.lstsq = []          # (a, b, residuals, rank)
        self.transforms = []     # (input, output) of the comparer's configured transform
        self.status = None       # 'ret' | 'exc' | 'timeout'
        self.out = None


TRANSFORMS = ('abs', 'conj', 'double', 'norm', 'trace', 'sum', 'first', 'transpose')


def transform_function(name):
    import numpy as np
    return {'abs': np.abs, 'conj': np.conj, 'double': lambda x: 2 * x, 'norm': np.linalg.norm, 'trace': np.trace,
            'sum': np.sum, 'first': lambda x: x[0], 'transpose': np.transpose}[name]


def transform_term(run):
    pairs = []
    for a, b in (run.transforms if run is not None else []):
        pairs.append('(%s, %s)' % (value_term(a, True), value_term(b, True)))
    return '(tr_of %s)' % listlit(pairs) if pairs else '(fun v => v)'


def comparer_terms(cmp, run=None):
    name, cfg = cmp['name'], cmp.get('cfg', {})
    if name == 'equality':
        return '(CmpEquality %s)' % transform_term(run)
    if name == 'entry':
        pc = cfg.get('entry_partial_credit', 0)
        return '(CmpEntry %s %s)' % ('PCProp' if pc == 'proportional' else '(PCFlat %s)' % qlit(pc), transform_term(run))
    if name == 'linear':
        full = {'equals': 1.0, 'proportional': 0.5, 'offset': None, 'linear': None}
        full.update(cfg)
        return '(CmpLinear (mkL %s %s %s %s))' % tuple(optlit(full[k], qlit) for k in ('equals', 'proportional', 'offset', 'linear'))
    return {'between': 'CmpBetween', 'congruence': 'CmpCongruence', 'eigen': 'CmpEigen',
            'span': 'CmpSpan', 'phase': 'CmpPhase'}[name]


def make_comparer(cmp, holder):
    """the comparer object for cmp = {'name', 'cfg'}; every call (and every transform call) is recorded into holder['run'],
    so that ONE comparer object can be shared by several graders (shared-comparer histories)"""
    from mitxgraders.comparers import comparers as cmod
    from mitxgraders.comparers import linear_comparer as lmod
    name, cfg = cmp['name'], dict(cmp.get('cfg', {}))

    def record(fn):
        def wrapped(params, student, utils):
            entry = {'params': params, 'student': student}
            holder['run'].calls.append(entry)
            try:
                entry['ret'] = fn(params, student, utils)
            except BaseException as e:          # noqa
                entry['exc'] = e
                raise
            return entry['ret']
        return wrapped

    if name in ('between', 'congruence', 'eigen', 'span', 'phase'):
        target = {'between': 'between_comparer', 'congruence': 'congruence_comparer', 'eigen': 'eigenvector_comparer',
                  'span': 'vector_span_comparer', 'phase': 'vector_phase_comparer'}[name]

        def simple(params, student, utils, target=target):
            return getattr(cmod, target)(params, student, utils)
        return record(simple)
    base = {'equality': cmod.EqualityComparer, 'entry': cmod.MatrixEntryComparer, 'linear': lmod.LinearComparer}[name]

    class Recording(base):
        def __call__(self, params, student, utils):
            return record(lambda p, s, u: base.__call__(self, p, s, u))(params, student, utils)
    Recording.__name__ = base.__name__
    if cfg.get('transform'):
        fn = transform_function(cfg['transform'])

        def recorded_transform(x, fn=fn):
            y = fn(x)
            holder['run'].transforms.append((x, y))
            return y
        cfg['transform'] = recorded_transform
    return Recording(**cfg)


def build_grader(spec, run, comparer=None):
    """returns the grader; recording wrappers are installed in `run` (unless a shared comparer is passed in)"""
    cls, config = grader_class_and_config(spec, run, comparer)
    return cls(**config)


def grader_class_and_config(spec, run, comparer=None):
    """the grader class and its configuration dictionary (keyword form)"""
    import numpy as np
    import mitxgraders
    from mitxgraders import FormulaGrader, NumericalGrader, MatrixGrader
    from mitxgraders.sampling import IntegerRange, RealInterval, ComplexRectangle
    if comparer is None:
        comparer = make_comparer(spec['cmp'], {'run': run})

    config = {'answers': {'expect': {'comparer': comparer, 'comparer_params': list(spec['params'])},
                          'grade_decimal': spec.get('ag', 1)},
              'tolerance': spec['tolerance']}
    if spec.get('variables'):
        config['variables'] = list(spec['variables'])
        sf = {}
        for var, s in spec.get('sample_from', {}).items():
            if s[0] == 'int':
                sf[var] = IntegerRange([s[1], s[2]])
            elif s[0] == 'real':
                sf[var] = RealInterval([s[1], s[2]])
            elif s[0] == 'complex':
                sf[var] = ComplexRectangle(re=[s[1], s[2]], im=[s[1], s[2]])
        if sf:
            config['sample_from'] = sf
    kind = spec['grader']
    if kind != 'Numerical':
        config['samples'] = spec.get('samples', 2)
        config['failable_evals'] = spec.get('failable', 0)
    route = spec.get('route', 'explicit')
    if route != 'explicit':
        # the comparer is the grader's default comparer: the answer is a plain string
        config['answers'] = {'expect': spec['params'][0], 'grade_decimal': spec.get('ag', 1)}
    if kind == 'Matrix':
        pol = spec.get('policy') or {}
        config['max_array_dim'] = spec.get('max_array_dim', 2)
        config['suppress_matrix_messages'] = bool(pol.get('suppress', False))
        config['answer_shape_mismatch'] = {'is_raised': bool(pol.get('is_raised', True)),
                                           'msg_detail': pol.get('msg_detail', 'type')}
        if route == 'class_default':
            MatrixGrader.set_default_comparer(comparer)          # undone in execute()
            return MatrixGrader, config
        if route == 'subclass':
            class AuthorGrader(MatrixGrader):
                default_comparer = staticmethod(comparer)
            return AuthorGrader, config
        return MatrixGrader, config
    if kind == 'Numerical':
        return NumericalGrader, config
    return FormulaGrader, config


def execute(spec, comparer=None, holder=None):
    """run the real grader on spec['student']; returns a Run.  With `comparer` (built by make_comparer over `holder`) the
    grader uses that shared comparer object instead of a fresh one."""
    import numpy as np
    run = Run()
    if holder is not None:
        holder['run'] = run
    orig = np.linalg.lstsq

    def lstsq(a, b, rcond=None):
        res = orig(a, b, rcond=rcond)
        run.lstsq.append((np.array(a), np.array(b), np.array(res[1]), int(res[2]), np.array(res[0])))
        return res

    def go():
        grader = build_grader(spec, run, comparer)
        random.seed(spec.get('seed', 0))
        np.random.seed(spec.get('seed', 0) % (2 ** 32))
        np.linalg.lstsq = lstsq
        try:
            return grader(None, spec['student'])
        finally:
            np.linalg.lstsq = orig
            if spec.get('route') == 'class_default':
                from mitxgraders import MatrixGrader
                MatrixGrader.reset_default_comparer()
    run.status, run.out = core.guarded(go)
    np.linalg.lstsq = orig
    if spec.get('route') == 'class_default':
        from mitxgraders import MatrixGrader
        MatrixGrader.reset_default_comparer()
    return run


# ------------------------------------------------------------------------------------------------
# canonical observed outcome -> Coq term
# ------------------------------------------------------------------------------------------------
DESC_RE = re.compile(r'^(scalar|vector|matrix|tensor)(?: of length (\d+)| of shape \(rows: (\d+), cols: (\d+)\))?$')
SHAPE_RE = re.compile(r'^Expected answer to be a (.+?), but input is a (.+?)( of incorrect shape)?$')


def shape_msg_term(msg):
    """'Expected answer to be a X, but input is a Y[ of incorrect shape]' -> shmsg term (None if not of that form)"""
    if msg == '':
        return 'SMEmpty'
    m = SHAPE_RE.match(msg)
    if not m:
        return None
    out = []
    for d in (m.group(1), m.group(2)):
        dm = DESC_RE.match(d)
        if not dm:
            return None
        dims = []
        if dm.group(2):
            dims = [int(dm.group(2))]
        elif dm.group(3):
            dims = [int(dm.group(3)), int(dm.group(4))]
        out.append((SHAPE_NAMES[dm.group(1)], dims))
    return '(SMExpected %s %s %s %s %s)' % (zlit(out[0][0]), listlit([zlit(x) for x in out[0][1]]),
                                           zlit(out[1][0]), listlit([zlit(x) for x in out[1][1]]),
                                           boollit(bool(m.group(3))))


def msg_term(msg, linear):
    if linear:
        return 'MsgOther'
    if msg == '':
        return 'MsgNone'
    if msg == 'Input must be real.':
        return 'MsgMustBeReal'
    if msg == 'Eigenvectors must be nonzero.':
        return 'MsgEigenNonzero'
    if msg == 'Input should be a nonzero vector.':
        return 'MsgSpanNonzero'
    if msg.startswith('Some array entries are incorrect'):
        locs = [tok == EDX_GOOD for tok in re.findall(re.escape(EDX_GOOD) + '|' + re.escape(EDX_BAD), msg)]
        return '(MsgEntries %s)' % listlit([boollit(b) for b in locs])
    sm = shape_msg_term(msg)
    if sm is not None:
        return '(MsgShape %s)' % sm
    return None


def observed_term(spec, run):
    """Coq `outcome` term for what the grader did; None if it cannot be expressed (case skipped, counted)"""
    from mitxgraders.exceptions import InputTypeError, ConfigError, StudentFacingError, MITxError
    linear = spec['cmp']['name'] == 'linear'
    if run.status == 'ret':
        r = run.out
        ok = {True: 'OkTrue', False: 'OkFalse', 'partial': 'OkPartial'}.get(r.get('ok'))
        mt = msg_term(r.get('msg', ''), linear)
        if ok is None or mt is None:
            return None
        return '(ORes %s %s %s)' % (ok, qlit(r['grade_decimal']), mt)
    if run.status != 'exc':
        return None
    e = run.out
    text = str(e)
    if isinstance(e, InputTypeError):
        mt = msg_term(text, False)
        if mt is None:
            return None
        if mt == 'MsgNone':
            mt = '(MsgShape SMEmpty)'
        return '(ORaise (XInputType %s))' % mt
    if isinstance(e, ConfigError):
        return '(ORaise XConfig)'
    if isinstance(e, StudentFacingError) and type(e) is StudentFacingError:
        if text.startswith('Invalid Input: Could not check input'):
            return '(ORaise XGeneric)'
        if text.startswith('Problem Configuration Error'):
            return '(ORaise XParams)'
    return None


def case_term(spec, run):
    """the Coq gcase term, or raises Unrepresentable"""
    import numpy as np
    obs = observed_term(spec, run)
    if obs is None:
        raise Unrepresentable('outcome %r %r' % (run.status, run.out))
    if not run.calls:
        raise Unrepresentable('comparer never called')
    name = spec['cmp']['name']
    samples = []
    if name in ('entry', 'linear'):
        call = run.calls[-1]
        if len(run.calls) != 1:
            raise Unrepresentable('correlated comparer called %d times' % len(run.calls))
        for params, student in zip(call['params'], call['student']):
            samples.append('(mkS %s %s [])' % (listlit([value_term(p) for p in params]), value_term(student)))
        lst = [(l, 'resid') for l in run.lstsq]
    else:
        lst = []
        for call in run.calls:
            params = call['params'] if isinstance(call['params'], list) else [call['params']]
            samples.append((params, call['student']))
        # lstsq calls happen at most once per simple comparer call, in order; pair them up by matching b
        pending = list(run.lstsq)
        out = []
        for params, student in samples:
            coef_t = '[]'
            if name in ('span', 'phase') and pending and isinstance(student, np.ndarray) \
                    and pending[0][1].shape == np.array(student).shape and np.array_equal(pending[0][1], np.array(student)):
                rec = pending.pop(0)
                lst.append((rec, 'coef'))
                coef_t = listlit([c_term(z) for z in np.array(rec[4]).reshape(-1).tolist()])
            out.append('(mkS %s %s %s)' % (listlit([value_term(p) for p in params]), value_term(student), coef_t))
        if pending:
            raise Unrepresentable('unmatched lstsq calls')
        samples = out
    lterms = []
    for (a, b, resid, rank, coef), what in lst:
        a = np.array(a)
        cols = [a[:, j] for j in range(a.shape[1])]
        if what == 'coef':
            r_t = '(inr %s)' % listlit([c_term(z) for z in np.array(coef).reshape(-1).tolist()])
        else:
            r_t = '(inl None)' if resid.size == 0 else '(inl (Some %s))' % qlit(float(np.real(resid.reshape(-1)[0])))
        lterms.append('(%s, %s, %s)' % (listlit([listlit([c_term(z) for z in col.tolist()]) for col in cols]),
                                       listlit([c_term(z) for z in np.array(b).reshape(-1).tolist()]), r_t))
    kind = spec['grader']
    if kind == 'Matrix':
        pol = spec.get('policy') or {}
        det = {None: 'DNone', 'type': 'DType', 'shape': 'DShape'}[pol.get('msg_detail', 'type')]
        g = '(GMatrix (mkPolicy %s %s %s))' % (boollit(pol.get('suppress', False)), boollit(pol.get('is_raised', True)), det)
    else:
        g = 'GFormula'
    failable = spec.get('failable', 0) if kind != 'Numerical' else 0
    return '(mkCase %s %s %s %s %s %s %s %s %s)' % (
        g, tol_term(spec['tolerance']), comparer_terms(spec['cmp'], run), qlit(spec.get('ag', 1)), natlit(failable),
        listlit(samples), boollit(spec.get('exact', False)), listlit(lterms), obs)


def eval_cases(tag, terms, shard):
    """returns (n, failing indices, boundary indices, errors)"""
    files = []
    for k in range(0, len(terms), shard):
        chunk = terms[k:k + shard]
        text = (HEADER + AGREE_DEFS + '\nDefinition c16_cases : list gcase :=\n  [ %s ].\n' % '\n  ; '.join(chunk) +
                'Eval vm_compute in (map case_code c16_cases).\n')
        files.append(('%s_%04d' % (tag, k // shard), text))
    res = core.run_case_files(files)
    failing, boundary, errors = [], [], []
    for (name, rc, out), k in zip(res, range(0, len(terms), shard)):
        m = re.search(r'=\s*(\[.*?\]|nil)\s*(?:%Z)?\s*:\s*list Z', out, re.S) if rc == 0 else None
        codes = [int(x) for x in re.findall(r'\d+', m.group(1).replace('%Z', ''))] if m else None
        if codes is None or len(codes) != len(terms[k:k + shard]):
            errors.append((name, out[-2000:]))
            continue
        failing += [k + i for i, c in enumerate(codes) if c == 1]
        boundary += [k + i for i, c in enumerate(codes) if c == 2]
    return len(terms), failing, boundary, errors

# ------------------------------------------------------------------------------------------------
# generators: spec dicts with an `expect` entry for the property oracle
# ------------------------------------------------------------------------------------------------
FINDINGS = ()        # no known finding remains for C16: every violation is reported with its witness
ABS_TOLS = [1e-6, 1e-3, 0.01]
PCT_TOLS = ['0.01%', '1%', '5%']
POLICIES = [{'suppress': False, 'is_raised': True, 'msg_detail': 'type'},
            {'suppress': False, 'is_raised': True, 'msg_detail': 'shape'},
            {'suppress': False, 'is_raised': True, 'msg_detail': None},
            {'suppress': False, 'is_raised': False, 'msg_detail': 'type'},
            {'suppress': False, 'is_raised': False, 'msg_detail': 'shape'},
            {'suppress': False, 'is_raised': False, 'msg_detail': None},
            {'suppress': True, 'is_raised': True, 'msg_detail': 'type'},
            {'suppress': True, 'is_raised': False, 'msg_detail': 'shape'}]


def rtol(rng):
    return rng.choice(ABS_TOLS + PCT_TOLS)


def rc(rng, cplx=True, lo=-4, hi=4, ints=False, fine=None):
    """random scalar: small integers, dyadic eighths (cheap exact arithmetic in the model) or -- `fine` -- 3-decimal numbers"""
    if fine is None:
        fine = rng.random() < 0.15
    if ints:
        z = complex(rng.randint(lo, hi), rng.randint(lo, hi) if cplx else 0)
    elif fine:
        z = complex(round(rng.uniform(lo, hi), 3), round(rng.uniform(lo, hi), 3) if cplx else 0)
    else:
        z = complex(rng.randint(lo * 8, hi * 8) / 8.0, rng.randint(lo * 8, hi * 8) / 8.0 if cplx else 0)
    return z


def rvec(rng, n, cplx, ints=False, fine=None):
    if fine is None:
        fine = rng.random() < 0.15
    while True:
        v = [rc(rng, cplx, ints=ints, fine=fine) for _ in range(n)]
        if sum(abs(z) ** 2 for z in v) >= 1:
            return v


def wrong_shapes(rng, n, matrix_shape=None):
    """student strings whose shape differs from a vector of length n (or from matrix_shape)"""
    out = ['%s' % fnum(rng.randint(1, 5))]
    if matrix_shape is None:
        out.append(vec_str([rng.randint(1, 5) for _ in range(n + rng.choice([-1, 1]) if n > 1 else n + 1)]))
        out.append(mat_str([[rng.randint(1, 5) for _ in range(n)] for _ in range(n)]))
        out.append(mat_str([[rng.randint(1, 5) for _ in range(n)]]))
    else:
        r, c = matrix_shape
        out.append(vec_str([rng.randint(1, 5) for _ in range(c)]))
        out.append(mat_str([[rng.randint(1, 5) for _ in range(c + 1)] for _ in range(r)]))
        out.append(mat_str([[rng.randint(1, 5) for _ in range(c)] for _ in range(r + 1)]))
    return out


def gen_between(rng, n):
    out = []
    kinds = ['in', 'lo', 'hi', 'below', 'above', 'cplx', 'cplx0', 'vec', 'in', 'below', 'above']
    for i in range(n):
        exact = rng.random() < 0.5
        if exact:
            a = rng.randint(-6, 6) + rng.choice([0, 0.5, 0.25])
            b = a + rng.choice([0, 1, 2, 3.5, 6])
        else:
            a = round(rng.uniform(-10, 10), 3)
            b = a + round(rng.uniform(0.001, 20), 3)
        kind = kinds[i % len(kinds)]
        x = a + (b - a) * rng.choice([0.5, 0.25, 0.75, rng.random()]) if not exact else a + (b - a) * rng.choice([0, 0.5, 1, 0.25])
        d = rng.choice([1e-9, 1e-6, 0.001, 0.5, 3]) * max(1.0, abs(a), abs(b)) if not exact else rng.choice([0.5, 0.125, 2])
        expect = {'kind': 'member'}
        if kind == 'in':
            st = fnum(x)
        elif kind == 'lo':
            st = fnum(a)
        elif kind == 'hi':
            st = fnum(b)
        elif kind == 'below':
            st, expect = fnum(a - d), {'kind': 'nonmember'}
        elif kind == 'above':
            st, expect = fnum(b + d), {'kind': 'nonmember'}
        elif kind == 'cplx':
            st, expect = cnum(complex(x, rng.choice([1e-9, -0.5, 2]))), {'kind': 'nonmember'}
        elif kind == 'cplx0':
            st = cnum(complex(x, 0.0), force_complex=True)
        else:
            st, expect = vec_str([x, x]), {'kind': 'ungraded'}
        out.append({'grader': rng.choice(['Numerical', 'Formula']), 'cmp': {'name': 'between'}, 'params': [fnum(a), fnum(b)],
                    'tolerance': rtol(rng), 'student': st, 'expect': expect, 'exact': exact, 'samples': 1})
    return out


def gen_congruence(rng, n):
    out = []
    kinds = ['shift', 'near', 'far', 'near', 'far', 'at', 'cplx', 'shift', 'near', 'far', 'band']
    for i in range(n):
        exact = rng.random() < 0.4
        kind = kinds[i % len(kinds)]
        if kind == 'band':
            exact = False
        if exact:
            m = rng.choice([2, 3, 4, 5, 7, -3, -4, 0.5])
            t = rng.randint(-9, 9) + rng.choice([0, 0, 0.5, 0.25])
            tolerance = rng.choice([0.5, 0.25, 0.125, 0])
        else:
            m = rng.choice([2 * math.pi, 360.0, 1.0, 0.7, -3.3, 24.0])
            t = rng.choice([0.0, round(rng.uniform(-3, 3) * abs(m), 4), round(rng.uniform(0, 1) * 1e-7 * abs(m), 12)])
            tolerance = rtol(rng) if kind != 'band' else rng.choice(['5%', '1%', '10%'])
            if kind == 'band':
                t = round(rng.uniform(0.2, 0.7) * abs(m), 4) * (1 if m > 0 else -1)
        k = rng.randint(-4, 4)
        er = float(Fraction(t) - Fraction(m) * math.floor(Fraction(t) / Fraction(m)))
        tol = tol_value(tolerance, abs(er)) if isinstance(tolerance, str) else tolerance
        sign = rng.choice([-1, 1])
        base = Fraction(t) + k * Fraction(m)
        if kind == 'shift':
            s = base
        elif kind == 'near':
            s = base + Fraction(sign * rng.choice([0.25, 0.5, 0.75]) * (tol if tol > 0 else 0))
        elif kind == 'at':
            s = base + Fraction(sign * tol)
        elif kind == 'band':
            # just outside / inside the percentage tolerance: tells apart which operand the percentage is relative to
            p = float(tolerance[:-1]) * 0.01
            s = base + Fraction(sign * tol * (1 + rng.choice([-1, 1]) * p / 2))
        elif kind == 'far':
            far = max(1000 * tol * rng.choice([1, 3]), 1e-3 * abs(m) if not exact else abs(m) * 0.25)
            s = base + Fraction(sign * min(far, abs(m) * 0.45))
        else:
            s = None
        st = cnum(complex(float(base), rng.choice([0.0, 0.5])), force_complex=True) if s is None else fnum(float(s))
        out.append({'grader': rng.choice(['Numerical', 'Formula']), 'cmp': {'name': 'congruence'}, 'params': [fnum(t), fnum(m)],
                    'tolerance': tolerance, 'student': st, 'expect': {'kind': 'congruence'} if s is not None else {'kind': None},
                    'exact': exact, 'samples': 1})
    return out


EIGEN_CATALOGUE = [
    ([[2, 1], [1, 2]], [(3, [1, 1]), (1, [1, -1])]),
    ([[1, 2], [2, 4]], [(0, [2, -1]), (5, [1, 2])]),
    ([[0, -1], [1, 0]], [(1j, [1, -1j]), (-1j, [1, 1j])]),
    ([[2, 0, 0], [0, 3, 4], [0, 4, 9]], [(2, [1, 0, 0]), (11, [0, 1, 2]), (1, [0, 2, -1])]),
    ([[1, 1, 1], [1, 1, 1], [1, 1, 1]], [(3, [1, 1, 1]), (0, [1, 3, -4]), (0, [1, -1, 0])]),
    ([[4, 1j], [-1j, 4]], [(5, [1j, 1]), (3, [1, 1j])]),
]


def gen_eigen(rng, n):
    import numpy as np
    out = []
    kinds = ['scaled', 'rescaled', 'perturbed', 'other', 'zero', 'rescaled', 'perturbed', 'shape', 'scaled', 'rescaled']
    for i in range(n):
        exact = rng.random() < 0.4
        kind = kinds[i % len(kinds)]
        if kind == 'rescaled':
            exact = True
        pol = rng.choice(POLICIES)
        if exact:
            M, pairs = rng.choice(EIGEN_CATALOGUE)
            lam, v0 = rng.choice(pairs)
            others = [p for p in pairs if p[0] != lam]
            c = complex(rng.choice([1, 2, -1, 0.5, 4]), rng.choice([0, 0, 1, -2]))
            tolerance = rng.choice([0.5, 0.125, '1%', '0.01%', 0])
        else:
            dim = rng.choice([2, 3])
            cplx = rng.random() < 0.5
            v0 = rvec(rng, dim, cplx)
            lam = rc(rng, cplx)
            if abs(lam) < 0.3:
                lam += 1
            B = np.array([[rc(rng, cplx) for _ in range(dim)] for _ in range(dim)])
            v = np.array(v0)
            M = (B + np.outer(lam * v - B.dot(v), v.conj()) / np.vdot(v, v)).tolist()
            others = []
            c = cmath.rect(rng.uniform(0.2, 5), rng.uniform(0, 2 * math.pi)) if cplx else rng.choice([-1, 1]) * rng.uniform(0.2, 5)
            tolerance = rtol(rng)
        dim = len(M)
        expect = {'kind': 'eigen'}
        if kind == 'rescaled':
            # the defining transformation over many magnitudes: real, negative and complex factors from 1e-9 to 1e9
            # (powers of 2 keep the arithmetic exact, powers of 10 do not), matrices of small and large norm
            mag = rng.choice([10.0 ** rng.randint(-9, 9), 2.0 ** rng.randint(-30, 30)])
            c = mag * rng.choice([1, -1, 1j, -1j, complex(1, 1), complex(0.6, 0.8), complex(-2, 1)])
            sc = rng.choice([1, 1, 2.0 ** -20, 2.0 ** 20, 1e-6, 1e6])
            M = [[z * sc for z in row] for row in M]
            lam = lam * sc
            tolerance = rng.choice(['0.01%', '0.01%', '1%', '5%', 1e-6, 1e-3, 0.01, 0.5, 0])
            dyadic = math.frexp(mag)[0] == 0.5 and sc in (1, 2.0 ** -20, 2.0 ** 20) and all(
                float(x).is_integer() for x in (c.real / mag, c.imag / mag))
            if tolerance == 0 and not dyadic:
                tolerance = 1e-6         # zero tolerance only where the floating-point arithmetic is exact
        if not isinstance(tolerance, str) and abs(c) * math.sqrt(sum(abs(z) ** 2 for z in v0)) <= 16 * tolerance:
            c = c * 32
        if kind in ('scaled', 'rescaled'):
            st, expect = vec_str([c * z for z in v0]), {'kind': 'member'}
        elif kind == 'perturbed':
            u = rvec(rng, dim, True, ints=exact)
            d = rng.choice([1e-3, 0.05, 0.5, 2]) if not exact else rng.choice([1, 0.5])
            st = vec_str([c * z + d * w for z, w in zip(v0, u)])
        elif kind == 'other' and others:
            st = vec_str([c * z for z in rng.choice(others)[1]])
        elif kind == 'zero':
            st, expect = vec_str([0] * dim), {'kind': 'nonmember'}
        elif kind == 'shape':
            st = rng.choice(wrong_shapes(rng, dim))
            expect = {'kind': 'wrongshape'}
        else:
            st, expect = vec_str([c * z for z in v0]), {'kind': 'member'}
        out.append({'grader': 'Matrix', 'cmp': {'name': 'eigen'}, 'params': [mat_str(M), cnum(lam)], 'tolerance': tolerance,
                    'student': st, 'expect': expect, 'exact': exact and kind not in ('perturbed', 'rescaled'), 'policy': pol,
                    'samples': rng.choice([1, 2])})
    return out


def independent(rng, k, n, cplx, ints, fine=False):
    import numpy as np
    while True:
        ws = [rvec(rng, n, cplx, ints=ints, fine=fine) for _ in range(k)]
        sv = np.linalg.svd(np.array(ws), compute_uv=False)
        if len(sv) >= min(k, n) and sv[min(k, n) - 1] / sv[0] > 0.15:
            return ws


def span_distance(ws, v):
    """distance from v to the complex span of the (independent) vectors ws, by QR -- not by least squares"""
    import numpy as np
    A = np.array(ws, dtype=complex).T
    Q, _ = np.linalg.qr(A)
    v = np.array(v, dtype=complex)
    return float(np.linalg.norm(v - Q.dot(Q.conj().T.dot(v))))


def gen_span(rng, n):
    out = []
    kinds = ['member', 'nonmember', 'rescaled', 'nonmember', 'zero', 'shape', 'dependent', 'nonmember', 'square', 'tiny', 'member', 'rescaled']
    for i in range(n):
        kind = kinds[i % len(kinds)]
        dim = rng.choice([2, 3, 3, 4])
        cplx = rng.random() < 0.6
        ints = rng.random() < 0.4
        fine = rng.random() < 0.15 and kind != 'tiny'
        pol = rng.choice(POLICIES)
        tolerance = rtol(rng) if kind != 'tiny' else rng.choice([1e-9, '0.00000001%'])
        if kind == 'dependent':
            k = rng.choice([2, 3]) if dim > 2 else 2
            base = independent(rng, k - 1, dim, cplx, True)
            coefs = [complex(rng.choice([1, 2, -1, 3]), rng.choice([0, 1]) if cplx else 0) for _ in base]
            last = [sum(c * b[j] for c, b in zip(coefs, base)) for j in range(dim)]
            ws = base + [last]
            rng.shuffle(ws)
            true_span = base
        elif kind == 'square':
            k = dim
            ws = independent(rng, k, dim, cplx, ints, fine)
            true_span = ws
        else:
            k = rng.randint(1, dim - 1)
            ws = independent(rng, k, dim, cplx, ints, fine)
            true_span = ws
        cs = [rc(rng, cplx or rng.random() < 0.5, fine=fine) for _ in ws]
        if sum(abs(c) for c in cs) < 0.5:
            cs[0] += 2
        member = [sum(c * w[j] for c, w in zip(cs, ws)) for j in range(dim)]
        if sum(abs(z) ** 2 for z in member) < 0.25:
            member = [z + w for z, w in zip(member, ws[0])]
        if kind == 'rescaled':
            mag = rng.choice([10.0 ** rng.randint(-9, 9), 2.0 ** rng.randint(-30, 30)])
            cfac = mag * rng.choice([1, -1, 1j, complex(1, 1), complex(0.6, 0.8)])
            member = [cfac * z for z in member]
            tolerance = rng.choice(['0.01%', '0.01%', '1%', 1e-6, 1e-3, 0.01])
        mnorm = math.sqrt(sum(abs(z) ** 2 for z in member))
        expect = {'kind': 'member'}
        st = vec_str(member)
        if kind in ('nonmember', 'dependent', 'tiny') and len(true_span) < dim and (kind != 'dependent' or rng.random() < 0.5):
            f = rng.choice([0.125, 0.5, 2.0]) if not fine else rng.choice([0.01, 0.3, 2.0])
            if kind == 'tiny':                      # between 10^3 x tolerance and sqrt(tolerance)
                f = 2.0 ** -16
            j = rng.randrange(dim)
            v = list(member)
            v[j] = v[j] + f * (max(1.0, round(mnorm)) if kind != 'tiny' else 1.0) * rng.choice([1, -1, 1j])
            d = span_distance(true_span, v)
            st = vec_str(v)
            expect = {'kind': 'span-nonmember', 'dist': d, 'dependent': kind == 'dependent'}
        elif kind == 'square':
            st = vec_str(rvec(rng, dim, True, fine=fine))
        elif kind == 'zero':
            st, expect = vec_str([0] * dim), {'kind': 'nonmember'}
        elif kind == 'shape':
            st, expect = rng.choice(wrong_shapes(rng, dim)), {'kind': 'wrongshape'}
        out.append({'grader': 'Matrix', 'cmp': {'name': 'span'}, 'params': [vec_str(w) for w in ws], 'tolerance': tolerance,
                    'student': st, 'expect': expect, 'exact': False, 'policy': pol, 'samples': rng.choice([1, 1, 2])})
    return out


def gen_phase(rng, n):
    out = []
    kinds = ['member', 'scaled', 'member', 'twisted', 'perturbed', 'zero', 'shape', 'member', 'scaled', 'tiny']
    for i in range(n):
        kind = kinds[i % len(kinds)]
        dim = rng.choice([2, 3, 4])
        ints = rng.random() < 0.4
        fine = rng.random() < 0.15 and kind != 'tiny'
        t = rvec(rng, dim, True, ints=ints, fine=fine)
        pol = rng.choice(POLICIES)
        tolerance = rtol(rng)
        phi = rng.uniform(0, 2 * math.pi)
        u = rng.choice([cmath.exp(1j * phi), complex(0.6, 0.8), complex(-0.8, 0.6)]) if rng.random() < 0.45 else rng.choice([1j, -1, -1j, 1])
        expect = {'kind': 'phase'}
        if kind == 'member':
            st, expect = vec_str([u * z for z in t]), {'kind': 'member'}
        elif kind == 'scaled':
            st = vec_str([rng.choice([0.5, 0.9, 1.1, 2, 1.0001] if fine else [0.5, 0.875, 1.125, 2, 1.0009765625]) * u * z for z in t])
        elif kind == 'twisted':
            st = vec_str([cmath.exp(1j * rng.uniform(0, 2 * math.pi)) * z for z in t])
        elif kind == 'perturbed':
            w = rvec(rng, dim, True, fine=fine)
            st = vec_str([u * z + rng.choice([1e-3, 0.05, 0.7] if fine else [0.0078125, 0.0625, 0.75]) * y for z, y in zip(t, w)])
        elif kind == 'tiny':
            tolerance = rng.choice([1e-9, '0.00000001%'])
            if rng.random() < 0.5:
                st = vec_str([(1 + 2.0 ** -16) * u * z for z in t])
            else:
                j = rng.randrange(dim)
                st = vec_str([u * z + (2.0 ** -16 if jj == j else 0) for jj, z in enumerate(t)])
        elif kind == 'zero':
            st, expect = vec_str([0] * dim), {'kind': 'nonmember'}
        else:
            st, expect = rng.choice(wrong_shapes(rng, dim)), {'kind': 'wrongshape'}
        out.append({'grader': 'Matrix', 'cmp': {'name': 'phase'}, 'params': [vec_str(t)], 'tolerance': tolerance,
                    'student': st, 'expect': expect, 'exact': False, 'policy': pol, 'samples': rng.choice([1, 2])})
    return out


def gen_entry(rng, n):
    out = []
    for i in range(n):
        exact = rng.random() < 0.4
        shape = rng.choice([(2,), (3,), (4,), (2, 2), (2, 3), (3, 3), (3, 2), (1, 3)])
        rows, cols = (1, shape[0]) if len(shape) == 1 else shape
        use_vars = rng.random() < 0.3 and not exact
        sometimes = rng.random() < 0.12
        tolerance = rng.choice([0.5, 0.25, '1%', 0]) if exact else rtol(rng)
        pc = rng.choice([0, 0.3, 0.5, 1, 'proportional', 'proportional', 0.75, 0.0, 1.0])
        ag = rng.choice([1, 1, 0.5])
        N = rows * cols
        mode = rng.choice(['all', 'none', 'some', 'some', 'some', 'shape'])
        bad = set(range(N)) if mode == 'none' else set() if mode in ('all', 'shape') else set(rng.sample(range(N), rng.randint(1, N - 1)))
        exp_entries, stu_entries = [], []
        # entries of widely differing magnitude (ratio 1e1 .. 1e8), the errors sitting on the smallest or the largest ones
        spread = (not exact) and (not use_vars) and rng.random() < 0.35
        if spread and N >= 2:
            ratio = 10.0 ** rng.randint(1, 8)
            mags = [rng.choice([1.0, ratio, math.sqrt(ratio)]) * rng.choice([1, 2, 3, 0.5]) for _ in range(N)]
            mags[rng.randrange(N)] = ratio * rng.choice([1, 2])
            order = sorted(range(N), key=lambda j_: mags[j_])
            nb = rng.randint(1, N - 1)
            bad = set(order[:nb]) if rng.random() < 0.6 else set(order[-nb:])
            if mode in ('all', 'shape'):
                bad = set()
            elif mode == 'none':
                bad = set(range(N))
        for j in range(N):
            if spread and N >= 2:
                z = complex(mags[j] * rng.choice([1, -1]), 0)
                e_txt = cnum(z)
                te = tol_value(tolerance, abs(z))
                if j in bad:
                    d = (2000 * te if te > 0 else 0.5 * abs(z)) * rng.uniform(1, 2)
                    s_txt = '%s+%s' % (e_txt, fnum(rng.choice([-1, 1]) * d))
                else:
                    s_txt = e_txt
                exp_entries.append(e_txt)
                stu_entries.append(s_txt)
                continue
            if sometimes and j == 0:
                # equal to the expected entry only when the sampled k happens to be 2: matches in some samples, not in others
                exp_entries.append('2*k')
                stu_entries.append('k+2')
                continue
            if use_vars and rng.random() < 0.5:
                c = rng.choice([1, 2, 3])
                e_txt, mag = '%d*x' % c, 5.0 * c
            else:
                z = rc(rng, rng.random() < 0.3, ints=exact)
                if z == 0:
                    z = complex(1, 0)
                e_txt, mag = cnum(z), abs(z)
            if use_vars and 'x' in e_txt:
                z = complex(1, 1)
            te = tol_value(tolerance, mag)
            if j in bad:
                d = (max(1.0, 2000 * te) * rng.uniform(1, 2)) if not exact else rng.choice([1, 2, 0.75])
                if exact and d <= te:
                    d = te + 1
                s_txt = '%s+%s' % (e_txt, fnum(rng.choice([-1, 1]) * d))
            elif exact and te > 0 and not isinstance(tolerance, str) and abs(z.imag) == 0 and rng.random() < 0.3:
                s_txt = '%s+%s' % (e_txt, fnum(rng.choice([-1, 1]) * te))      # exactly at the (dyadic) tolerance: still a match
            elif not exact and te > 0 and rng.random() < 0.3:
                s_txt = '%s+%s' % (e_txt, fnum(rng.choice([-1, 1]) * 0.3 * te * (0.2 if use_vars else 1)))
            else:
                s_txt = e_txt
            exp_entries.append(e_txt)
            stu_entries.append(s_txt)

        def arr(entries):
            if len(shape) == 1:
                return '[' + ', '.join(entries) + ']'
            return '[' + ', '.join('[' + ', '.join(entries[r * cols:(r + 1) * cols]) + ']' for r in range(rows)) + ']'
        expect = {'kind': 'entry', 'bad': len(bad), 'n': N, 'pc': pc}
        st = arr(stu_entries)
        pol = rng.choice(POLICIES)
        if mode == 'shape':
            st = rng.choice(wrong_shapes(rng, cols, None if len(shape) == 1 else shape))
            expect = {'kind': 'wrongshape'}
        spec = {'grader': 'Matrix', 'cmp': {'name': 'entry', 'cfg': {'entry_partial_credit': pc}}, 'params': [arr(exp_entries)],
                'tolerance': tolerance, 'student': st, 'expect': expect, 'exact': exact, 'policy': pol, 'ag': ag,
                'samples': rng.choice([1, 2, 3])}
        if use_vars or sometimes:
            spec['variables'] = ['x', 'k']
            spec['sample_from'] = {'x': ['real', 1, 5], 'k': ['int', 1, 3]}
        if sometimes:
            spec['samples'] = rng.choice([2, 3, 4])
            spec['exact'] = False
        out.append(spec)
    return out


LINEAR_CFGS = [{}, {'offset': 0.7, 'linear': 0.3}, {'equals': None, 'proportional': 0.5}, {'equals': None, 'offset': 0.8, 'proportional': None},
               {'equals': 1.0, 'proportional': None, 'linear': 0.4}, {'equals': None, 'proportional': None, 'linear': 1.0},
               {'equals': 0.9, 'proportional': 0.9, 'offset': 0.2, 'linear': 0.1}, {'proportional': 0.5, 'linear': 0.25}]


def gen_linear(rng, n):
    out = []
    for i in range(n):
        sampling = rng.choice(['int'] * 13 + ['real'] * 4 + ['complex'] * 3)
        vector = rng.random() < 0.4
        cfg = rng.choice(LINEAR_CFGS)
        tolerance = rtol(rng)
        samples = rng.choice([3, 4, 5]) if sampling == 'int' else 3
        cplx = sampling == 'complex' or rng.random() < 0.15
        a = rng.choice([1, 1, 2, -3, 0.5, complex(1, 1) if cplx else 4, 0])
        b = rng.choice([0, 0, 1, -2, 0.25, complex(0, 1) if cplx else 3])
        form = rng.choice(['lin', 'lin', 'lin', 'lin', 'square', 'zero', 'const', 'shape' if vector else 'lin', 'iso' if vector else 'lin',
                           'tiny' if sampling == 'int' else 'lin'])
        if form == 'tiny':
            tolerance = rng.choice([1e-9, '0.00000001%'])
            if a == 0:
                a = 2
        if vector:
            E = rng.choice(['[x, y]', '[x, x^2, 1]' if sampling == 'int' else '[y, x]', '[x+y, x-y]',
                            '[0, 0]' if form == 'zero' and rng.random() < 0.5 else '[x, 2*y]',
                            # expected arrays with zero entries in some positions, zero rows, diagonal matrices
                            '[x, 0, y]', '[0, x]', 'x*[1, 0]', '[[x, 0], [0, y]]', '[[x, y], [0, 0]]', '[[0, 0], [0, x]]'])
            if E.startswith('[['):
                if form in ('square', 'iso', 'tiny'):
                    form = 'lin'
                if form == 'zero' and rng.random() < 0.5:
                    E = '[[0, 0], [0, 0]]'
                dim = 2
                ones_v = '[[1, 1], [1, 1]]'
            else:
                dim = (E.count(',') + 1) if not E.startswith('x*') else 2
                ones_v = '[' + ', '.join(['1'] * dim) + ']'
            S = '%s*%s+%s*%s' % (cnum(a), E, cnum(b), ones_v)
            if form == 'square' and E.startswith('x*'):
                form = 'lin'
            if form == 'square':
                S = '[' + ', '.join('(%s)^2' % e.strip() for e in E[1:-1].split(',')) + ']'
            elif form == 'zero' and E not in ('[0, 0]', '[[0, 0], [0, 0]]'):
                S = '[' + ', '.join(['0'] * dim) + ']' if not E.startswith('[[') else '[[0, 0], [0, 0]]'
            elif form == 'const':
                S = vec_str([rc(rng, False, ints=True) for _ in range(dim)]) if not E.startswith('[[') else \
                    mat_str([[rc(rng, False, ints=True) for _ in range(2)] for _ in range(2)])
            elif form == 'shape':
                S = rng.choice(wrong_shapes(rng, dim, (2, 2) if E.startswith('[[') else None))
            elif form == 'iso':
                offs = rng.choice([[1, 1j], [1j, 1], [2, -2j]]) + [0] * (dim - 2)
                S = '%s+%s' % (E, vec_str(offs))
            elif form == 'tiny':
                S = '%s+%s*[x^3, y^2%s]' % (S, fnum(2.0 ** -24), ', x*y' if dim == 3 else '')
            grader = 'Matrix'
        else:
            E = rng.choice(['x', 'x^2+1', '3', 'x*y', '0' if form == 'zero' and rng.random() < 0.5 else '2*x'])
            S = '%s*(%s)+%s' % (cnum(a), E, cnum(b))
            if form == 'square':
                S = '(%s)^2+x^3' % E
            elif form == 'zero' and E != '0':
                S = '0'
            elif form == 'const':
                S = fnum(rng.choice([3, 6, 1.5, -2]))
            elif form == 'tiny':
                S = '%s+%s*x^3' % (S, fnum(2.0 ** -24))
            grader = rng.choice(['Formula', 'Matrix'])
        variables = ['x', 'y']
        sf = {v: {'int': ['int', 1, 30] if form != 'tiny' else ['int', 1, 6], 'real': ['real', 1, 5], 'complex': ['complex', 1, 3]}[sampling]
              for v in variables}
        spec = {'grader': grader, 'cmp': {'name': 'linear', 'cfg': cfg}, 'params': [E], 'tolerance': tolerance, 'student': S,
                'expect': {'kind': 'wrongshape'} if form == 'shape' else {'kind': 'linear'}, 'exact': False,
                'variables': variables, 'sample_from': sf, 'samples': samples, 'ag': rng.choice([1, 1, 0.5]),
                'policy': rng.choice(POLICIES)}
        out.append(spec)
    return out


def gen_equality(rng, n):
    out = []
    for i in range(n):
        shape = rng.choice([(), (2,), (3,), (2, 2), (2, 3)])
        exact = rng.random() < 0.4
        tolerance = rng.choice([0.5, 0.25, '1%', 0]) if exact else rtol(rng)
        if shape == ():
            e = rc(rng, rng.random() < 0.3, ints=exact)
            E = cnum(e)
            flatE = [e]
        elif len(shape) == 1:
            flatE = rvec(rng, shape[0], rng.random() < 0.3, ints=exact)
            E = vec_str(flatE)
        else:
            rows = [rvec(rng, shape[1], rng.random() < 0.3, ints=exact) for _ in range(shape[0])]
            flatE = [z for r in rows for z in r]
            E = mat_str(rows)
        nrm = math.sqrt(sum(abs(z) ** 2 for z in flatE))
        tol = tol_value(tolerance, nrm)
        mode = rng.choice(['same', 'near', 'far', 'shape', 'at'])
        j = rng.randrange(len(flatE))
        d = {'same': 0, 'near': 0.4 * tol, 'far': max(2000 * tol, 0.5),
             'at': tol if (exact and not isinstance(tolerance, str)) else 0.9 * tol, 'shape': 0}[mode]
        flatS = list(flatE)
        flatS[j] = flatS[j] + d

        def arr(fl):
            if shape == ():
                return cnum(fl[0])
            if len(shape) == 1:
                return vec_str(fl)
            return mat_str([fl[r * shape[1]:(r + 1) * shape[1]] for r in range(shape[0])])
        st = arr(flatS)
        expect = {'kind': 'member'} if mode in ('same', 'near', 'at') else {'kind': 'nonmember'}
        grader = 'Matrix' if shape != () else rng.choice(['Matrix', 'Formula', 'Numerical'])
        if mode == 'shape':
            if grader != 'Matrix':
                continue
            if shape == ():
                st = vec_str([1, 2])
            else:
                st = rng.choice(wrong_shapes(rng, shape[-1], None if len(shape) == 1 else shape))
            expect = {'kind': 'wrongshape'}
        out.append({'grader': grader, 'cmp': {'name': 'equality'}, 'params': [E], 'tolerance': tolerance, 'student': st,
                    'expect': expect, 'exact': exact and mode != 'near', 'policy': rng.choice(POLICIES),
                    'samples': 1, 'ag': rng.choice([1, 1, 0.5])})
    return out


def transform_shape_stream(rng, per_combo=1):
    """Every way an author can configure the shape-validating comparers that take a transform (EqualityComparer and
    MatrixEntryComparer: transform None / shape-preserving / shape-collapsing / shape-changing; given explicitly, as the
    class default via set_default_comparer, or as the default_comparer of a MatrixGrader subclass) x mismatch policies x
    wrong shapes of each kind.  A wrong shape must be reported per policy whatever the transform; right shapes are
    compared through the transform."""
    out = []
    answers = [
        # (answer, wrong shapes by kind, right-shape member / non-member per transform family)
        ('[3, 0, 4]', {'scalar': '5', 'shorter': '[3, 4]', 'longer': '[3, 0, 4, 0]', 'matrix': '[[3, 0], [0, 4]]',
                       'row-matrix': '[[3, 0, 4]]', 'tensor': '[[[3, 0, 4]]]'},
         ['abs', 'conj', 'double', 'norm', 'sum', 'first', 'transpose', None]),
        ('[[1, 2, 3], [4, 5, 6]]', {'scalar': '21', 'vector': '[1, 2, 3]', 'transposed': '[[1, 4], [2, 5], [3, 6]]',
                                    'wider': '[[1, 2, 3, 0], [4, 5, 6, 0]]', 'tensor': '[[[1, 2, 3], [4, 5, 6]]]'},
         ['abs', 'conj', 'double', 'norm', 'sum', 'first', 'transpose', None]),
        ('[[1, 2], [3, 4]]', {'scalar': '5', 'vector': '[1, 4]', 'taller': '[[1, 2], [3, 4], [0, 0]]', 'tensor': '[[[1, 2], [3, 4]]]'},
         ['trace', 'norm', 'transpose', 'abs', None]),
    ]
    right = {   # (answer, transform) -> [(student, accepted?)]
        ('[3, 0, 4]', 'norm'): [('[0, 5, 0]', True), ('[0, 6, 0]', False)],
        ('[3, 0, 4]', 'sum'): [('[7, 0, 0]', True), ('[3, 0, 5]', False)],
        ('[3, 0, 4]', 'first'): [('[3, 9, 9]', True), ('[4, 0, 4]', False)],
        ('[3, 0, 4]', 'abs'): [('[-3, 0, 4*i]', True), ('[3, 0, 5]', False)],
        ('[3, 0, 4]', 'conj'): [('[3, 0, 4]', True), ('[3, i, 4]', False)],
        ('[3, 0, 4]', 'double'): [('[3, 0, 4]', True), ('[3, 0, 4.5]', False)],
        ('[3, 0, 4]', 'transpose'): [('[3, 0, 4]', True), ('[4, 0, 3]', False)],
        ('[3, 0, 4]', None): [('[3, 0, 4]', True), ('[3, 0, 4.5]', False)],
        ('[[1, 2], [3, 4]]', 'trace'): [('[[5, 9], [9, 0]]', True), ('[[1, 2], [3, 5]]', False)],
        ('[[1, 2], [3, 4]]', 'transpose'): [('[[1, 2], [3, 4]]', True), ('[[1, 3], [2, 4]]', False)],
        ('[[1, 2, 3], [4, 5, 6]]', 'first'): [('[[1, 2, 3], [0, 0, 0]]', True), ('[[1, 2, 4], [4, 5, 6]]', False)],
        ('[[1, 2, 3], [4, 5, 6]]', 'sum'): [('[[21, 0, 0], [0, 0, 0]]', True), ('[[1, 2, 3], [4, 5, 7]]', False)],
    }
    routes = ['explicit', 'class_default', 'subclass']
    k = rng.randrange(1000)
    for answer, wrong, transforms in answers:
        for tname in transforms:
            for kind, student in sorted(wrong.items()):
                # all policies for the shape-collapsing transforms on two kinds of wrong shape, a rotating one otherwise
                collapsing = tname in ('norm', 'trace', 'sum', 'first')
                pols = POLICIES if (collapsing and kind in ('scalar', 'shorter', 'vector', 'transposed')) else \
                    [POLICIES[(k + i) % len(POLICIES)] for i in range(per_combo)]
                for pol in pols:
                    k += 1
                    for cname in (['equality', 'entry'] if k % 3 == 0 else ['equality']):
                        cfg = {'transform': tname} if tname else {}
                        if cname == 'entry':
                            cfg = dict(cfg, entry_partial_credit=rng.choice(['proportional', 0.5, 0]))
                        out.append({'grader': 'Matrix', 'cmp': {'name': cname, 'cfg': cfg}, 'params': [answer],
                                    'tolerance': rng.choice(['0.01%', 0.001]), 'student': student, 'expect': {'kind': 'wrongshape'},
                                    'exact': False, 'policy': pol, 'samples': rng.choice([1, 2]), 'route': routes[k % 3],
                                    'max_array_dim': 3 if kind == 'tensor' else 2, 'shape_kind': kind})
            for student, ok in right.get((answer, tname), []):
                k += 1
                out.append({'grader': 'Matrix', 'cmp': {'name': 'equality', 'cfg': {'transform': tname} if tname else {}},
                            'params': [answer], 'tolerance': '0.01%', 'student': student,
                            'expect': {'kind': 'member' if ok else 'nonmember'}, 'exact': False,
                            'policy': POLICIES[k % len(POLICIES)], 'samples': 1, 'route': routes[k % 3]})
    return out


def corpus():
    """regression corpus, run first on every run: the witnesses of the five defects repaired in /repo (fix commits 2b5e28f,
    70bde6b, 8b36db6, c7560ea, 521d2fc) and their neighbours -- ordinary cases that must PASS"""
    dflt = {'suppress': False, 'is_raised': True, 'msg_detail': 'type'}
    C = [
        # congruence wrap-around
        {'grader': 'Numerical', 'cmp': {'name': 'congruence'}, 'params': ['0', '2*pi'], 'tolerance': 1e-6, 'student': '(-1e-09)',
         'expect': {'kind': 'congruence'}},
        {'grader': 'Numerical', 'cmp': {'name': 'congruence'}, 'params': ['0', '2*pi'], 'tolerance': 1e-6, 'student': '1e-09',
         'expect': {'kind': 'congruence'}},
        {'grader': 'Numerical', 'cmp': {'name': 'congruence'}, 'params': ['0', '1'], 'tolerance': 0.125, 'student': '(-0.0625)',
         'expect': {'kind': 'congruence'}, 'exact': True},
        {'grader': 'Numerical', 'cmp': {'name': 'congruence'}, 'params': ['0.5', '1'], 'tolerance': 0.125, 'student': '3.625',
         'expect': {'kind': 'congruence'}, 'exact': True},
        # dependent spanning vectors
        {'grader': 'Matrix', 'cmp': {'name': 'span'}, 'params': ['[1, 1, 0]', '[2, 2, 0]'], 'tolerance': '0.01%', 'student': '[0, 0, 1]',
         'expect': {'kind': 'span-nonmember', 'dist': 1.0, 'dependent': True}, 'policy': dflt},
        {'grader': 'Matrix', 'cmp': {'name': 'span'}, 'params': ['[1, 1, 0]', '[2, 2, 0]'], 'tolerance': '0.01%', 'student': '[3*i, 3*i, 0]',
         'expect': {'kind': 'member'}, 'policy': dflt},
        {'grader': 'Matrix', 'cmp': {'name': 'span'}, 'params': ['[1, 1, 0]', '[0, 1, 2]'], 'tolerance': '0.01%',
         'student': '[2, 2+3*i, 6*i]', 'expect': {'kind': 'member'}, 'policy': dflt},
        {'grader': 'Matrix', 'cmp': {'name': 'span'}, 'params': ['[1, 1, 0]', '[0, 1, 2]'], 'tolerance': '0.01%',
         'student': '[2, 2+3*i, 6]', 'expect': {'kind': 'span-nonmember', 'dist': 1.0, 'dependent': False}, 'policy': dflt},
        # LinearComparer: no zero-compatible mode and a zero student
        {'grader': 'Formula', 'cmp': {'name': 'linear', 'cfg': {'equals': None, 'proportional': 0.5}}, 'params': ['x'],
         'tolerance': '0.01%', 'student': '0', 'expect': {'kind': 'linear'}, 'variables': ['x'], 'samples': 4},
        {'grader': 'Formula', 'cmp': {'name': 'linear', 'cfg': {'equals': None, 'proportional': 0.5}}, 'params': ['x'],
         'tolerance': '0.01%', 'student': '2*x', 'expect': {'kind': 'linear'}, 'variables': ['x'], 'samples': 4},
        # LinearComparer: complex offsets whose squares cancel
        {'grader': 'Matrix', 'cmp': {'name': 'linear', 'cfg': {}}, 'params': ['[x, y]'], 'tolerance': '0.01%', 'student': '[x+1, y+i]',
         'expect': {'kind': 'linear'}, 'variables': ['x', 'y'], 'samples': 3, 'policy': dflt},
        {'grader': 'Matrix', 'cmp': {'name': 'linear', 'cfg': {}}, 'params': ['[x, y]'], 'tolerance': '0.01%', 'student': '[x+1, y+1]',
         'expect': {'kind': 'linear'}, 'variables': ['x', 'y'], 'samples': 3, 'policy': dflt},
        # between: complex-typed real value inside the bounds
        {'grader': 'Numerical', 'cmp': {'name': 'between'}, 'params': ['1', '3'], 'tolerance': '0.01%', 'student': '2+0*i',
         'expect': {'kind': 'member'}, 'exact': True},
        {'grader': 'Numerical', 'cmp': {'name': 'between'}, 'params': ['1', '3'], 'tolerance': '0.01%', 'student': '3',
         'expect': {'kind': 'member'}, 'exact': True},
        {'grader': 'Numerical', 'cmp': {'name': 'between'}, 'params': ['1', '3'], 'tolerance': '0.01%', 'student': '3.0000000001',
         'expect': {'kind': 'nonmember'}, 'exact': True},
        # phase / eigenvector documented examples
        {'grader': 'Matrix', 'cmp': {'name': 'phase'}, 'params': ['[1, i, 0]'], 'tolerance': '0.01%', 'student': '(3+4*i)/5*[1, i, 0]',
         'expect': {'kind': 'member'}, 'policy': dflt},
        {'grader': 'Matrix', 'cmp': {'name': 'phase'}, 'params': ['[1, i, 0]'], 'tolerance': '0.01%', 'student': '[2, 2*i, 0]',
         'expect': {'kind': 'phase'}, 'policy': dflt},
        {'grader': 'Matrix', 'cmp': {'name': 'eigen'}, 'params': ['[[2, 1], [1, 2]]', '3'], 'tolerance': '0.01%', 'student': '(1+i)*[1, 1]',
         'expect': {'kind': 'member'}, 'policy': dflt},
        {'grader': 'Matrix', 'cmp': {'name': 'eigen'}, 'params': ['[[2, 1], [1, 2]]', '3'], 'tolerance': '0.01%', 'student': '[1, -1]',
         'expect': {'kind': 'eigen'}, 'policy': dflt},
    ]
    for c in C:
        c.setdefault('samples', 1)
        c.setdefault('exact', False)
    return C


def shape_grid():
    """every shape-validating comparer x every policy x a few wrong shapes"""
    out = []
    setups = [
        ({'name': 'equality'}, ['[[1, 2], [3, 4]]'], ['[1, 2]', '5', '[[1, 2, 3], [3, 4, 5]]', '[[1, 2], [3, 4], [5, 6]]']),
        ({'name': 'equality'}, ['[1, 2, 3]'], ['[1, 2]', '5', '[[1, 2, 3]]']),
        ({'name': 'equality'}, ['7'], ['[7]', '[[7]]']),
        ({'name': 'entry', 'cfg': {'entry_partial_credit': 'proportional'}}, ['[[1, 2], [3, 4]]'], ['[1, 2]', '5', '[[1, 2, 3], [3, 4, 5]]']),
        ({'name': 'eigen'}, ['[[2, 1], [1, 2]]', '3'], ['[1, 1, 1]', '3', '[[1, 1], [1, 1]]', '[1]']),
        ({'name': 'span'}, ['[1, 1, 0]', '[0, 1, 2]'], ['[1, 1]', '5', '[[1, 1, 0]]']),
        ({'name': 'phase'}, ['[1, i, 0]'], ['[1, i]', '5', '[[1, i, 0]]']),
    ]
    for cmp, params, students in setups:
        for pol in POLICIES:
            for st in students:
                out.append({'grader': 'Matrix', 'cmp': cmp, 'params': params, 'tolerance': '0.01%', 'student': st,
                            'expect': {'kind': 'wrongshape'}, 'exact': True, 'policy': pol, 'samples': 1})
    # zero-valued (and, under an absolute tolerance, within-tolerance-of-zero) submissions of every wrong shape: a comparer's
    # own "must be nonzero" / "is zero" logic must never pre-empt the shape report
    zero_setups = [
        ({'name': 'span'}, ['[1, 1, 0]', '[0, 1, 2]'], 'vec3'), ({'name': 'phase'}, ['[1, i, 0]'], 'vec3'),
        ({'name': 'eigen'}, ['[[2, 1], [1, 2]]', '3'], 'vec2'), ({'name': 'equality'}, ['[1, 2, 3]'], 'vec3'),
        ({'name': 'equality'}, ['[[1, 2], [3, 4]]'], 'mat22'), ({'name': 'equality'}, ['7'], 'scalar'),
        ({'name': 'equality', 'cfg': {'transform': 'norm'}}, ['[1, 2, 3]'], 'vec3'),
        ({'name': 'entry', 'cfg': {'entry_partial_credit': 'proportional'}}, ['[1, 2, 3]'], 'vec3'),
        ({'name': 'entry', 'cfg': {'entry_partial_credit': 0.5}}, ['[[1, 2], [3, 4]]'], 'mat22'),
    ]
    zeros = {'vec3': ['0', '[0, 0]', '[0, 0, 0, 0]', '[[0, 0, 0]]', '[1, 2]-[1, 2]', '0*[1, 1]', '[[0, 0], [0, 0]]'],
             'vec2': ['0', '[0, 0, 0]', '[[0, 0], [0, 0]]', '[0]', '[1, 2, 3]-[1, 2, 3]'],
             'mat22': ['0', '[0, 0]', '[[0, 0, 0], [0, 0, 0]]', '[[0, 0]]', '0*[1, 1]'],
             'scalar': ['[0]', '[0, 0]', '[[0]]']}
    tiny = {'vec3': ['1e-09', '[1e-09, 0]', '[[0, 1e-09, 0]]'], 'vec2': ['1e-09', '[0, 1e-09, 0]'],
            'mat22': ['1e-09', '[1e-09, 0]'], 'scalar': ['[1e-09]']}
    k = 0
    for cmp, params, shp in zero_setups:
        pols = POLICIES if cmp['name'] in ('span', 'phase', 'eigen') else [POLICIES[i] for i in (0, 1, 3, 4)]
        for pol in pols:
            for st in zeros[shp] + tiny[shp]:
                k += 1
                out.append({'grader': 'Matrix', 'cmp': cmp, 'params': params,
                            'tolerance': 0.01 if (st in tiny[shp] or k % 3 == 0) else '0.01%', 'student': st,
                            'expect': {'kind': 'wrongshape'}, 'exact': True, 'policy': pol, 'samples': 1})
    for pol in POLICIES:
        for st in ['[0, 0, 0]', '0', '[[0, 0]]', '[x, y, 1]-[x, y, 1]']:
            out.append({'grader': 'Matrix', 'cmp': {'name': 'linear', 'cfg': {}}, 'params': ['[x, y]'], 'tolerance': '0.01%',
                        'student': st, 'expect': {'kind': 'wrongshape'}, 'exact': False, 'policy': pol, 'samples': 3,
                        'variables': ['x', 'y']})
    for pol in POLICIES:
        for st in ['[x, y, 1]', 'x', '[[x, y]]']:
            out.append({'grader': 'Matrix', 'cmp': {'name': 'linear', 'cfg': {}}, 'params': ['[x, y]'], 'tolerance': '0.01%',
                        'student': st, 'expect': {'kind': 'wrongshape'}, 'exact': False, 'policy': pol, 'samples': 3,
                        'variables': ['x', 'y']})
    return out


# ------------------------------------------------------------------------------------------------
# configuration given as ONE dictionary object (positional form), reused for several graders
# ------------------------------------------------------------------------------------------------
def MatrixEntryDefaultMsg():
    from mitxgraders.comparers import MatrixEntryComparer
    return MatrixEntryComparer.default_msg


def snapshot(x):
    """structural snapshot of a configuration: plain data by value, every other object by identity"""
    if isinstance(x, dict):
        return ('dict', sorted(((repr(k), snapshot(v)) for k, v in x.items()), key=lambda kv: kv[0]))
    if isinstance(x, (list, tuple)):
        return (type(x).__name__, [snapshot(v) for v in x])
    if x is None or isinstance(x, (bool, int, float, complex, str)):
        return ('value', repr(x))
    return ('object', id(x))


def call_outcome(fn):
    run = Run()
    run.status, run.out = core.guarded(fn)
    return outcome_key(run)


def dict_form_checks(spec):
    """Builds graders from ONE author-owned dict passed positionally: twice from the same dict object, once from the first
    grader's own .config, once in keyword form.  The author's dict must come out unchanged and all graders must grade
    the submission identically (and as the reference outcome `ref` of the ordinary run says).  For MatrixEntryComparer
    specs the partial-credit settings are given through MatrixGrader's own entry_partial_credit / entry_partial_msg keys.
    Returns a list of complaint strings."""
    import numpy as np
    holder = {'run': Run()}
    comparer = make_comparer(spec['cmp'], holder)
    plain = dict(spec)
    plain.pop('route', None)
    cls, config = grader_class_and_config(plain, holder['run'], comparer)
    via_keys = spec['cmp']['name'] == 'entry' and spec['grader'] == 'Matrix' and not spec['cmp'].get('cfg', {}).get('transform')
    if via_keys:
        config['answers'] = {'expect': spec['params'][0], 'grade_decimal': spec.get('ag', 1)}
        config['entry_partial_credit'] = spec['cmp'].get('cfg', {}).get('entry_partial_credit', 0)
        if spec.get('entry_partial_msg') is not None:
            config['entry_partial_msg'] = spec['entry_partial_msg']
    before = snapshot(config)
    complaints = []

    def graded(make):
        def go():
            g = make()
            random.seed(spec.get('seed', 0))
            np.random.seed(spec.get('seed', 0) % (2 ** 32))
            holder['run'] = Run()
            return g(None, spec['student'])
        return call_outcome(go)
    first = {}

    def make_first():
        first['g'] = cls(config)
        return first['g']
    outcomes = [('first grader built from the dict', graded(make_first))]
    if snapshot(config) != before:
        complaints.append('building a grader from the author\'s configuration dict changed that dict')
    outcomes.append(('second grader built from the same dict object', graded(lambda: cls(config))))
    if snapshot(config) != before and not complaints:
        complaints.append('building a second grader from the author\'s configuration dict changed that dict')
    if 'g' in first and via_keys:
        outcomes.append(('grader rebuilt from the first grader\'s .config', graded(lambda: cls(first['g'].config))))
    outcomes.append(('grader built in keyword form', graded(lambda: cls(**config))))
    ref = outcome_key(execute(plain))
    for label, o in outcomes:
        if o != ref:
            complaints.append('%s gives %r, the reference grader (explicit comparer, keyword form) gives %r' % (label, o, ref))
            break
    return complaints


# ------------------------------------------------------------------------------------------------
# history independence of the comparers: shared comparer objects, and perturb-then-probe against a fresh interpreter
# ------------------------------------------------------------------------------------------------
def outcome_key(run):
    """canonical, comparable form of what a grader call did"""
    if run.status == 'ret':
        r = run.out
        g = r.get('grade_decimal')
        return ['ret', repr(r.get('ok')), round(float(g), 9) if isinstance(g, (int, float)) else repr(g), r.get('msg', '')]
    return [run.status, type(run.out).__name__, str(run.out)]


def shared_histories(rng):
    """Groups of graders that share ONE comparer object (explicitly, or as the class default through
    MatrixGrader.set_default_comparer) while differing in tolerance / mismatch policy / answer credit, run in a varying
    order with wrong-shape and error-raising submissions in between.  Every result must be the one the grader's own
    configuration prescribes: it goes through the ordinary oracle and correspondence and is compared with the same
    case run on a fresh comparer object."""
    groups = []
    tolerances = [0.5, 0.01, '1%', 1e-6, '25%', 0.125]

    def members(cmp, grader, params, students, extra=None, n=5, route=None):
        specs = []
        for i in range(n):
            sp = {'grader': grader, 'cmp': cmp, 'params': params, 'tolerance': rng.choice(tolerances),
                  'student': rng.choice(students), 'expect': {'kind': None}, 'exact': False, 'samples': rng.choice([1, 2]),
                  'policy': rng.choice(POLICIES), 'ag': rng.choice([1, 1, 0.5])}
            if extra:
                sp.update(extra)
            if route:
                sp['route'] = route
            specs.append(sp)
        # make sure a loose tolerance comes before a strict one and vice versa somewhere in the history
        specs[0]['tolerance'], specs[1]['tolerance'] = rng.choice([(0.5, 0.01), (0.01, 0.5), ('25%', 1e-6), (1e-6, '25%')])
        return specs
    vec_students = ['[1.2, 2, 3]', '[1, 2, 3]', '[1.004, 2, 3.3]', '[5, 6, 7]', '[1, 2]', '7', '[1.2, 2.2, 3.2]']
    mat_students = ['[[1.2, 2], [3, 4]]', '[[1, 2], [3, 4]]', '[[1, 2.004], [3.3, 4]]', '[1, 2]', '[[9, 9], [9, 9]]']
    for pc in ('proportional', 0.5):
        for route in (None, 'class_default'):
            groups.append({'cmp': {'name': 'entry', 'cfg': {'entry_partial_credit': pc}}, 'route': route,
                           'specs': members({'name': 'entry', 'cfg': {'entry_partial_credit': pc}}, 'Matrix', ['[1, 2, 3]'],
                                            vec_students, route=route)})
    groups.append({'cmp': {'name': 'entry', 'cfg': {'entry_partial_credit': 'proportional'}}, 'route': None,
                   'specs': members({'name': 'entry', 'cfg': {'entry_partial_credit': 'proportional'}}, 'Matrix',
                                    ['[[1, 2], [3, 4]]'], mat_students)})
    for tname in (None, 'abs', 'norm'):
        cmp = {'name': 'equality', 'cfg': {'transform': tname} if tname else {}}
        for route in (None, 'class_default'):
            groups.append({'cmp': cmp, 'route': route, 'specs': members(cmp, 'Matrix', ['[1, 2, 3]'], vec_students, route=route)})
    lin = {'name': 'linear', 'cfg': {'offset': 0.7, 'linear': 0.3}}
    lin_extra = {'variables': ['x', 'y'], 'sample_from': {'x': ['int', 1, 30], 'y': ['int', 1, 30]}, 'samples': 4}
    groups.append({'cmp': lin, 'route': None,
                   'specs': members(lin, 'Matrix', ['[x, 0, y]'], ['[x, 0, y]', '3*[x, 0, y]', '[x, 0, y]+[1, 1, 1]', '[0, 0, 0]',
                                                                   '[x+0.3, 0, y]', '[x, y]', '2*[x, 0, y]+[1, 1, 1]'], lin_extra)})
    groups.append({'cmp': lin, 'route': None,
                   'specs': members(lin, 'Formula', ['x'], ['x', '2*x', 'x+1', '0', 'x+0.004', 'x^2'], lin_extra)})
    for name, params, students in (('congruence', ['1', '3'], ['4', '4.2', '1.004', '-2', '2.5']),
                                   ('eigen', ['[[2, 1], [1, 2]]', '3'], ['[1, 1]', '[1, 1.2]', '[2, 2.002]', '[1, -1]', '[0, 0]', '5']),
                                   ('span', ['[1, 1, 0]', '[0, 1, 2]'], ['[1, 2, 2]', '[1, 2, 2.2]', '[1, 2.001, 2]', '[1, 2]', '[0, 0, 0]']),
                                   ('phase', ['[1, i, 0]'], ['[i, -1, 0]', '[i, -1, 0.2]', '[1.1*i, -1.1, 0]', '[0, 0, 0]'])):
        cmp = {'name': name}
        groups.append({'cmp': cmp, 'route': None,
                       'specs': members(cmp, 'Numerical' if name == 'congruence' else 'Matrix', params, students)})
    generic = {'entry': 'entry', 'linear': 'linear', 'congruence': 'congruence', 'eigen': 'eigen', 'phase': 'phase'}
    for g in groups:
        rng.shuffle(g['specs'])
        for sp in g['specs']:
            kind = generic.get(g['cmp']['name'])
            if kind:
                sp['expect'] = {'kind': kind, 'pc': g['cmp'].get('cfg', {}).get('entry_partial_credit', 0)}
    return groups


def run_group(group):
    """runs the graders of a group on ONE shared comparer object; returns the list of Runs"""
    holder = {}
    comparer = make_comparer(group['cmp'], holder)
    return [execute(sp, comparer=comparer, holder=holder) for sp in group['specs']]


PROBE_SCRIPT = ('import json, sys\n'
                'from harness.props import c16\n'
                'specs = json.load(sys.stdin)\n'
                'print("@@PROBES" + json.dumps([c16.outcome_key(c16.execute(sp)) for sp in specs]))\n')


def probe_specs():
    """fixed probe cases for perturb-then-probe: the regression corpus, part of the shape grid and a few entry/linear cases"""
    probes = corpus() + shape_grid()[::9] + transform_shape_stream(random.Random(11))[::17]
    probes += gen_entry(random.Random(12), 12) + gen_linear(random.Random(13), 12) + gen_equality(random.Random(14), 8)
    for i, sp in enumerate(probes):
        sp['seed'] = 777 + i
    return probes


def fresh_outcomes(specs):
    """outcomes of the specs in a FRESH interpreter (nothing of this run's history); None if the subprocess failed"""
    import os
    import subprocess
    import sys
    env = dict(os.environ)
    env['PYTHONPATH'] = core.REPO + os.pathsep + core.VERIF
    env['PYTHONHASHSEED'] = '0'
    try:
        p = subprocess.run([sys.executable, '-B', '-c', PROBE_SCRIPT], input=json.dumps(specs), env=env, cwd=core.VERIF,
                           stdout=subprocess.PIPE, stderr=subprocess.PIPE, text=True, timeout=300)
    except Exception as e:                                       # noqa
        return None, repr(e)
    for line in p.stdout.splitlines():
        if line.startswith('@@PROBES'):
            return json.loads(line[len('@@PROBES'):]), ''
    return None, (p.stderr or p.stdout)[-800:]


# ------------------------------------------------------------------------------------------------
# the property oracle (independent of the model): returns None or a dict(what=...)
# ------------------------------------------------------------------------------------------------
def accepted(run, ag):
    return run.status == 'ret' and run.out.get('ok') is not False and abs(run.out.get('grade_decimal', 0) - ag) < 1e-9 and ag > 0


def rejected(run):
    return (run.status == 'ret' and run.out.get('ok') is False and run.out.get('grade_decimal') == 0) or run.status == 'exc'


def is_generic(run):
    return run.status == 'exc' and str(run.out).startswith('Invalid Input: Could not check input')


def describe(run):
    if run.status == 'ret':
        return 'returned ok=%r grade_decimal=%r msg=%r' % (run.out.get('ok'), run.out.get('grade_decimal'), run.out.get('msg', '')[:60])
    return 'raised %s: %s' % (type(run.out).__name__, str(run.out)[:100])


def fr(x):
    return Fraction(float(x))


def params_dependent(params):
    """exact (Fraction, Gaussian elimination over Q[i] as pairs) test that the recorded spanning vectors are linearly dependent"""
    import numpy as np
    rows = [[(fr(complex(z).real), fr(complex(z).imag)) for z in np.array(p).reshape(-1).tolist()] for p in params]

    def mul(a, b):
        return (a[0] * b[0] - a[1] * b[1], a[0] * b[1] + a[1] * b[0])

    def div(a, b):
        d = b[0] * b[0] + b[1] * b[1]
        return ((a[0] * b[0] + a[1] * b[1]) / d, (a[1] * b[0] - a[0] * b[1]) / d)
    rank, ncols = 0, len(rows[0]) if rows else 0
    rows = [list(r) for r in rows]
    for col in range(ncols):
        piv = next((i for i in range(rank, len(rows)) if rows[i][col] != (0, 0)), None)
        if piv is None:
            continue
        rows[rank], rows[piv] = rows[piv], rows[rank]
        for i in range(rank + 1, len(rows)):
            f = div(rows[i][col], rows[rank][col])
            rows[i] = [(x[0] - mul(f, y)[0], x[1] - mul(f, y)[1]) for x, y in zip(rows[i], rows[rank])]
        rank += 1
    return rank < len(rows)


def oracle(spec, run):
    import numpy as np
    from mitxgraders.exceptions import InputTypeError, MITxError
    exp = spec.get('expect') or {}
    kind = exp.get('kind')
    ag = spec.get('ag', 1)
    name = spec['cmp']['name']
    tolerance = spec['tolerance']
    if kind is None:
        return None
    if run.status == 'timeout':
        return {'what': 'grader call timed out'}
    if kind == 'member':
        if accepted(run, ag):
            return None
        if name in ('eigen', 'span') and run.calls:
            # member by construction, but only claimed when an independent floating-point evaluation of the defining
            # equation is itself far inside the tolerance (huge rescalings under an absolute tolerance are rounding noise)
            try:
                c0 = run.calls[-1]
                v = np.array(c0['student'], dtype=complex)
                if name == 'eigen':
                    Mx, lam = np.array(c0['params'][0], dtype=complex), complex(c0['params'][1])
                    res_ = float(np.linalg.norm(Mx.dot(v) - lam * v))
                    tol_ = tol_value(tolerance, float(np.linalg.norm(Mx.dot(v))))
                    if tol_ <= 1e-12 * float(np.linalg.norm(Mx)) * float(np.linalg.norm(v)):
                        return None          # effective tolerance below the rounding noise of M v (e.g. eigenvalue 0 with a percentage)
                else:
                    wsx = [np.array(p_, dtype=complex) for p_ in c0['params']]
                    res_ = 0.0 if params_dependent(wsx) or len(wsx) >= len(v) else span_distance(wsx, v)
                    tol_ = tol_value(tolerance, float(np.linalg.norm(v)))
                if res_ > tol_ / 1000:
                    return None
            except Exception:
                pass
        if name in ('eigen', 'span', 'phase') and not isinstance(tolerance, str) and run.calls:
            # a vector whose norm is within the absolute tolerance of zero counts as zero: no claim near that threshold
            try:
                if float(np.linalg.norm(np.array(run.calls[-1]['student'], dtype=complex))) <= 8 * float(tolerance):
                    return None
            except Exception:
                pass
        return {'what': 'member of the accepted class (by construction) is not accepted: ' + describe(run)}
    if kind == 'nonmember':
        return None if rejected(run) else {'what': 'non-member is not rejected: ' + describe(run)}
    if kind == 'ungraded':
        return None if (run.status == 'exc' and isinstance(run.out, MITxError)) else \
            {'what': 'input of the wrong shape was graded instead of being reported: ' + describe(run)}
    if kind == 'wrongshape':
        pol = spec.get('policy') or {}
        if run.calls and 'ret' in run.calls[-1]:
            return {'what': 'comparer graded an input of the wrong shape (returned %r)' % (run.calls[-1]['ret'],)}
        if pol.get('suppress'):
            good = run.status == 'ret' and run.out == {'ok': False, 'msg': '', 'grade_decimal': 0}
        elif pol.get('is_raised', True):
            good = run.status == 'exc' and isinstance(run.out, InputTypeError) and \
                (str(run.out) == '' if pol.get('msg_detail', 'type') is None else str(run.out).startswith('Expected answer to be a'))
        else:
            good = run.status == 'ret' and run.out.get('ok') is False and run.out.get('grade_decimal') == 0 and \
                (run.out.get('msg') == '' if pol.get('msg_detail', 'type') is None else run.out.get('msg', '').startswith('Expected answer to be a'))
        return None if good else {'what': 'wrong-shape submission not handled according to the mismatch policy %r: %s' % (pol, describe(run))}
    if not run.calls:
        return None
    call = run.calls[-1]
    if kind == 'congruence':
        t, m = [fr(p) for p in call['params']]
        x = call['student']
        if isinstance(x, complex) or m == 0:
            return None
        x = fr(x)
        am = abs(m)
        r = (x - t) - am * math.floor((x - t) / am)
        dist = min(r, am - r)
        er = t - m * math.floor(t / m)
        sr = x - m * math.floor(x / m)
        if isinstance(tolerance, str):
            p = Fraction(float(tolerance.strip()[:-1]) * 0.01)
            lo_t, hi_t = p * min(abs(er), abs(t)), p * max(abs(er), abs(t), am)
        else:
            lo_t = hi_t = Fraction(tolerance)
        guard = Fraction(0) if spec.get('exact') else max(lo_t, hi_t) / 10 ** 6 + am / 10 ** 12
        if dist <= lo_t - guard and (spec.get('exact') or dist <= lo_t * Fraction(999, 1000)):
            if accepted(run, ag):
                return None
            return {'what': 'input congruent to the target within tolerance (distance %.3g, tolerance %.3g) is not accepted: %s'
                    % (float(dist), float(lo_t), describe(run))}
        if dist >= hi_t + guard and (spec.get('exact') and dist > hi_t or dist >= hi_t * 10):
            return None if rejected(run) else {'what': 'input at distance %.3g from the class (tolerance %.3g) is not rejected: %s'
                                               % (float(dist), float(hi_t), describe(run))}
        return None
    if kind == 'eigen':
        M, lam = np.array(call['params'][0], dtype=complex), complex(call['params'][1])
        v = np.array(call['student'], dtype=complex)
        if v.shape != (M.shape[0],):
            return None
        Mv = M.dot(v)
        r = float(np.linalg.norm(Mv - lam * v))
        tol = tol_value(tolerance, float(np.linalg.norm(Mv)))
        vn = float(np.linalg.norm(v))
        if r >= 1000 * tol and r > 1e-9 * max(1.0, vn):
            return None if rejected(run) else {'what': '|Mv - lambda v| = %.3g is %.0f x the tolerance %.3g but the input is not rejected: %s'
                                               % (r, r / tol if tol else float('inf'), tol, describe(run))}
        return None
    if kind == 'span-nonmember':
        v = np.array(call['student'], dtype=complex)
        tol = tol_value(tolerance, float(np.linalg.norm(v)))
        if exp['dist'] >= 1000 * tol:
            if rejected(run):
                return None
            return {'what': 'vector at distance %.3g from the span (tolerance %.3g) is not rejected: %s' % (exp['dist'], tol, describe(run))}
        return None
    if kind == 'phase':
        t = np.array(call['params'][0], dtype=complex)
        v = np.array(call['student'], dtype=complex)
        if v.shape != t.shape:
            return None
        d2 = float(np.vdot(v, v).real + np.vdot(t, t).real - 2 * abs(np.vdot(t, v)))
        dist = math.sqrt(max(d2, 0.0))
        nt, nv = float(np.linalg.norm(t)), float(np.linalg.norm(v))
        tol_max = tol_value(tolerance, max(nt, nv))
        if dist >= 1000 * tol_max and dist > 1e-6 * max(nt, nv):
            return None if rejected(run) else {'what': 'vector at distance %.3g from the phase orbit of the target (tolerance %.3g) is not rejected: %s'
                                               % (dist, tol_max, describe(run))}
        return None
    if kind == 'entry':
        # which entries match is decided here from the recorded evaluations, entry by entry and sample by sample
        pc = exp['pc']
        try:
            Es = [np.array(p[0], dtype=complex).reshape(-1) for p in call['params']]
            Ss = [np.array(s_, dtype=complex).reshape(-1) for s_ in call['student']]
        except Exception:
            return None
        if not Es or any(e.shape != s_.shape for e, s_ in zip(Es, Ss)):
            return None
        n = len(Es[0])
        bad = 0
        for j in range(n):
            state = 'match'
            for e, s_ in zip(Es, Ss):
                d = abs(e[j] - s_[j])
                te = tol_value(tolerance, abs(e[j]))
                if d == 0 or (spec.get('exact') and d <= te) or d <= 0.5 * te:
                    continue
                if (spec.get('exact') and d > te) or (d >= 1000 * te and d > 1e-9 * max(1.0, abs(e[j]))):
                    state = 'bad'
                    break
                state = 'undecided'
            if state == 'undecided':
                return None
            bad += state == 'bad'
        if bad == 0:
            want = ag
        elif bad == n:
            want = 0
        elif pc == 'proportional':
            want = ag * (n - bad) / n
        else:
            want = ag * pc
        if run.status != 'ret' or abs(run.out.get('grade_decimal', -1) - want) > 1e-9 or (want == 0) != (run.out.get('ok') is False):
            return {'what': '%d of %d entries wrong (in at least one sample), entry_partial_credit=%r, answer grade %r: expected grade %r, %s'
                    % (bad, n, pc, ag, want, describe(run))}
        return None
    if kind == 'linear':
        return linear_oracle(spec, run)
    return None


def linear_oracle(spec, run):
    import numpy as np
    call = run.calls[-1]
    cfg = {'equals': 1.0, 'proportional': 0.5, 'offset': None, 'linear': None}
    cfg.update(spec['cmp'].get('cfg', {}))
    ag = spec.get('ag', 1)
    try:
        Es = [np.array(p[0], dtype=complex).reshape(-1) for p in call['params']]
        Ss = [np.array(s, dtype=complex).reshape(-1) for s in call['student']]
    except Exception:
        return None
    if len(Ss) < 3 or any(e.shape != s.shape for e, s in zip(Es, Ss)):
        return None
    E, S = np.concatenate(Es), np.concatenate(Ss)
    tolerance = spec['tolerance']
    tol = tol_value(tolerance, float(np.linalg.norm(S)))
    s_zero = bool(np.all(S == 0))
    e_zero = bool(np.all(E == 0))
    if not (s_zero or e_zero):
        # decisively nonzero: some student sample far above its own zero threshold
        far = any(np.linalg.norm(s) >= 1000 * tol_value(tolerance, float(np.linalg.norm(e))) and np.linalg.norm(s) > 0 for s, e in zip(Ss, Es))
        if not far:
            return None
    zero = s_zero or e_zero
    n = len(S)
    errs = {'equals': float(np.linalg.norm(S - E)),
            'offset': float(np.linalg.norm(S + np.mean(E - S) - E))}
    ss = float(np.vdot(S, S).real)
    if ss > 0:
        errs['proportional'] = float(np.linalg.norm(E - (np.vdot(S, E) / ss) * S))
    Sc, Ec = S - np.mean(S), E - np.mean(E)
    scc = float(np.vdot(Sc, Sc).real)
    if scc <= 1e-20 * max(ss, 1e-300):
        errs['linear'] = errs['offset']
    elif scc < 1e-6 * ss:
        return None                  # nearly constant student samples: lstsq's rank decision is a numerical matter
    else:
        errs['linear'] = float(np.linalg.norm(Ec - (np.vdot(Sc, Ec) / scc) * Sc))
    allowed = [m for m in ('equals', 'proportional', 'offset', 'linear') if cfg[m] is not None and (not zero or m in ('equals', 'offset'))]
    scale = max(float(np.linalg.norm(E)), float(np.linalg.norm(S)), 1e-300)
    holds = {}
    for m in allowed:
        if m not in errs:
            return None
        if errs[m] <= tol / 1000 and (tol > 0 or errs[m] == 0):
            holds[m] = True
        elif errs[m] >= 1000 * tol and errs[m] > 1e-9 * scale:
            holds[m] = False
        else:
            return None
    want = max([cfg[m] for m in allowed if holds[m]] + [0]) * ag
    if run.status == 'ret' and abs(run.out.get('grade_decimal', -1) - want) <= 1e-9:
        return None
    return {'what': 'relations that hold among configured modes %r (zero side: %r): %r with fit errors %r, tolerance %.3g; expected grade %r, %s'
            % (allowed, zero, sorted(m for m in holds if holds[m]), {k: float('%.3g' % v) for k, v in errs.items()}, tol, want, describe(run))}


# ------------------------------------------------------------------------------------------------
# driver API
# ------------------------------------------------------------------------------------------------
def lstsq_rank_unreliable(run):
    """LAPACK's rank decision at machine precision (rcond=-1) on exactly dependent columns is noise: sometimes full rank
    is reported, and then the coefficients are of order 1e15 and the residual is garbage.  Concerns LinearComparer's
    `rank == 1` test (columns [x, 1] with x exactly constant) and vector_span_comparer with exactly dependent spanning
    vectors.  Such runs are set aside and counted; the converse (rank reported too low) likewise."""
    import numpy as np
    for rec in run.lstsq:
        a, rank = rec[0], rec[3]
        k = a.shape[1]
        if k == 2 and np.all(a[:, 1] == 1):                       # LinearComparer's [x, 1]
            constant = bool(np.all(a[:, 0] == a[0, 0]))
            if constant != (rank == 1):
                return True
            nx = float(np.linalg.norm(a[:, 0]))
            if not constant and float(np.linalg.norm(a[:, 0] - np.mean(a[:, 0]))) < 1e-4 * nx:
                return True          # nearly constant samples: the fit is ill-conditioned, its residual is rounding noise
        elif k >= 2:
            dependent = params_dependent([a[:, j] for j in range(k)])
            if dependent != (rank < min(a.shape)) and dependent == (rank >= k):
                return True
            if dependent and rank >= k:
                return True
    return False


def zero_effective_tolerance(spec, run):
    """eigenvector_comparer with a percentage tolerance takes the percentage of |M v|: for an eigenvalue 0 that is zero up to
    rounding, so the verdict is decided by the rounding noise of M v itself (no tolerance scaling can guard it).  Inexact
    inputs in that regime are set aside and counted; exact-stream cases (integers, dyadics) stay in."""
    import numpy as np
    if spec['cmp']['name'] != 'eigen' or spec.get('exact') or not isinstance(spec['tolerance'], str) or not run.calls:
        return False
    try:
        c0 = run.calls[-1]
        v = np.array(c0['student'], dtype=complex)
        Mx = np.array(c0['params'][0], dtype=complex)
        if v.shape != (Mx.shape[0],):
            return False
        return float(np.linalg.norm(Mx.dot(v))) <= 1e-9 * float(np.linalg.norm(Mx)) * float(np.linalg.norm(v))
    except Exception:
        return False


def spec_key(spec):
    return '%s/%s/%s/tol=%s/%s' % (spec['grader'], json.dumps(spec['cmp'], sort_keys=True), '|'.join(spec['params']),
                                   spec['tolerance'], spec['student'])


def all_specs(ctx):
    rng = random.Random(7919 * ctx['seed'] + 16)
    quick = ctx['tier'] == 'quick'
    changed = ctx.get('fingerprints_changed') or []
    # a real source change (some, not all, mirrored functions differ from the recorded fingerprints) or a broken
    # obligation escalates the quick tier; "all differ" means no fingerprint has been recorded yet
    escalated = quick and (bool(ctx.get('broken')) or 0 < len(changed) < len(MIRRORED))
    mult = 10 if not quick else 3 if escalated else 1
    specs = corpus() + shape_grid() + transform_shape_stream(rng, 1 if quick and not escalated else 3)
    specs += gen_between(rng, 90 * mult)
    specs += gen_congruence(rng, 130 * mult)
    specs += gen_eigen(rng, 120 * mult)
    specs += gen_span(rng, 130 * mult)
    specs += gen_phase(rng, 100 * mult)
    specs += gen_entry(rng, 120 * mult)
    specs += gen_linear(rng, 140 * mult)
    specs += gen_equality(rng, 80 * mult)
    for i, s in enumerate(specs):
        s.setdefault('seed', (ctx['seed'] * 100003 + i) % (2 ** 31))
    return specs


def run(ctx):
    res = core.Result()
    res.rule = ('one case = one call of a real Formula/Numerical/MatrixGrader configured with the comparer; distinct by (grader, comparer '
                'configuration, comparer_params, tolerance, student input); trivial cases (comparer never reached because the parser '
                'refused the input) are not counted')
    specs = all_specs(ctx)
    terms, metas = [], []
    dist = {'by_comparer': {}, 'by_expectation': {}, 'tolerance_kinds': {'absolute': 0, 'percentage': 0}, 'exact_stream': 0,
            'not_expressible': 0, 'lstsq_calls': 0, 'lstsq_rank_deficient_reported': 0, 'outcomes': {}}
    plain = []
    for spec in specs:
        r = execute(spec)
        res.oracle_evals += 1
        name = spec['cmp']['name']
        dist['by_comparer'][name] = dist['by_comparer'].get(name, 0) + 1
        ek = str((spec.get('expect') or {}).get('kind'))
        dist['by_expectation'][ek] = dist['by_expectation'].get(ek, 0) + 1
        dist['tolerance_kinds']['percentage' if isinstance(spec['tolerance'], str) else 'absolute'] += 1
        dist['exact_stream'] += 1 if spec.get('exact') else 0
        dist['lstsq_calls'] += len(r.lstsq)
        dist['lstsq_rank_deficient_reported'] += sum(1 for l in r.lstsq if l[2].size == 0)
        oc = 'ok=%r' % (r.out.get('ok'),) if r.status == 'ret' else type(r.out).__name__
        dist['outcomes'][oc] = dist['outcomes'].get(oc, 0) + 1
        if name in ('linear', 'span', 'phase') and lstsq_rank_unreliable(r):
            dist['lstsq_rank_unreliable'] = dist.get('lstsq_rank_unreliable', 0) + 1
            continue
        if zero_effective_tolerance(spec, r):
            dist['zero_effective_tolerance'] = dist.get('zero_effective_tolerance', 0) + 1
            res.boundary += 1
            continue
        try:
            verdict = oracle(spec, r)
        except Exception as e:                                # the oracle itself must never break the run silently
            verdict = None
            res.notes.append('oracle error on %s: %r' % (spec_key(spec), e))
        if verdict:
            w = {'key': spec_key(spec), 'kind': name, 'what': verdict['what'],
                 'spec': {k: v for k, v in spec.items()}, 'observed': describe(r)}
            plain.append(w)
        if r.calls:
            res.nontrivial.add(spec_key(spec))
        try:
            terms.append(case_term(spec, r))
            metas.append(spec)
        except Unrepresentable as e:
            dist['not_expressible'] += 1
        if len(res.samples) < 6 and r.calls and name not in [s.get('comparer') for s in res.samples]:
            res.samples.append({'comparer': name, 'grader': spec['grader'], 'comparer_params': spec['params'],
                                'tolerance': spec['tolerance'], 'student_input': spec['student'], 'implementation': describe(r),
                                'oracle_expectation': spec.get('expect')})
    # --- shared comparer objects: every grader must behave as its own configuration says, whatever ran before
    groups = shared_histories(random.Random(104729 * ctx['seed'] + 61))
    dist['shared_comparer_groups'] = len(groups)
    dist['shared_comparer_runs'] = 0
    for gi, group in enumerate(groups):
        runs = run_group(group)
        for j, (spec, r) in enumerate(zip(group['specs'], runs)):
            res.oracle_evals += 1
            dist['shared_comparer_runs'] += 1
            name = spec['cmp']['name']
            if name in ('linear', 'span', 'phase') and lstsq_rank_unreliable(r):
                continue
            gw = {'cmp': group['cmp'], 'route': group['route'], 'specs': group['specs']}
            try:
                verdict = oracle(spec, r)
            except Exception as e:
                verdict = None
                res.notes.append('oracle error on shared group %d/%d: %r' % (gi, j, e))
            if verdict:
                plain.append({'key': 'shared:%s#%d:%s' % (json.dumps(group['cmp'], sort_keys=True), j, spec_key(spec)), 'kind': 'shared-' + name,
                              'what': 'with a comparer object shared by several graders (%d earlier uses): %s' % (j, verdict['what']),
                              'group': gw, 'index': j, 'observed': describe(r)})
            fresh = execute(spec)
            if outcome_key(fresh) != outcome_key(r):
                plain.append({'key': 'history:%s#%d:%s' % (json.dumps(group['cmp'], sort_keys=True), j, spec_key(spec)), 'kind': 'history',
                              'what': 'the same grader and input give a different result when the comparer object was used by %d other '
                                      'grader(s) before: %s, but on a fresh comparer %s' % (j, describe(r), describe(fresh)),
                              'group': gw, 'index': j, 'observed': describe(r)})
            res.nontrivial.add('shared:%d:%d:' % (gi, j) + spec_key(spec))
            try:
                terms.append(case_term(spec, r))
                metas.append(spec)
            except Unrepresentable:
                dist['not_expressible'] += 1
    # --- one configuration dict object, several graders
    drng = random.Random(15485863 * ctx['seed'] + 5)
    entry_specs = [sp for sp in specs if sp['cmp']['name'] == 'entry' and (sp.get('expect') or {}).get('kind') == 'entry']
    others = [sp for sp in specs if sp['cmp']['name'] != 'entry' and sp.get('route', 'explicit') == 'explicit']
    chosen = drng.sample(entry_specs, min(len(entry_specs), 40 if ctx['tier'] == 'quick' else 200)) + \
        drng.sample(others, min(len(others), 40 if ctx['tier'] == 'quick' else 200))
    dist['dict_form_cases'] = len(chosen)
    for sp in chosen:
        sp = dict(sp)
        if sp['cmp']['name'] == 'entry' and drng.random() < 0.5:
            sp['entry_partial_msg'] = drng.choice(['Check the marked entries: {error_locations}', 'Some entries are off.', ''])
            if sp['entry_partial_msg'] != MatrixEntryDefaultMsg():
                sp['cmp'] = {'name': 'entry', 'cfg': dict(sp['cmp'].get('cfg', {}), entry_partial_msg=sp['entry_partial_msg'])}
        res.oracle_evals += 1
        try:
            complaints = dict_form_checks(sp)
        except Exception as e:
            complaints = []
            res.notes.append('dict-form check error on %s: %r' % (spec_key(sp), e))
        for c in complaints:
            plain.append({'key': 'dictform:' + spec_key(sp), 'kind': 'dict-form', 'what': c, 'spec': sp})
    # --- perturb-then-probe: everything above was the perturbation; the probes must behave as in a fresh interpreter
    probes = probe_specs()
    here = [outcome_key(execute(sp)) for sp in probes]
    fresh, err = fresh_outcomes(probes)
    res.oracle_evals += len(probes)
    dist['probes_against_fresh_interpreter'] = len(probes)
    if fresh is None or len(fresh) != len(probes):
        res.corr_errors.append(('fresh-interpreter probe run', err or 'wrong number of outcomes'))
    else:
        for sp, a, b in zip(probes, here, fresh):
            if a != b:
                plain.append({'key': 'probe:' + spec_key(sp), 'kind': 'probe',
                              'what': 'after the run\'s history the case gives %r, in a fresh interpreter %r' % (a, b),
                              'spec': sp, 'tier': ctx['tier'], 'run_seed': ctx['seed']})
    res.witnesses = plain
    res.distribution = dist
    shard = max(40, (len(terms) + 15) // 16)
    n, failing, boundary, errors = eval_cases('c16', terms, shard)
    res.programs = n
    res.boundary += len(boundary)
    res.corr_errors += errors
    for i in failing:
        sp = metas[i]
        res.disagreements.append({'kind': sp['cmp']['name'], 'spec': {k: v for k, v in sp.items()},
                                  'what': 'model and implementation differ (or a recorded lstsq residual contradicts its specification)'})
    dist['boundary_guarded'] = len(boundary)
    return res


def replay(w):
    if 'group' in w:
        group, j = w['group'], w['index']
        runs = run_group(group)
        spec, r = group['specs'][j], runs[j]
        fresh = execute(spec)
        verdict = oracle(spec, r)
        text = ('C16 replay (comparer object %s shared by %d graders, this is use #%d): %s params=%r tolerance=%r student=%r -> %s; '
                'on a fresh comparer object -> %s' % (json.dumps(group['cmp']), len(group['specs']), j + 1, spec['grader'],
                                                      spec['params'], spec['tolerance'], spec['student'], describe(r), describe(fresh)))
        if verdict or outcome_key(fresh) != outcome_key(r):
            return True, text + '\n  violates the property' + (': ' + verdict['what'] if verdict else ' (history dependence)')
        return False, text + '\n  no complaint on the current tree'
    if w.get('kind') == 'dict-form':
        complaints = dict_form_checks(w['spec'])
        text = 'C16 replay (one configuration dict, several graders): %s params=%r student=%r' % (json.dumps(w['spec']['cmp']), w['spec']['params'], w['spec']['student'])
        return bool(complaints), text + ('\n  ' + '; '.join(complaints) if complaints else '\n  no complaint on the current tree')
    if w.get('kind') == 'probe':
        for sp in all_specs({'tier': w.get('tier', 'quick'), 'seed': w.get('run_seed', 0)}):
            execute(sp)
        for group in shared_histories(random.Random(104729 * w.get('run_seed', 0) + 61)):
            run_group(group)
        a = outcome_key(execute(w['spec']))
        fresh, err = fresh_outcomes([w['spec']])
        text = 'C16 replay (probe after the run history): %r -> %r; fresh interpreter -> %r' % (w['spec']['student'], a, fresh)
        return (fresh is not None and a != fresh[0]), text
    spec = w['spec']
    r = execute(spec)
    verdict = oracle(spec, r)
    text = 'C16 replay: %s %s params=%r tolerance=%r student=%r -> %s' % (
        spec['grader'], json.dumps(spec['cmp']), spec['params'], spec['tolerance'], spec['student'], describe(r))
    if verdict:
        return True, text + '\n  violates the property: ' + verdict['what']
    return False, text + '\n  the oracle has no complaint on the current tree'


def classify_known(w, known_entries):
    """No C16 finding remains known: every witness is a violation to be reported."""
    return None


LEVEL_TEXT = ('Theorems over exact (Gaussian-rational) arithmetic for all vector lengths, numbers of vectors, moduli and tolerances, of the '
              'code as repaired: between (iff), congruence (iff: equal to the target modulo the modulus within tolerance; shift invariance, '
              'exact members), eigenvector (iff, exact class at zero tolerance, members under any rescaling, scale invariance for percentage '
              'tolerances), least squares (the documented residual is the minimum distance to the complex span and is attained by explicit '
              'coefficients; rank <= dimension; full rank spans everything), span (iff for EVERY family of spanning vectors under lstsq\'s '
              'contract, soundness unconditionally, members), phase (exact class at zero tolerance, members, soundness), MatrixEntryComparer '
              '(entry diagram, three-way credit rule, full/zero iff), LinearComparer (best configured mode among those that hold, the meaning '
              'of the four relations for complex samples, zero rule incl. totality), shape-mismatch policy for every shape-validating comparer.')
LEVEL_NOTE = ('Partial where stated: phase "within tolerance" is soundness + completeness for exact members + exactness at zero tolerance. '
              'Span/phase completeness assumes lstsq returns a minimiser (checked on every recorded call; LAPACK rank noise on exactly '
              'dependent columns is set aside and counted). Least-squares numerics, IEEE rounding and numpy are oracles/modelled; trusted: '
              'Coq kernel, harness/props/c16.py, translate/comparers.py; no axioms.')
TECHNIQUE = ('Coq proof (Q / Gaussian rationals, Gram-Schmidt minimality by orthogonality, lra/nra/field) + vm_compute differential '
             'correspondence on recorded comparer and lstsq I/O + source-to-Gallina translator for the declarative fragments')
DESIGN_REF = 'DESIGN.md section 3, C16; section 5 rows C16'
