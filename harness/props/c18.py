"""C18 -- StringGrader matches exactly the inputs equal after the configured cleaning.

Tie (A): Gen/StrGrader.v is regenerated from mitxgraders/stringgrader.py (clean_input, construct_message, check_response,
__call__) on every run and Bridge/StrGrader.v proves it equal to the model the theorems are about.
Tie (B): the regenerated definitions, the hand-written call path (ItemGrader.__call__/check for one answer) and the regex
model (parser from pattern text + matcher) are evaluated INSIDE Coq on the inputs the implementation ran; the
implementation's outputs are embedded in the case terms.
Oracle: an independent normaliser written from the property text + re.fullmatch, applied to grader(None, submission).
"""
import itertools
import random
import re

from harness import core
from harness.core import qlit, zlit, listlit, boollit, optlit, strlit
from translate import strgrader as tr_strgrader

ID = 'C18'
PROPS = 'Props/C18.v'
TRANSLATORS = [('Gen/StrGrader.v', tr_strgrader.generate)]
MIRRORED = [('mitxgraders/stringgrader.py', 'StringGrader.clean_input'),
            ('mitxgraders/stringgrader.py', 'StringGrader.construct_message'),
            ('mitxgraders/stringgrader.py', 'StringGrader.check_response'),
            ('mitxgraders/stringgrader.py', 'StringGrader.__call__'),
            ('mitxgraders/baseclasses.py', 'ItemGrader.__call__'),
            ('mitxgraders/baseclasses.py', 'ItemGrader.check'),
            ('mitxgraders/baseclasses.py', 'AbstractGrader.__call__')]
REFUTED = []
TRUSTED = [
    'translator translate/strgrader.py (typed, white-listed Python ast -> Gallina; fails closed)',
    'correspondence harness harness/props/c18.py: strings enter Coq as code-point lists, grades as exact rationals; '
    'agreement (verdict, grade, message text, error class) is decided inside Coq',
    'modelled, not verified: str.lower()/str.isspace() and the re classes \\d \\w \\s as per-character tables recorded from '
    'the running Python for the characters of each case (the hypotheses the theorems put on the tables are checked by '
    'the harness over all of Unicode on every run); Python re is replaced by the regex model of Model/StrRegex.v '
    '(parser from pattern text + existence-of-match semantics), compared with re.match/re.fullmatch on every run',
    'ItemGrader.__call__/check are modelled for grader(None, s) with at most one configured answer, debug off, '
    'default wrong_msg and no attempt-based credit; the text of ConfigError messages is not modelled',
]
ASSUMPTIONS = [
    'str.lower() acts character by character (true for every code point except U+03A3 in final position; strings where '
    'it does not are excluded from the cases and counted)',
    'tables: whitespace characters are fixed by lower(), lower() of a non-whitespace character contains no whitespace, '
    'lower() is idempotent per character (checked over all code points on every run)',
    'min_length and min_words are non-negative integers (schema NonNegative(int))',
    'validation theorems speak about patterns inside the modelled regex subset',
]

HEADER = ('From Coq Require Import ZArith QArith List Bool.\n'
          'From Verif.Model Require Import Result StrGrader StrRegex.\n'
          'From Verif.Gen Require StrGrader.\nImport ListNotations.\nOpen Scope Z_scope.\n'
          '(* strings are written as ONE number (little-endian base 2^21 digits = code point + 1): parsing long lists of\n'
          '   small numerals dominates the run time otherwise *)\n'
          'Fixpoint unpack_go (fuel : nat) (n : Z) : list Z :=\n'
          '  match fuel with O => [] | S k => (Z.land n 2097151 - 1) :: unpack_go k (Z.shiftr n 21) end.\n'
          'Definition S_ (len : nat) (n : Z) : str := unpack_go len n.\n')

AGREE_DEFS = r'''
Fixpoint assocz (c : Z) (l : list (Z * list Z)) : option (list Z) :=
  match l with [] => None | (k, v) :: r => if c =? k then Some v else assocz c r end.
Fixpoint memz (c : Z) (l : list Z) : bool := match l with [] => false | k :: r => (c =? k) || memz c r end.
Definition T : tables :=
  mkTables (fun c => match assocz c lower_tab with Some v => v | None => [c] end)
           (fun c => memz c space_tab) (fun c => memz c digit_tab) (fun c => memz c word_tab).

Definition flags_cfg (f : bool * bool * bool * bool) : config :=
  match f with (cs, st, sa, csp) => mkConfig false cs st sa csp false false 0 0 ExErr None ExErr [] end.
Definition clean_case (c : (bool * bool * bool * bool) * str * str) : bool :=
  match c with (f, s, o) => str_eqb (Gen.StrGrader.gen_clean_input T (flags_cfg f) s) o end.

Inductive obs := ORet (ok : okv) (g : Q) (m : str) | OInvalid (m : str) | OConfig | OOther.
Definition outcome_agree (o : outcome) (b : obs) : bool :=
  match o, b with
  | Ret e, ORet ok g m => okv_eqb (e_ok e) ok && Qeq_bool (e_grade e) g && str_eqb (e_msg e) m
  | RaiseInvalid m, OInvalid m' => str_eqb m m'
  | RaiseConfig, OConfig => true
  | _, _ => false
  end.
Definition pattern_ok (cfg : config) : bool :=
  match cfg_validation_pattern cfg with
  | None => true
  | Some p => pattern_supported p
  end.
(* grader(None, s): StringGrader.__call__ (regenerated) -> ItemGrader.__call__/check (model) -> check_response (regenerated) *)
Definition gen_call (cfg : config) (configured : option (str * entry)) (s : str) : outcome :=
  let answer := match Gen.StrGrader.gen_call_expect cfg None, configured with
                | Some e, None => Some (e, inferred_answer)
                | _, _ => configured
                end in
  match answer with
  | None => RaiseConfig
  | Some (e, a) => Gen.StrGrader.gen_check_response T (re_match_text T) (re_fullmatch_text T) cfg a e s
  end.
Definition call_case (c : config * option (str * entry) * str * obs) : bool :=
  match c with (cfg, conf, s, o) => pattern_ok cfg && outcome_agree (gen_call cfg conf s) o end.
(* grader.check_response(answer, s) called directly (debug on/off, partial-credit answers) *)
Definition cr_case (c : config * (str * entry) * str * obs) : bool :=
  match c with (cfg, (e, a), s, o) =>
    pattern_ok cfg && outcome_agree (Gen.StrGrader.gen_check_response T (re_match_text T) (re_fullmatch_text T) cfg a e s) o end.
(* the regex model against re.match / re.fullmatch *)
Definition regex_case (c : str * str * bool * bool) : bool :=
  match c with (p, s, m, fm) =>
    pattern_supported p && Bool.eqb (re_match_text T p s) m && Bool.eqb (re_fullmatch_text T p s) fm end.
'''

FLAGS = list(itertools.product([False, True], repeat=4))        # case_sensitive, strip, strip_all, clean_spaces
FLAG_NAMES = ('case_sensitive', 'strip', 'strip_all', 'clean_spaces')


# ------------------------------------------------------------------------------------------------
# the property, written independently of the implementation
# ------------------------------------------------------------------------------------------------
def tokenisations(s):
    """All readings of s as a sequence of symbols where CRLF and LFCR are single line breaks.  A reading never leaves
    a CR next to an LF as two separate line breaks (they would be one CRLF / LFCR); which neighbours pair up in a longer
    run of alternating CR/LF is not fixed by the property, so every such pairing is admitted."""
    out = []

    def go(i, prev_single, acc):
        if i == len(s):
            out.append(acc)
            return
        c = s[i]
        if c in '\r\n':
            if i + 1 < len(s) and s[i + 1] in '\r\n' and s[i + 1] != c:
                go(i + 2, None, acc + [' '])
            if prev_single is None or prev_single == c:
                go(i + 1, c, acc + [' '])
        elif c == '\t':
            go(i + 1, None, acc + [' '])
        else:
            go(i + 1, None, acc + [c])
    go(0, None, [])
    return out


def is_ws(c):
    return c.isspace()


def normal_forms(flags, s):
    """set of strings the property allows as 'the input after the configured normalisation'"""
    case_sensitive, strip, strip_all, clean_spaces = flags
    res = set()
    for toks in tokenisations(s):
        x = list(toks)
        if not case_sensitive:
            x = [d for c in x for d in c.lower()]
        if strip:
            while x and is_ws(x[0]):
                x.pop(0)
            while x and is_ws(x[-1]):
                x.pop()
        if clean_spaces:
            y = []
            for c in x:
                if c == ' ' and y and y[-1] == ' ':
                    continue
                y.append(c)
            x = y
        if strip_all:
            x = [c for c in x if c != ' ']
        res.add(''.join(x))
    return res


def word_count(x):
    n, inword = 0, False
    for c in x:
        if is_ws(c):
            inword = False
        elif not inword:
            inword = True
            n += 1
    return n


def lower_is_charwise(s):
    return ''.join(c.lower() for c in s) == s.lower()


def top_level_bar(p):
    depth, i, incls = 0, 0, False
    while i < len(p):
        c = p[i]
        if c == '\\':
            i += 2
            continue
        if incls:
            if c == ']':
                incls = False
        elif c == '[':
            incls = True
            if i + 1 < len(p) and p[i + 1] == '^':
                i += 1
            if i + 1 < len(p) and p[i + 1] == ']':
                i += 1
        elif c == '(':
            depth += 1
        elif c == ')':
            depth -= 1
        elif c == '|' and depth == 0:
            return True
        i += 1
    return False


def demand(case):
    """What the property demands of grader(None, sub) for this case.
    Returns ('accept',) | ('refuse', how) | ('skip', why);  how in 'silent' | 'msg' | 'err'."""
    kw, sub = case['config'], case['sub']
    flags = tuple(kw.get(k, d) for k, d in zip(FLAG_NAMES, (True, True, False, True)))
    texts = [sub] + ([case['expect']] if case.get('expect') is not None else [])
    if not flags[0] and not all(lower_is_charwise(t) for t in texts):
        return ('skip', 'context-sensitive lower()')
    S = normal_forms(flags, sub)
    pattern = kw.get('validation_pattern')
    if pattern is not None:
        fm = {re.fullmatch(pattern, x) is not None for x in S}
        if len(fm) > 1:
            return ('skip', 'line-break reading changes the validation verdict')
        if fm == {False}:
            return ('refuse', {'err': 'err', 'msg': 'msg', None: 'silent'}[kw.get('explain_validation', 'err')])
    accept_mode = kw.get('accept_any', False) or kw.get('accept_nonempty', False)
    if not accept_mode:
        E = normal_forms(flags, case['expect'])
        if len(E) == 1 and len(S) == 1:
            return ('accept',) if E == S else ('refuse', 'silent')
        if not (E & S):
            return ('refuse', 'silent')
        return ('skip', 'line-break reading changes the comparison')
    L = kw.get('min_length', 0)
    if kw.get('accept_nonempty', False):
        L = max(L, 1)
    W = kw.get('min_words', 0)
    verdicts = {len(x) >= L and word_count(x) >= W for x in S}
    if len(verdicts) > 1:
        return ('skip', 'line-break reading changes the minimums verdict')
    if verdicts == {True}:
        return ('accept',)
    return ('refuse', {'err': 'err', 'msg': 'msg', None: 'silent'}[kw.get('explain_minimums', 'err')])


_GRADERS = {}


def observe(case):
    """run grader(None, sub) on the implementation; canonical observation"""
    from mitxgraders import StringGrader
    from mitxgraders.exceptions import InvalidInput, ConfigError
    kw = dict(case['config'])
    if case.get('expect') is not None:
        kw['answers'] = case['expect']
    key = repr(sorted(kw.items(), key=repr))
    g = _GRADERS.get(key)
    if g is None:
        st, g = core.guarded(StringGrader, **kw)
        if st != 'ret':
            return ('construct-failed', repr(g))
        if len(_GRADERS) > 64:
            _GRADERS.clear()
        _GRADERS[key] = g
    st, out = core.guarded(g, None, case['sub'])
    if st == 'ret':
        if isinstance(out, dict) and set(out) == {'ok', 'grade_decimal', 'msg'}:
            return ('ret', out['ok'], out['grade_decimal'], out['msg'])
        return ('other', repr(out))
    if st == 'exc' and isinstance(out, InvalidInput):
        return ('invalid', str(out))
    if st == 'exc' and isinstance(out, ConfigError):
        return ('config', str(out))
    return ('other', '%s: %r' % (st, out))


def judge(case, obs):
    """None if obs is what the property demands, else a description"""
    d = demand(case)
    if d[0] == 'skip':
        return None, d
    if d[0] == 'accept':
        ok = obs[0] == 'ret' and obs[1] is True and obs[2] == 1
        return (None if ok else 'must be accepted (equal after cleaning / minimums met / pattern matched) but got %r' % (obs,)), d
    how = d[1]
    if how == 'err':
        ok = obs[0] == 'invalid'
    elif how == 'msg':
        ok = obs[0] == 'ret' and obs[1] is False and obs[2] == 0 and obs[3] != ''
    else:
        ok = obs[0] == 'ret' and obs[1] is False and obs[2] == 0 and obs[3] == ''
    names = {'err': 'an InvalidInput error', 'msg': 'ok=False with a message', 'silent': 'ok=False without message'}
    return (None if ok else 'must be refused with %s but got %r' % (names[how], obs)), d


def witness(case, obs, what, d):
    w = {'key': 'call:%r/%r/%r' % (sorted(case['config'].items(), key=repr), case.get('expect'), case['sub']),
         'kind': case['kind'], 'config': case['config'], 'expect': case.get('expect'), 'sub': case['sub'],
         'observed': list(obs), 'demanded': list(d), 'what': what}
    return w


# ------------------------------------------------------------------------------------------------
# Coq terms
# ------------------------------------------------------------------------------------------------
def slit(s):
    """a Python str as a Coq term of type str (list of code points), packed into one hexadecimal numeral"""
    if s == '':
        return '(@nil Z)'
    n = 0
    for i, c in enumerate(s):
        n += (ord(c) + 1) << (21 * i)
    return '(S_ %d%%nat 0x%x)' % (len(s), n)


def okterm(ok):
    return {True: 'OkTrue', False: 'OkFalse', 'partial': 'OkPartial'}[ok]


def exterm(x):
    return {'err': 'ExErr', 'msg': 'ExMsg', None: 'ExNone'}[x]


def cfg_term(kw):
    g = kw.get
    return ('(mkConfig %s %s %s %s %s %s %s %s %s %s %s %s %s)' %
            (boollit(g('debug', False)), boollit(g('case_sensitive', True)), boollit(g('strip', True)),
             boollit(g('strip_all', False)), boollit(g('clean_spaces', True)), boollit(g('accept_any', False)),
             boollit(g('accept_nonempty', False)), zlit(g('min_length', 0)), zlit(g('min_words', 0)),
             exterm(g('explain_minimums', 'err')),
             '(@None str)' if g('validation_pattern') is None else '(Some %s)' % slit(g('validation_pattern')),
             exterm(g('explain_validation', 'err')), slit(g('invalid_msg', 'Your input is not in the expected format'))))


def obs_term(obs):
    if obs[0] == 'ret' and obs[1] in (True, False, 'partial'):
        return '(ORet %s %s %s)' % (okterm(obs[1]), qlit(obs[2]), slit(obs[3]))
    if obs[0] == 'invalid':
        return '(OInvalid %s)' % slit(obs[1])
    if obs[0] == 'config':
        return 'OConfig'
    return 'OOther'


def tables_header(texts):
    """the per-character oracles, recorded from the running Python for every character that occurs"""
    chars = sorted(set(''.join(texts)) | set(' \t\r\n'))
    extra = set()
    for c in chars:
        extra |= set(c.lower())
    chars = sorted(set(chars) | extra)
    lower = ['(%s, %s)' % (zlit(ord(c)), slit(c.lower())) for c in chars if c.lower() != c]
    space = [zlit(ord(c)) for c in chars if c.isspace()]
    digit = [zlit(ord(c)) for c in chars if re.fullmatch(r'\d', c)]
    word = [zlit(ord(c)) for c in chars if re.fullmatch(r'\w', c)]
    return ('Definition lower_tab : list (Z * list Z) := %s.\nDefinition space_tab : list Z := %s.\n'
            'Definition digit_tab : list Z := %s.\nDefinition word_tab : list Z := %s.\n'
            % (listlit(lower), listlit(space), listlit(digit), listlit(word)))


def check_unicode_tables(res):
    """the hypotheses the theorems put on the tables, checked on every code point of the running Python"""
    bad = {'space_not_fixed_by_lower': [], 'lower_creates_space': [], 'lower_not_idempotent': [], 'lower_context_sensitive': []}
    for cp in range(0x110000):
        if 0xD800 <= cp <= 0xDFFF:
            continue
        c = chr(cp)
        lo = c.lower()
        if c.isspace():
            if lo != c:
                bad['space_not_fixed_by_lower'].append(cp)
        elif any(d.isspace() for d in lo):
            bad['lower_creates_space'].append(cp)
        if lo != c and any(d.lower() != d for d in lo):
            bad['lower_not_idempotent'].append(cp)
        if lo != c and (('a' + c).lower() != 'a' + lo or (c + 'a').lower() != lo + 'a'):
            bad['lower_context_sensitive'].append(cp)
    res.distribution['unicode_table_check'] = {k: [hex(x) for x in v[:10]] for k, v in bad.items()}
    for k in ('space_not_fixed_by_lower', 'lower_creates_space', 'lower_not_idempotent'):
        if bad[k]:
            res.notes.append('table hypothesis %s fails for code points %s of this Python' % (k, [hex(x) for x in bad[k][:10]]))
    if bad['lower_context_sensitive'] != [0x3A3]:
        res.notes.append('context-sensitive lower() beyond U+03A3: %s' % [hex(x) for x in bad['lower_context_sensitive'][:10]])
    for c in '\t\n\r ':
        assert c.isspace()


# ------------------------------------------------------------------------------------------------
# generators (all randomness from the rng handed in)
# ------------------------------------------------------------------------------------------------
LETTERS = list('abzABZ')
DIGITS = list('019')
PUNCT = list('.,!?-_()*+|^$\\[]\'"/:;=<>{}#%&@~`')
NONASCII = list('éÉñÑöÖßжЖλΛ中İ')
BREAKS = ['\t', '\r', '\n', '\r\n', '\n\r']
EXOTIC_WS = ['\x0b', '\x0c', '\x1f', '\x85', '\xa0', ' ', '　']


def gen_symbols(rng, maxlen=8, exotic=False):
    n = rng.choice([0, 1, 1, 2, 3, 3, 4, 5, 6, maxlen])
    out = []
    for _ in range(n):
        r = rng.random()
        if r < 0.22:
            out.append(' ')
        elif r < 0.36:
            out.append(rng.choice(BREAKS))
        elif r < 0.60:
            out.append(rng.choice(LETTERS))
        elif r < 0.70:
            out.append(rng.choice(DIGITS))
        elif r < 0.82:
            out.append(rng.choice(PUNCT))
        elif exotic and r < 0.90:
            out.append(rng.choice(EXOTIC_WS))
        else:
            out.append(rng.choice(NONASCII))
    return out


def edits(rng, sym, k):
    """k edits of the symbol list: whitespace inserted/deleted at the ends or inside, case changed, one non-space
    character changed, a space doubled; plus the identity"""
    out = [('same', list(sym))]
    ws = [' ', ' ', '  '] + BREAKS
    kinds = ['ins-start', 'ins-end', 'ins-inside', 'del-ws', 'case', 'change', 'double-space', 'two', 'unrelated']
    for _ in range(k):
        kind = rng.choice(kinds)
        s = list(sym)
        for _rep in range(2 if kind == 'two' else 1):
            kk = rng.choice(kinds[:7]) if kind == 'two' else kind
            if kk == 'ins-start':
                s = [rng.choice(ws)] + s
            elif kk == 'ins-end':
                s = s + [rng.choice(ws)]
            elif kk == 'ins-inside' and s:
                i = rng.randrange(len(s) + 1)
                s = s[:i] + [rng.choice(ws)] + s[i:]
            elif kk == 'del-ws':
                idx = [i for i, c in enumerate(s) if c.strip() == '']
                if idx:
                    del s[rng.choice(idx)]
            elif kk == 'case':
                idx = [i for i, c in enumerate(s) if c.swapcase() != c and len(c.swapcase()) == 1]
                if idx:
                    i = rng.choice(idx)
                    s[i] = s[i].swapcase()
            elif kk == 'change':
                idx = [i for i, c in enumerate(s) if c.strip() != '']
                if idx:
                    i = rng.choice(idx)
                    s[i] = rng.choice([c for c in LETTERS + DIGITS + PUNCT + NONASCII if c != s[i]])
            elif kk == 'double-space':
                idx = [i for i, c in enumerate(s) if c == ' ']
                if idx:
                    i = rng.choice(idx)
                    s = s[:i] + [' '] + s[i:]
            elif kk == 'unrelated':
                s = gen_symbols(rng)
        out.append((kind, s))
    return out


CORPUS_PAIRS = [            # (expect, submission) kept from development: boundary shapes of every cleaning step
    ('a b', 'a\tb'), ('a b', 'a\r\nb'), ('a b', 'a\n\rb'), ('a  b', 'a\r\rb'), ('a  b', 'a\n\nb'), ('a b', 'a \tb'),
    ('a b', 'a  b'), ('a b', ' a b '), ('a b', 'ab'), ('ab', 'a b'), ('a b', 'A B'), ('é', 'É'), ('ß', 'SS'), ('i̇', 'İ'),
    ('a', 'a\n'), ('a', '\r\na'), ('', ' '), ('', ''), (' ', ''), ('a', 'b'), ('a.b', 'a,b'), ('a b', 'a\tb\t'),
    ('a\r\nb', 'a\n\rb'), ('a  b', 'a\r\n\rb'), ('a   b', 'a\n\r\n\rb'), ('a  b', 'a\n\r\n\rb'), ('a b', 'a\r\n \tb'),
    ('Hello  World', 'hello world'), ('x', ' x'), ('x', 'x '), ('x y', 'x\ty'), ('x y', 'x \t y'), ('中', '中 '),
]


# ------------------------------------------------------------------------------------------------
# streams
# ------------------------------------------------------------------------------------------------
def emit(cases, res, tag, agree, shard):
    """cases: list of (term, texts, meta).  Evaluates in Coq, fills res."""
    if not cases:
        return
    texts = [t for c in cases for t in c[1]]
    header = HEADER + tables_header(texts) + AGREE_DEFS
    n, failing, errors = core.eval_agreement(tag, header, agree, [c[0] for c in cases], shard=shard)
    res.programs += n
    res.corr_errors += errors
    for i in failing:
        res.disagreements.append({'kind': tag, 'case': cases[i][2]})


def run_clean(ctx, res, rng, scale):
    """trace level: clean_input under all 16 flag combinations (includes exotic whitespace)"""
    from mitxgraders import StringGrader
    n = int(60 * scale)
    strings = [a for p in CORPUS_PAIRS for a in p]
    strings += [''.join(gen_symbols(rng, exotic=(i % 3 == 0))) for i in range(n)]
    strings = sorted(set(strings))
    cases = []
    for flags in FLAGS:
        g = StringGrader(**dict(zip(FLAG_NAMES, flags)))
        for s in strings:
            if not flags[0] and not lower_is_charwise(s):
                res.distribution['excluded_context_sensitive_lower'] = res.distribution.get('excluded_context_sensitive_lower', 0) + 1
                continue
            st, out = core.guarded(g.clean_input, s)
            if st != 'ret' or not isinstance(out, str):
                res.witnesses.append({'key': 'clean:%r/%r' % (flags, s), 'kind': 'clean', 'flags': list(flags), 'sub': s,
                                      'what': 'clean_input failed: %r' % (out,)})
                continue
            term = '((%s), %s, %s)' % (', '.join(boollit(b) for b in flags), slit(s), slit(out))
            cases.append((term, [s, out], {'flags': list(flags), 'input': s, 'impl': out}))
            if out != s:
                res.nontrivial.add(('clean', flags, s))
    res.distribution['clean_cases'] = len(cases)
    res.samples.append({'clean_input': cases[len(cases) // 2][2]})
    emit(cases, res, 'c18_clean', 'clean_case', shard=max(200, len(cases) // 12 + 1))


def add_call(case, res, cases, stats):
    obs = observe(case)
    res.oracle_evals += 1
    what, d = judge(case, obs)
    stats[d[0] if d[0] != 'refuse' else 'refuse-' + d[1]] = stats.get(d[0] if d[0] != 'refuse' else 'refuse-' + d[1], 0) + 1
    if what:
        res.witnesses.append(witness(case, obs, what, d))
    texts = [case['sub'], case.get('expect') or '', case['config'].get('validation_pattern') or '',
             case['config'].get('invalid_msg', '')]
    if obs[0] in ('ret', 'invalid'):
        texts.append(obs[-1] if isinstance(obs[-1], str) else '')
    if not case['config'].get('case_sensitive', True) and not all(lower_is_charwise(t) for t in texts[:2]):
        stats['excluded_context_sensitive_lower'] = stats.get('excluded_context_sensitive_lower', 0) + 1
        return obs
    conf = '(@None (str * entry))' if case.get('expect') is None else '(Some (%s, inferred_answer))' % slit(case['expect'])
    term = '(%s, %s, %s, %s)' % (cfg_term(case['config']), conf, slit(case['sub']), obs_term(obs))
    cases.append((term, texts, {'config': case['config'], 'expect': case.get('expect'), 'sub': case['sub'],
                                'impl': list(obs)}))
    if d[0] != 'skip':
        res.nontrivial.add((case['kind'], repr(sorted(case['config'].items(), key=repr)), case.get('expect'), case['sub']))
    return obs


def run_match(ctx, res, rng, scale):
    """normal mode: expected string x edits x all 16 flag combinations"""
    cases, stats = [], {}
    n_expect = int(10 * scale)
    expects = [gen_symbols(rng) for _ in range(n_expect)]
    for flags in FLAGS:
        kw = dict(zip(FLAG_NAMES, flags))
        for e, s in CORPUS_PAIRS:
            add_call({'kind': 'match', 'config': kw, 'expect': e, 'sub': s}, res, cases, stats)
        for sym in expects:
            e = ''.join(sym)
            for kind, s in edits(rng, sym, 7):
                add_call({'kind': 'match', 'config': kw, 'expect': e, 'sub': ''.join(s)}, res, cases, stats)
    res.distribution['match_calls'] = dict(stats)
    res.samples.append({'match_call': cases[len(cases) // 3][2]})
    emit(cases, res, 'c18_match', 'call_case', shard=max(200, len(cases) // 12 + 1))


def run_small_scope(ctx, res, rng, scale):
    """exhaustive: every string of length <= n over {a, A, space, tab, CR, LF} as submission, under all 16 flag
    combinations, against (i) its own normal form as expected string and (ii) the normal form of another string of the scope"""
    n = 4 if (scale >= 3 or ctx.get('broken')) else 3
    alphabet = ['a', 'A', ' ', '\t', '\r', '\n']
    scope = ['']
    layer = ['']
    for _ in range(n):
        layer = [x + c for x in layer for c in alphabet]
        scope += layer
    cases, stats = [], {}
    for fi, flags in enumerate(FLAGS):
        kw = dict(zip(FLAG_NAMES, flags))
        nfs = [normal_forms(flags, x) for x in scope]
        for i, sub in enumerate(scope):
            if len(nfs[i]) == 1:
                add_call({'kind': 'match', 'config': kw, 'expect': next(iter(nfs[i])), 'sub': sub}, res, cases, stats)
            if n <= 3 or scale >= 3:
                j = (i * 31 + 7 * fi + 11) % len(scope)
                other = sorted(nfs[j])[0]
                add_call({'kind': 'match', 'config': kw, 'expect': other, 'sub': sub}, res, cases, stats)
    res.distribution['small_scope'] = {'alphabet': alphabet, 'max_length': n, 'strings': len(scope), 'flag_combinations': 16,
                                       'calls': dict(stats)}
    emit(cases, res, 'c18_scope', 'call_case', shard=max(300, len(cases) // 14 + 1))


def minimum_strings(rng, L, W):
    """submissions around the two minimums: lengths L-1, L, L+1 and word counts W-1, W, W+1, plus whitespace shapes"""
    out = ['', ' ', '  ', 'a', ' a ', 'a b', 'a  b', 'a\tb', 'a\r\nb c', ' a b c ', 'ab cd ef']
    for n in {max(L - 1, 0), L, L + 1}:
        out.append('x' * n)
        out.append(' ' + 'x' * n + ' ')
        if n >= 3:
            out.append('x' + ' ' * (n - 2) + 'y')
    for w in {max(W - 1, 0), W, W + 1}:
        out.append(' '.join('w' * (1 + i % 2) for i in range(w)))
        out.append('\t'.join('w' for i in range(w)) + '\n')
    for _ in range(3):
        out.append(''.join(gen_symbols(rng)))
    return sorted(set(out))


def run_minimums(ctx, res, rng, scale):
    cases, stats = [], {}
    grid = list(itertools.product([0, 1, 2, 3, 5], [0, 1, 2, 3], ['err', 'msg', None],
                                  [(True, False), (False, True), (True, True)]))
    k = 0
    for L, W, ex, (aa, ane) in grid:
        nflags = 2 if scale < 3 else 4
        for j in range(nflags):
            flags = FLAGS[(k * 7 + j * 5 + 3) % 16] if j else (True, True, False, True)
            k += 1
            kw = dict(zip(FLAG_NAMES, flags))
            kw.update({'accept_any': aa, 'accept_nonempty': ane, 'min_length': L, 'min_words': W, 'explain_minimums': ex})
            subs = minimum_strings(rng, L, W)
            if scale < 3:
                subs = [s for i, s in enumerate(subs) if (i + k) % 2 == 0 or len(s) in (L - 1, L)]
            for s in subs:
                add_call({'kind': 'minimums', 'config': kw, 'expect': None, 'sub': s}, res, cases, stats)
    res.distribution['minimums_calls'] = dict(stats)
    res.samples.append({'minimums_call': cases[len(cases) // 2][2]})
    emit(cases, res, 'c18_min', 'call_case', shard=max(200, len(cases) // 12 + 1))


# patterns: (pattern, strings that match it entirely); partial matches are derived from them
PATTERNS = [
    (r'\([0-9]+\)', ['(1)', '(42)']),
    (r'([CNOH](_[0-9])?)+', ['H_2O', 'CO_2', 'CH_4']),
    (r'\([0-9]\)\([0-9]\)', ['(1)(2)']),
    (r'min\(-?[0-9]+\.?[0-9]*(,-?[0-9]+\.?[0-9]*)+\)', ['min(1,2)', 'min(-1.5,2,3)']),
    (r'a|b', ['a', 'b']),
    (r'cat|dog', ['cat', 'dog']),
    (r'cat|dog|bird', ['cat', 'dog', 'bird']),
    (r'(cat|dog)', ['cat', 'dog']),
    (r'(?:a|b)c', ['ac', 'bc']),
    (r'ab|', ['ab', '']),
    (r'|ab', ['ab', '']),
    (r'a+|b*', ['aa', 'bbb', '']),
    (r'^abc$', ['abc']),
    (r'^abc', ['abc']),
    (r'abc$', ['abc']),
    (r'abc', ['abc']),
    (r'^a|b$', ['a', 'b']),
    (r'^(a|b)$', ['a', 'b']),
    (r'x^', []),
    (r'^', ['']),
    (r'a|^', ['a', '']),
    (r'(?:)^', ['']),
    (r'[a-z]+ [a-z]+', ['ab cd', 'x y']),
    (r'\w+', ['abc', 'a_1', 'é']),
    (r'\d\d', ['12', '07']),
    (r'[^ ]+', ['abc', 'a.b']),
    (r'.*', ['', 'anything at all']),
    (r'.+\.', ['a.', 'ab.']),
    (r'\S+(\s\S+)*', ['a', 'a b c']),
    (r'[abAB]+', ['abAB', 'a']),
    (r'\Aab\Z', ['ab']),
    (r'a\|b', ['a|b']),
    (r'[|]', ['|']),
    (r'(a|b)|c', ['a', 'b', 'c']),
]


def pattern_subs(rng, full):
    out = {'', 'zz', ' '}
    for m in full:
        out |= {m, m + 'x', 'x' + m, m + m, m + ' ', ' ' + m, m[:-1], m + '\n', m.upper(), m + 'b', m + 'fish'}
    return sorted(out)


def run_validation(ctx, res, rng, scale):
    cases, stats = [], {}
    k = 0
    for p, full in PATTERNS:
        subs = pattern_subs(rng, full)
        for ex in ('err', 'msg', None):
            for mode in ('any', 'nonempty', 'normal'):
                k += 1
                kw = {'validation_pattern': p, 'explain_validation': ex}
                if k % 5 == 0:
                    kw['case_sensitive'] = False
                if k % 7 == 0:
                    kw['strip'] = False
                if k % 11 == 0:
                    kw['invalid_msg'] = 'bad format!'
                expect = None
                if mode == 'any':
                    kw['accept_any'] = True
                    if k % 4 == 0:
                        kw.update({'min_length': 2, 'explain_minimums': 'msg'})
                elif mode == 'nonempty':
                    kw['accept_nonempty'] = True
                    if k % 3 == 0:
                        kw['explain_minimums'] = None
                else:
                    # an expect that matches the pattern entirely after cleaning (otherwise the author gets a ConfigError)
                    flags = tuple(kw.get(a, d) for a, d in zip(FLAG_NAMES, (True, True, False, True)))
                    ok = [m for m in full if all(re.fullmatch(p, x) for x in normal_forms(flags, m))]
                    if not ok:
                        continue
                    expect = ok[k % len(ok)]
                chosen = subs if scale >= 3 else [s for i, s in enumerate(subs) if (i + k) % 2 == 0 or s in full]
                for s in chosen:
                    add_call({'kind': 'validation', 'config': kw, 'expect': expect, 'sub': s}, res, cases, stats)
    res.distribution['validation_calls'] = dict(stats)
    res.samples.append({'validation_call': cases[len(cases) // 2][2]})
    emit(cases, res, 'c18_val', 'call_case', shard=max(200, len(cases) // 12 + 1))


def run_check_response(ctx, res, rng, scale):
    """check_response called directly: debug on/off, answers with partial credit and messages (correspondence only)"""
    from mitxgraders import StringGrader
    from mitxgraders.exceptions import InvalidInput, ConfigError
    cases = []
    answers = [{'expect': 'a b', 'ok': True, 'grade_decimal': 1, 'msg': ''},
               {'expect': 'A  b', 'ok': 'partial', 'grade_decimal': 0.5, 'msg': 'half'},
               {'expect': '(1)', 'ok': False, 'grade_decimal': 0, 'msg': 'no'},
               {'expect': '', 'ok': True, 'grade_decimal': 1, 'msg': 'fine'}]
    n = int(400 * scale)
    for i in range(n):
        flags = rng.choice(FLAGS)
        kw = dict(zip(FLAG_NAMES, flags))
        kw['debug'] = rng.random() < 0.5
        r = rng.random()
        if r < 0.5:
            kw.update({'accept_any': rng.random() < 0.6, 'accept_nonempty': rng.random() < 0.5,
                       'min_length': rng.choice([0, 1, 2, 3, 12]), 'min_words': rng.choice([0, 1, 2]),
                       'explain_minimums': rng.choice(['err', 'msg', None])})
        if rng.random() < 0.4:
            kw.update({'validation_pattern': rng.choice([r'\([0-9]+\)', 'a|b', '[a-z ]+', r'\w+( \w+)*', '^a b$', 'x^']),
                       'explain_validation': rng.choice(['err', 'msg', None])})
        ans = rng.choice(answers)
        sub = rng.choice(['a b', 'a  b', ' A b', '(1)', '(12)', '', ' ', 'ab', 'a\tb', 'a b c']) if rng.random() < 0.7 \
            else ''.join(gen_symbols(rng))
        if not kw['case_sensitive'] and not (lower_is_charwise(sub)):
            continue
        g = StringGrader(**kw)
        st, out = core.guarded(g.check_response, dict(ans), sub)
        if st == 'ret' and isinstance(out, dict):
            obs = ('ret', out['ok'], out['grade_decimal'], out['msg'])
        elif st == 'exc' and isinstance(out, InvalidInput):
            obs = ('invalid', str(out))
        elif st == 'exc' and isinstance(out, ConfigError):
            obs = ('config', str(out))
        else:
            obs = ('other', repr(out))
        ent = '(mkEntry %s %s %s)' % (okterm(ans['ok']), qlit(ans['grade_decimal']), slit(ans['msg']))
        term = '(%s, (%s, %s), %s, %s)' % (cfg_term(kw), slit(ans['expect']), ent, slit(sub), obs_term(obs))
        texts = [sub, ans['expect'], ans['msg'], kw.get('validation_pattern') or '', obs[-1] if isinstance(obs[-1], str) else '',
                 'Your input is not in the expected format']
        cases.append((term, texts, {'config': kw, 'answer': ans, 'sub': sub, 'impl': list(obs)}))
        res.nontrivial.add(('cr', repr(sorted(kw.items(), key=repr)), ans['expect'], sub))
    res.distribution['check_response_cases'] = len(cases)
    emit(cases, res, 'c18_cr', 'cr_case', shard=max(200, len(cases) // 8 + 1))


# ---- regex model vs Python re ---------------------------------------------------------------------
def gen_regex(rng, depth=0):
    """random pattern inside the modelled subset, as (text, sampler)"""
    def atom():
        r = rng.random()
        if r < 0.40:
            c = rng.choice('abAB01 .-_()|+*?^$[]\\é')
            t = '\\' + c if c in '.()|+*?^$[]\\-' else c
            return t, (lambda: c)
        if r < 0.48:
            return '.', (lambda: rng.choice('ab1 .é'))
        if r < 0.66:
            t, chars = rng.choice([('[ab]', 'ab'), ('[a-c]', 'abc'), ('[^a]', 'b1 .'), ('[0-9]', '0159'), ('[a-zA-Z]', 'azAZ'),
                                   ('[^ ]', 'ab.1'), ('[-a]', '-a'), ('[a-]', '-a'), ('[\\d.]', '1.'), ('[\\w-]', 'a_-1'),
                                   ('[^\\s]', 'ab'), ('[.\\]]', '.]'), ('[a\\-c]', 'a-c'), ('[^^]', 'ab'), ('[a^]', 'a^')])
            return t, (lambda: rng.choice(chars))
        if r < 0.78:
            t, chars = rng.choice([('\\d', '019'), ('\\w', 'aZ_0é'), ('\\s', ' '), ('\\D', 'a .'), ('\\W', ' .-'), ('\\S', 'a1.')])
            return t, (lambda: rng.choice(chars))
        if depth < 2:
            t, smp = gen_alt(rng, depth + 1)
            return (rng.choice(['(', '(?:']) + t + ')'), smp
        return 'a', (lambda: 'a')

    def item():
        t, smp = atom()
        q = rng.random()
        if q < 0.12:
            return t + '*', (lambda: ''.join(smp() for _ in range(rng.choice([0, 0, 1, 2, 3]))))
        if q < 0.22:
            return t + '+', (lambda: ''.join(smp() for _ in range(rng.choice([1, 1, 2, 3]))))
        if q < 0.32:
            return t + '?', (lambda: smp() if rng.random() < 0.5 else '')
        return t, smp
    items = [item() for _ in range(rng.choice([0, 1, 1, 2, 2, 3, 4]))]
    if depth == 0 and rng.random() < 0.2:
        items = [('^', lambda: '')] + items
    if depth == 0 and rng.random() < 0.2:
        items = items + [(rng.choice(['$', '$', '\\Z', '^']), lambda: '')]
    return ''.join(t for t, _ in items), (lambda: ''.join(s() for _, s in items))


def gen_alt(rng, depth=0):
    branches = [gen_regex(rng, depth) for _ in range(rng.choice([1, 1, 1, 2, 2, 3]))]
    return '|'.join(t for t, _ in branches), (lambda: rng.choice(branches)[1]())


def run_regex(ctx, res, rng, scale):
    cases = []
    pats = [p for p, _ in PATTERNS] + [p + '$' for p, _ in PATTERNS if not p.endswith('^')]
    gens = []
    for _ in range(int(150 * scale)):
        t, smp = gen_alt(rng)
        gens.append((t, smp))
        if not t.endswith('^') and not t.endswith('\\'):
            gens.append((t + '$', smp))
    fixed_subs = ['', 'a', 'ab', 'b', 'abc', 'a b', 'cat', 'catfish', 'dog', '(1)', '(12)x', 'H_2O', 'é', 'a\n', ' ']
    seen = set()
    for t, smp in [(p, None) for p in pats] + gens:
        try:
            cre = re.compile(t)
        except re.error:
            res.notes.append('generated pattern rejected by re: %r' % t)
            continue
        subs = list(fixed_subs[:6 if smp else len(fixed_subs)])
        if smp:
            for _ in range(5):
                m = smp()
                subs += [m, m + rng.choice('ab1 .'), m[:-1], rng.choice('ab1 .') + m]
        else:
            for p, full in PATTERNS:
                if t in (p, p + '$'):
                    subs += pattern_subs(rng, full)
        for s in subs:
            if (t, s) in seen or len(s) > 14:
                continue
            seen.add((t, s))
            m = cre.match(s) is not None
            fm = cre.fullmatch(s) is not None
            term = '(%s, %s, %s, %s)' % (slit(t), slit(s), boollit(m), boollit(fm))
            cases.append((term, [t, s], {'pattern': t, 'string': s, 're.match': m, 're.fullmatch': fm}))
            if m != fm:
                res.nontrivial.add(('regex', t, s))
    res.distribution['regex_cases'] = len(cases)
    res.distribution['regex_patterns'] = len({c[2]['pattern'] for c in cases})
    res.samples.append({'regex_case': cases[len(cases) // 2][2]})
    emit(cases, res, 'c18_regex', 'regex_case', shard=max(300, len(cases) // 12 + 1))


# ------------------------------------------------------------------------------------------------
def run(ctx):
    res = core.Result()
    rng = random.Random(1000003 * ctx['seed'] + 18)
    scale = 1.0
    if ctx['tier'] == 'thorough':
        scale = 6.0
    elif ctx['escalate']:
        scale = 1.5
    res.rule = ('one case per distinct (configuration, expected string, submission); non-trivial = the property makes a definite '
                'demand on it (cases whose verdict depends on how a run of alternating CR/LF is read as line breaks are skipped by '
                'the oracle, still compared with the model); clean_input cases count when cleaning changes the string; regex cases '
                'when re.match and re.fullmatch differ')
    import time
    secs = {}
    t0 = time.time()
    check_unicode_tables(res)
    secs['unicode_tables'] = round(time.time() - t0, 1)
    for fn in (run_clean, run_match, run_small_scope, run_minimums, run_validation, run_check_response, run_regex):
        t0 = time.time()
        fn(ctx, res, rng, scale)
        secs[fn.__name__] = round(time.time() - t0, 1)
    res.distribution['seconds'] = secs
    res.distribution['scale'] = scale
    return res


def replay(w):
    if w.get('kind') == 'clean':
        from mitxgraders import StringGrader
        g = StringGrader(**dict(zip(FLAG_NAMES, w['flags'])))
        st, out = core.guarded(g.clean_input, w['sub'])
        return st != 'ret', 'clean_input(%r) -> %r %r' % (w['sub'], st, out)
    case = {'kind': w.get('kind'), 'config': w['config'], 'expect': w.get('expect'), 'sub': w['sub']}
    obs = observe(case)
    what, d = judge(case, obs)
    text = ('StringGrader(%s%s)(None, %r) -> %r ; the property demands %r' %
            (', '.join('%s=%r' % kv for kv in sorted(case['config'].items())),
             ', answers=%r' % case['expect'] if case['expect'] is not None else '', case['sub'], obs, d))
    return what is not None, text + (' ; ' + what if what else ' ; satisfied')


def classify_known(w, known):
    """no defect of this property is currently recorded as known: every witness is a violation.
    (The validation-pattern defects of the snapshot -- 'a|b' accepting 'ab', a pattern ending in '^' accepting anything --
    were repaired by /repo commit 976ea10; their witnesses stay in PATTERNS as ordinary cases that must pass.)"""
    return None


LEVEL_TEXT = ('Theorems for strings of any length over all code points and all 16 flag combinations: the cleaning pipeline '
              '(regenerated from stringgrader.py on every run) equals a declarative normaliser (tab, CR, LF, CRLF, LFCR -> one space '
              'each; fold iff not case_sensitive; trim iff strip; delete spaces iff strip_all; squeeze runs iff clean_spaces), is '
              'idempotent, never alters a non-whitespace character other than by folding, ignores outer whitespace iff strip, every '
              'space iff strip_all, repeated spaces iff clean_spaces; a submission is credited iff it equals the expected string '
              'after cleaning; accept_any/accept_nonempty accept exactly the submissions meeting min_length (>= 1 for '
              'accept_nonempty) and min_words and refuse the others as explain_minimums says; for every validation pattern of the '
              'modelled regex subset and in every mode the response is refused as explain_validation says iff the pattern does not '
              'match the entire cleaned submission (full-strength since /repo commit 976ea10; the former refutation witnesses are '
              'regression examples).')
LEVEL_NOTE = ('str.lower/isspace and re character classes are table parameters (hypotheses checked over all of Unicode each run); '
              'Python re replaced by a regex model (parser from text + matcher proved equivalent to an inductive match relation), '
              'compared with re on every run; trusted: Coq kernel, translate/strgrader.py, harness/props/c18.py; no axioms.')
TECHNIQUE = 'Coq proof (induction on strings / regex derivations) + source-to-Gallina translator + vm_compute correspondence'
DESIGN_REF = 'DESIGN.md section 3, C18'
