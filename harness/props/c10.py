"""C10 -- reported name usage is exact and parsing is independent of parse history.

Tie (B), differential, trace level:
  * histories: call sequences parse(s) / evaluator(s, scope) on the module-level PARSER (replaced by a freshly constructed
    MathParser before every sequence).  After every call the outcome (tree, the three reported collections, value + metadata, or
    the exception with the string it quotes), the cache (keys in insertion order, collections of every cached expression) and the
    parser's own scratch collections are recorded; Coq runs Model/ParserState.v's machine on the same call sequence and compares
    every step.
  * names: generated derivations with confusable names; the string, the derivation (as an EvalSpec.expr term) and the collections
    the implementation reported go to Coq, which checks  lex (strip s) = render e  (the hypothesis of C10_names_exact), the tree
    and  enames e = scan_names (tokens) = reported.
  * evaluations that reuse the same scope dict objects with in-place edits between them (Coq: the scope of each call is the
    content of the dicts at that moment), and histories that interleave the parser's consumers (get_used_vars, DependentSampler,
    Formula/Numerical/SumGrader with instructor variables, white/blacklists) with direct calls: after every consumer call every
    string seen so far is parsed and evaluated again (Coq checks those direct calls against the stateless description).
Oracle (independent of the model): outcome of the n-th call == outcome of the same call on a freshly constructed parser
(given new dicts of equal content); a grader's verdict on a string does not depend on the author's answer being that string;
objects handed out earlier still report what they reported; reported collections == the name sets known by construction of
the derivation (parse(s).*_used, evaluator(s, ...)[1], get_used_vars, DependentSampler's inferred depends).
"""
import itertools
import math
import os
import sys
import multiprocessing
import random
import re
from fractions import Fraction

from harness import core

ID = 'C10'
PROPS = 'Props/C10.v'
TRANSLATORS = []
_EXPR = 'mitxgraders/helpers/calc/expressions.py'
MIRRORED = [(_EXPR, 'MathParser.__init__'), (_EXPR, 'MathParser.reset_storage'), (_EXPR, 'MathParser.variable_parse_action'),
            (_EXPR, 'MathParser.function_parse_action'), (_EXPR, 'MathParser.suffix_parse_action'),
            (_EXPR, 'MathParser.get_grammar'), (_EXPR, 'MathParser.raw_parse'), (_EXPR, 'MathParser.parse'),
            (_EXPR, 'MathExpression.__init__'), (_EXPR, 'MathExpression.check_scope'), (_EXPR, 'MathExpression.eval'),
            (_EXPR, 'PARSER'), (_EXPR, 'parse'), (_EXPR, 'evaluator'),
            ('mitxgraders/helpers/math_helpers.py', 'MathMixin.get_used_vars'),
            ('mitxgraders/sampling.py', 'DependentSampler.__init__'),
            ('mitxgraders/formulagrader/integralgrader.py', 'SummationGraderBase.get_limits_and_funcs'),
            ('mitxgraders/formulagrader/formulagrader.py', 'FormulaGrader.gen_evaluations')]
REFUTED = []
TRUSTED = [
    'correspondence harness harness/props/c10.py: observation of outcomes, cache and scratch collections after every call; '
    'module-level PARSER replaced by a fresh MathParser before every sequence',
    'reference outcomes are taken in a pristine library state: forked worker, mitxgraders* / voluptuous* (or the calc package) '
    'dropped from sys.modules and imported anew before the call; every mismatch is re-confirmed from such a state before it is '
    'reported; perturb-then-probe batches look for state that outlives the parser object',
    'modelled, not verified: pyparsing\'s engine (replaced by the lexer + PEG model of Model/Lexer.v, Model/Parser.v and the '
    'callback-recording copy Model/ParserStateCb.v), Python set/dict semantics (sets as heap cells shared by reference, dict in '
    'insertion order), float arithmetic of evaluated values (compared within 1e-9 relative)',
]
ASSUMPTIONS = ['callers do not mutate the collections they are handed (no consumer in mitxgraders does)',
               'whether the parsing engine gives up on a string with a non-parse exception (RecursionError on deep nesting) is a function '
               'of the string (the oracle `engine`; recorded per run from freshly constructed parsers; generated inputs nest either '
               '<= ~15 or >= 300 levels, never near the interpreter-dependent threshold)',
               'single-threaded use of the shared parser',
               'names_exact is stated for strings whose token stream (Model/Lexer.v) is the rendering of a derivation; the hypothesis '
               'is decidable and is checked in Coq for every generated case; C10_reported_names_exact covers every accepted string']

_IMPL = {}


def impl():
    if not _IMPL:
        from mitxgraders.helpers.calc import expressions as ex
        from mitxgraders.helpers.calc import exceptions as cx
        from mitxgraders.helpers.calc.math_array import MathArray
        import pyparsing
        from mitxgraders.helpers.calc import mathfuncs as mf
        import numpy as np
        _IMPL.update(ex=ex, cx=cx, mf=mf, MathArray=MathArray, ParseResults=pyparsing.ParseResults, nperr=dict(np.geterr()))
    return _IMPL


# =================================================================================================
# Coq literals
# =================================================================================================
def zl(n):
    n = int(n)
    return '(%d)' % n if n < 0 else '%d' % n


def strl(s):
    return '[' + ';'.join(str(ord(c)) for c in s) + ']'


def ql(x):
    fr = Fraction(x)
    return '(Qmake %s %d%%positive)' % (zl(fr.numerator), fr.denominator)


def namesl(v, f, u):
    lst = lambda xs: '[' + ';'.join(strl(x) for x in xs) + ']'      # noqa
    return '(mkNames %s %s %s)' % (lst(v), lst(f), lst(u))


TAGS = {'number': 0, 'variable': 1, 'function': 2, 'arguments': 3, 'parentheses': 4, 'array': 5, 'power': 6,
        'negation': 7, 'parallel': 8, 'product': 9, 'sum': 10}


def sexp_of(t, PR):
    """ParseResults -> nested tuples ('N', tag, kids) / ('A', text)"""
    if isinstance(t, PR):
        return ('N', TAGS.get(t.getName(), -1), tuple(sexp_of(c, PR) for c in t))
    if isinstance(t, str):
        return ('A', t)
    return ('N', -2, ())


def sexp_term(x):
    if x[0] == 'A':
        return '(SA %s)' % strl(x[1])
    return '(SN %s [%s])' % (zl(x[1]), ';'.join(sexp_term(k) for k in x[2]))


def val_obs(v):
    """implementation value -> hashable exact description, or None when it is not a finite number / rectangular array"""
    MathArray = impl()['MathArray']
    import numpy as np
    if isinstance(v, MathArray) or isinstance(v, np.ndarray):
        items = [val_obs(x) for x in v.tolist()] if v.ndim > 0 else None
        if items is None or any(i is None for i in items):
            return None
        return ('arr', tuple(items))
    if isinstance(v, (list, tuple)):
        items = [val_obs(x) for x in v]
        return None if any(i is None for i in items) else ('arr', tuple(items))
    try:
        c = complex(v)
    except (TypeError, ValueError):
        return None
    if not (math.isfinite(c.real) and math.isfinite(c.imag)):
        return None
    return ('c', Fraction(c.real), Fraction(c.imag))


def val_term(o):
    if o[0] == 'c':
        return '(VS (mkC %s %s))' % (ql(o[1]), ql(o[2]))
    return '(VA [%s])' % ';'.join(val_term(x) for x in o[1])


# =================================================================================================
# the scope of evaluating calls (exact semantics on both sides)
# =================================================================================================
VARS = {'x': 2.0, 'y': 3.0, 'f': 5.0, "x'": 7.0, 'y_1': 2.0, 'xy': 11.0, 'a_{1}': 4.0, 'u': 1.5, 'n': 3.0, 'c': 2.0}
SUFS = {'k': 1000.0, 'e': 4.0, '%': 0.5}
# names that an in-place edit of a reused scope dict may add
VARS_ALL = dict(VARS, z=6.0, leak=1.0)
SUFS_ALL = dict(SUFS, M=1000000.0)


def _f(a):
    return a + 1


def _g(a, b):
    return a * b


def _h(a):
    return a + 1


LIBRARY_FUNCS = ('ln', 'cot', 'exp')      # taken from the library's DEFAULT_FUNCTIONS at call time (numpy underneath)
FUNCS = {'f': _f, 'g': _g, 'ln': None, 'cot': None, 'exp': None}
FUNCS_ALL = dict(FUNCS, h=_h)


def resolve_funcs(d):
    mf = impl()['mf']
    return dict((n, mf.DEFAULT_FUNCTIONS[n] if n in LIBRARY_FUNCS else v) for n, v in d.items())

ENV_COQ = ('Definition fenv0 (n : str) : option (list val -> res val) :=\n'
           '  if str_eqb n %s || str_eqb n %s then Some (fun a => match a with [VS c] => chk (cadd c cone) '
           '| [VA _] => Err EUnsupported | _ => Err (EFunc 0) end)\n'
           '  else if str_eqb n %s then Some (fun a => match a with [VS c; VS d] => chk (cmul c d) | [_; _] => Err EUnsupported '
           '| _ => Err (EFunc 0) end)\n'
           '  else if str_eqb n %s || str_eqb n %s || str_eqb n %s then Some (fun _ => Err EUnsupported)\n'
           '  else None.\n' % (strl('f'), strl('h'), strl('g'), strl('ln'), strl('cot'), strl('exp')) +
           'Definition vars_all : list (str * val) := [%s].\n' % '; '.join(
               '(%s, VS (mkC %s 0))' % (strl(n), ql(v)) for n, v in sorted(VARS_ALL.items())) +
           'Definition sufs_all : list (str * Q) := [%s].\n' % '; '.join(
               '(%s, %s)' % (strl(n), ql(v)) for n, v in sorted(SUFS_ALL.items())) +
           '(* a scope = the names currently in the three dicts *)\n'
           'Definition env_sub (vs fs ss : list str) : env :=\n'
           '  mkEnv (fun n => if memb n vs then assoc vars_all n else None)\n'
           '        (fun n => if memb n fs then fenv0 n else None)\n'
           '        (fun n => if memb n ss then assoc sufs_all n else None).\n'
           'Definition env0 : env := env_sub [%s] [%s] [%s].\n' % (
               '; '.join(strl(n) for n in sorted(VARS)), '; '.join(strl(n) for n in sorted(FUNCS)),
               '; '.join(strl(n) for n in sorted(SUFS))))


# =================================================================================================
# observing one call on the shared parser
# =================================================================================================
def names_obs(a, b, c):
    return (tuple(sorted(a)), tuple(sorted(b)), tuple(sorted(c)))


def bracket_kind(m):
    return ('CloseWithoutOpen' if 'closed without ever' in m else 'WrongCloser' if 'opened and then' in m
            else 'OpenWithoutClose')


def quoted_of(e):
    """the string an error message quotes"""
    cx = impl()['cx']
    m = str(e)
    if isinstance(e, cx.UnbalancedBrackets):
        mm = re.search(r'<code>(.*)</code>', m, re.S)
        return mm.group(1).replace('<mark>', '').replace('</mark>', '') if mm else None
    mm = re.match(r"Invalid Input: Could not parse '(.*)' as a formula$", m, re.S)
    return mm.group(1) if mm else None


def exc_obs(e):
    """exception -> ('perr', 'unbal', kind, quoted) | ('perr', 'unparse', quoted) | ('dims',) | ('err', class) | ('other', text)"""
    cx = impl()['cx']
    m = str(e)
    if isinstance(e, RecursionError):
        return ('perr', 'engine')
    if isinstance(e, cx.UnbalancedBrackets):
        q = quoted_of(e)
        return ('perr', 'unbal', bracket_kind(m), q) if q is not None else ('other', 'UnbalancedBrackets: ' + m)
    if isinstance(e, cx.UnableToParse):
        if 'forbidden in this entry' in m:
            return ('dims',)
        if 'Unable to parse vector/matrix' in m:
            return ('err', 'EShape')
        q = quoted_of(e)
        return ('perr', 'unparse', q) if q is not None else ('other', 'UnableToParse: ' + m)
    if isinstance(e, cx.UndefinedVariable):
        return ('err', 'EUndefVar')
    if isinstance(e, cx.UndefinedFunction):
        return ('err', 'EUndefSuffix' if 'directly after a number' in m else 'EUndefFun')
    if isinstance(e, cx.CalcZeroDivisionError):
        return ('err', '(EFunc 0)' if 'error evaluating' in m else 'EDivZero')
    if isinstance(e, cx.CalcOverflowError):
        return ('err', '(EFunc 0)' if 'error evaluating' in m else 'EOverflow')
    if isinstance(e, (cx.FunctionEvalError, cx.DomainError, cx.ArgumentError)):
        return ('err', '(EFunc 0)')
    if isinstance(e, cx.CalcError):
        return ('err', 'EUnsupported')
    return ('other', '%s: %s' % (type(e).__name__, m))


NFILES = [8]             # case files per stage (16 on the thorough tier)
PATIENCE = [20]          # seconds allowed per call; a sequence that times out is re-run once with much more


def exc_outcome(e):
    """what the fresh-vs-shared oracle compares of an exception: class and message -- except for the interpreter's own
    RecursionError, whose wording depends on where the stack ran out, not on the library"""
    if isinstance(e, RecursionError):
        return ('exc', 'RecursionError', '')
    return ('exc', type(e).__name__, str(e))


def scope_content(scope):
    return (tuple(sorted(scope[0])), tuple(sorted(scope[1])), tuple(sorted(scope[2])))


def do_call(call, handed, scope=None):
    """call = (kind, s, max_dim[, content]).  Returns (obs for Coq, outcome for the fresh-vs-shared oracle).
    kind 'evalI' is evaluator(..., allow_inf=True);  kind 'evalC' evaluates in the scope given by its content (names of the three dicts): in the dict objects `scope` that a
    history reuses and edits in place, or -- for the fresh reference -- in new dicts of equal content."""
    I = impl()
    ex, PR = I['ex'], I['ParseResults']
    kind, s, md = call[0], call[1], call[2]
    V, F, S = VARS, resolve_funcs(FUNCS), SUFS
    if kind == 'evalC':
        if scope is not None:
            V, F, S = scope
        else:
            V = dict((n, VARS_ALL[n]) for n in call[3][0])
            F = resolve_funcs(dict((n, FUNCS_ALL[n]) for n in call[3][1]))
            S = dict((n, SUFS_ALL[n]) for n in call[3][2])
    if kind == 'parse':
        st, r = core.guarded(ex.parse, s, seconds=PATIENCE[0])
        if st == 'ret':
            try:
                nm = names_obs(r.variables_used, r.functions_used, r.suffixes_used)
                sx = sexp_of(r.tree, PR)
            except Exception as e:      # noqa - whatever was returned is not a usable MathExpression
                return ('other', 'unusable result'), ('unusable', type(r).__name__, type(e).__name__)
            handed.append((r, nm))
            return ('tree', sx, nm), ('tree', sx, nm)
        if st == 'exc':
            return exc_obs(r), exc_outcome(r)
        return ('other', 'timeout'), ('timeout',)
    allow_inf = kind == 'evalI'
    st, r = core.guarded(ex.evaluator, s, V, F, S, max_array_dim=md, allow_inf=allow_inf, seconds=PATIENCE[0])
    if st == 'ret':
        try:
            v, meta = r
            nm = names_obs(meta.variables_used, meta.functions_used, meta.suffixes_used)
            dim = int(meta.max_array_dim_used)
        except Exception as e:      # noqa
            return ('other', 'unusable result'), ('unusable', type(r).__name__, type(e).__name__)
        if isinstance(v, float) and math.isnan(v):
            o = ('nan', nm, dim)
            return (('ai', o) if allow_inf else o), o
        vo = val_obs(v)
        if allow_inf:
            # infinities were asked for: where the model overflows it has nothing to say about this call
            return ('ai', ('inf', nm, dim) if vo is None else ('val', vo, nm, dim)), ('val', repr(v), nm, dim)
        return ('val', vo, nm, dim), ('val', repr(v), nm, dim)
    if st == 'exc':
        return (('ai', exc_obs(r)) if allow_inf else exc_obs(r)), exc_outcome(r)
    return ('other', 'timeout'), ('timeout',)


def observe_state(P):
    entries = tuple((k, names_obs(p.variables_used, p.functions_used, p.suffixes_used)) for k, p in P.cache.items())
    scratch = names_obs(P.variables_used, P.functions_used, P.suffixes_used)
    return (entries, scratch)


# ---- the parser's consumers (anchor list of the property), called between direct calls on the shared parser ----
SUM_ANSWER = {'lower': '1', 'upper': 'sqrt(16)', 'summand': 'n^2 + u', 'summation_variable': 'n'}
CONSUMERS = {
    # id: (strings whose parse the consumer touches, inputs)
    'used_vars': (None, [('f(x)+2k*f', '[y,2e]'), ('n^2 + u', None, 'c*x'), ('x+y', '  ', ' x + y ')]),
    'depends': (None, ['f(x)+2k*f', 'n^2 + u', "x'^-y_1", 'c*x']),
    'fg_instructor:c*x': (['c*x'], ['c*x', 'x*c', ' c * x', '2*x']),
    'fg_instructor:x*c': (['x*c'], ['c*x', 'x*c', ' c * x', '2*x']),
    'numerical': (['2*pi'], ['2*pi', '6.283185307', 'pi*2']),
    'sum': (['1', 'sqrt(16)', 'n^2 + u'], [('1', 'sqrt(16)', 'n^2 + u', 'n'), ('1', '4', 'u + n*n', 'n'),
                                            ('1', 'sqrt(16)', 'u+n^2', 'n'), ('0+1', '2^2', 'n^2 + u', 'n')]),
    'fg_whitelist_none': (['u + n*n'], ['u + n*n', 'n^2 + u', 'u+n*n+sin(0)']),
    'fg_whitelist_sin': (['x+1'], ['x+1', 'x+cos(0)', 'x+1+cos-cos', 'x+sin(0)+1', 'cos(0)+x+cos-cos']),
    'fg_blacklist_cos': (['x+1'], ['x+1', 'x+cos(0)', 'x+sin(0)+1']),
    'fg_allow_inf': (['1/x'], ['1/x', '1/0', 'x/0', 'ln(0)+1/x']),
}
TWINS = {'fg_instructor:c*x': 'fg_instructor:x*c', 'fg_instructor:x*c': 'fg_instructor:c*x'}


def consumer_strings(cid, inp):
    own, _ = CONSUMERS[cid]
    out = list(own or [])
    for x in (inp if isinstance(inp, tuple) else (inp,)):
        if isinstance(x, str) and x.strip() and x not in ('n',):
            out.append(x)
    return out


def call_consumer(cid, inp):
    import mitxgraders as mg
    from mitxgraders.helpers.math_helpers import MathMixin
    if cid == 'used_vars':
        return sorted(MathMixin.get_used_vars(list(inp)))
    if cid == 'depends':
        return sorted(mg.DependentSampler(formula=inp).config['depends'])
    if cid.startswith('fg_instructor:'):
        g = mg.FormulaGrader(answers=cid.split(':', 1)[1], variables=['x', 'c'], instructor_vars=['c'],
                             sample_from={'c': [2, 3]})
        return g(None, inp)
    if cid == 'numerical':
        return mg.NumericalGrader(answers='2*pi')(None, inp)
    if cid == 'sum':
        return mg.SumGrader(answers=dict(SUM_ANSWER), variables=['u'])(None, list(inp))
    if cid == 'fg_whitelist_none':
        return mg.FormulaGrader(answers='u + n*n', variables=['u', 'n'], whitelist=[None])(None, inp)
    if cid == 'fg_whitelist_sin':
        return mg.FormulaGrader(answers='x+1', variables=['x', 'cos'], whitelist=['sin'])(None, inp)
    if cid == 'fg_allow_inf':
        return mg.FormulaGrader(answers='1/x', variables=['x'], allow_inf=True)(None, inp)
    if cid == 'fg_blacklist_cos':
        return mg.FormulaGrader(answers='x+1', variables=['x'], blacklist=['cos'])(None, inp)
    raise ValueError(cid)


def run_sequence(calls):
    """One history on a freshly constructed shared parser.
    Steps:  ('parse', s, None) / ('eval', s, max_dim)      direct calls with the standard scope (new dict objects every time)
            ('evalS', s, max_dim)                          evaluator with the three scope dict OBJECTS this history reuses
            ('edit', 'v'|'f'|'s', name)                    in-place edit of one of them (delete the name if present, else add)
            ('evalC', s, max_dim, content)                 evaluator with new dicts of the given content (the fresh reference)
            ('evalI', s, max_dim)                          like 'eval' with allow_inf=True
            ('newparser',)                                 a new MathParser is installed as the shared parser
            ('consumer', id, input)                        one of CONSUMERS; afterwards every string this history has seen so
                                                           far is parsed and evaluated again directly ("re-check")
    Returns per executed call (obs, outcome, state, effective call, index of the step that caused it) and a final stability
    flag for the objects handed out.  Histories with consumer steps do not report the cache (the model has no consumers)."""
    ex = impl()['ex']
    P = ex.MathParser()
    ex.PARSER = P
    handed, out = [], []
    scope = (dict(VARS), resolve_funcs(FUNCS), dict(SUFS))
    universe = (VARS_ALL, resolve_funcs(FUNCS_ALL), SUFS_ALL)
    with_consumers = any(c[0] in ('consumer', 'newparser') for c in calls)
    seen = []

    import numpy as np
    baseline = dict(impl()['nperr'])
    np.seterr(**baseline)              # process-wide numeric error handling as right after importing the library

    def with_process_state(outcome):
        """process-wide state a call leaves behind is part of what later calls see: numpy's error handling"""
        now = dict(np.geterr())
        if now != baseline and outcome != ('timeout',):
            return ('process-state', outcome, tuple(sorted(now.items())))
        return outcome

    def direct(eff, j, sc=None):
        obs, outcome = do_call(eff, handed, sc)
        outcome = with_process_state(outcome)
        if with_consumers:
            state = ('skip',)
        else:
            try:
                state = observe_state(ex.PARSER)
            except Exception as e:      # noqa
                state = ('unobservable', repr(e))
        out.append((obs, outcome, state, eff, j))

    for j, call in enumerate(calls):
        if call[0] == 'newparser':           # a brand-new MathParser takes over as the shared one, new scope dicts too
            ex.PARSER = ex.MathParser()
            scope = (dict(VARS), resolve_funcs(FUNCS), dict(SUFS))
            del seen[:]
            continue
        if call[0] == 'edit':
            i = 'vfs'.index(call[1])
            if call[2] in scope[i]:
                del scope[i][call[2]]
            else:
                scope[i][call[2]] = universe[i][call[2]]
            continue
        if call[0] == 'consumer':
            st, r = core.guarded(call_consumer, call[1], call[2], seconds=max(60, PATIENCE[0]))
            if st == 'ret':
                outcome = ('ret', repr(r))
            elif st == 'exc':
                outcome = exc_outcome(r)
            else:
                outcome = ('timeout',)
            out.append((('consumer',), with_process_state(outcome), ('skip',), call, j))
            for t in consumer_strings(call[1], call[2]):
                if t not in seen:
                    seen.append(t)
            for t in seen[-8:]:
                direct(('parse', t, None), j)
                direct(('eval', t, None), j)
            continue
        if call[1] is not None and call[1] not in seen:
            seen.append(call[1])
        eff = call
        if call[0] == 'evalS':
            eff = ('evalC', call[1], call[2], scope_content(scope))
        direct(eff, j, scope if call[0] == 'evalS' else None)
    np.seterr(**baseline)
    changed = None
    for i, (obj, nm) in enumerate(handed):
        try:
            now = names_obs(obj.variables_used, obj.functions_used, obj.suffixes_used)
        except Exception as e:      # noqa
            now = ('unreadable', type(e).__name__)
        if now != nm:
            changed = (i, nm, now)
            break
    return out, changed


_FRESH = {}


def purge(level):
    """forget the library's modules so that the next use imports them anew: every module-level object of the library (the
    shared PARSER, any memo next to it, class attributes ...) starts from scratch, as in a fresh interpreter.
    'full' = mitxgraders* and voluptuous*;  'calc' = the calc package only (enough for direct parse / evaluator calls, and
    6 times cheaper; never used in a process that also calls graders)."""
    pref = ('mitxgraders', 'voluptuous') if level == 'full' else ('mitxgraders.helpers.calc',)
    for k in [k for k in list(sys.modules) if k.startswith(pref)]:
        del sys.modules[k]
    _IMPL.clear()


def _worker(job):
    level, seqs = job
    res = []
    for calls in seqs:
        if level:
            purge(level)
        out, changed = run_sequence(calls)
        res.append((out, changed))
    return res


def run_many(seqs, nproc=core.NPROC, level=None, force_pool=False):
    """run the sequences (lists of calls) in forked workers; result order = input order.
    level = 'full' | 'calc': every sequence starts after purge(level) (pristine library state); always in forked workers
    then, so that the calling process keeps its modules."""
    if not seqs:
        return []
    if len(seqs) < 64 and not level and not force_pool:
        return _worker((None, seqs))
    chunk = max(1 if level else 8, len(seqs) // (nproc * 4))
    parts = [(level, seqs[i:i + chunk]) for i in range(0, len(seqs), chunk)]
    try:
        ctx = multiprocessing.get_context('fork')
        with ctx.Pool(min(nproc, len(parts))) as pool:
            outs = pool.map(_worker, parts)
    except (OSError, ValueError):
        outs = [_worker(p) for p in parts]
    results = [x for part in outs for x in part]
    # the property does not speak about time: a call that hit the alarm (loaded machine) is re-run with much more patience,
    # and a sequence that still cannot be observed is dropped from oracle and correspondence (counted, never a witness)
    for i, (out, _chg) in enumerate(results):
        if any(o[1] == ('timeout',) for o in out):
            PATIENCE[0] = 300
            try:
                if level:
                    purge(level)
                results[i] = run_sequence(seqs[i])
            finally:
                PATIENCE[0] = 20
            if any(o[1] == ('timeout',) for o in results[i][0]):
                results[i] = None
    return results


def prefetch_fresh(calls, share=1.0):
    """the reference outcome of every distinct call: the call alone on a new parser -- in pristine library state (purge) for
    the given share of the calls (chosen by a hash of the call), in a worker that has only served such references for the rest;
    a mismatch against either kind of reference is confirmed in pristine state before it is reported"""
    todo = sorted(set(c for c in calls if c not in _FRESH), key=repr)
    import zlib
    pristine = [c for c in todo if share >= 1.0 or c[0] == 'consumer' or zlib.crc32(repr(c).encode()) % 1000 < share * 1000]
    chosen = set(pristine)
    plain = [c for c in todo if c not in chosen]
    cons = [c for c in pristine if c[0] == 'consumer']
    direct = [c for c in pristine if c[0] != 'consumer']
    for group, level in ((cons, 'full'), (direct, 'calc'), (plain, None)):
        for c, r in zip(group, run_many([[c] for c in group], level=level, force_pool=True)):
            if r is not None and r[0]:
                _FRESH[c] = r[0][0][1]
            else:
                _FRESH[c] = ('timeout',)


def confirm_pristine(steps):
    """re-run a history in pristine library state and compare each call with its pristine reference.
    Returns (index of the step, effective call, got, want) of the first call that differs, or None."""
    level = 'full' if any(c[0] == 'consumer' for c in steps) else 'calc'
    r = run_many([list(steps)], level=level, force_pool=True)[0]
    if r is None:
        return None
    out, _chg = r
    refs = {}
    for o in out:
        if o[3] not in refs:
            lv = 'full' if o[3][0] == 'consumer' else 'calc'
            rr = run_many([[o[3]]], level=lv, force_pool=True)[0]
            refs[o[3]] = rr[0][0][1] if rr is not None and rr[0] else ('timeout',)
    for o in out:
        want = refs[o[3]]
        if ('timeout',) in (want, o[1]):
            continue
        if (o[1][:2] == ('exc', 'RecursionError')) != (want[:2] == ('exc', 'RecursionError')):
            continue
        if o[1] != want:
            return (o[4], o[3], o[1], want)
    return None


def fresh_outcome(call):
    if call not in _FRESH:
        prefetch_fresh([call])
    return _FRESH[call]


def engine_unstable(out):
    """a call for which the interpreter's recursion limit was hit in one context (this history / a fresh parser) but not in the
    other: the nesting is near the limit and the outcome depends on the depth of the caller's stack, which is neither parse
    history nor anything the property speaks about"""
    for o in out:
        want = fresh_outcome(o[3])
        if (o[1][:2] == ('exc', 'RecursionError')) != (want[:2] == ('exc', 'RecursionError')):
            return True
    return False


def drop_unobserved(seqs, results, stats, share=1.0):
    """drops the sequences that could not be observed and replaces every sequence by its effective calls"""
    keep = [i for i, r in enumerate(results) if r is not None]
    prefetch_fresh((o[3] for i in keep for o in results[i][0]), share)
    stable = [i for i in keep if not engine_unstable(results[i][0])]
    stats['sequences_near_the_recursion_limit_dropped'] = stats.get('sequences_near_the_recursion_limit_dropped', 0) + len(keep) - len(stable)
    keep = stable
    stats['sequences_not_observed_within_300s'] = stats.get('sequences_not_observed_within_300s', 0) + len(results) - len(keep)
    ORIG.clear()
    ORIG.extend(seqs[i] for i in keep)
    return [[o[3] for o in results[i][0]] for i in keep], [results[i] for i in keep]


ORIG = []        # the sequences as generated (with edits / evalS), parallel to the last result of drop_unobserved


# =================================================================================================
# the alphabet of the exhaustive histories
# =================================================================================================
NEST = 400       # bracket levels no recursion limit in use survives (pyparsing recurses several frames per level)
DEEP = 'leak + 2k*' + '(' * NEST + '1' + ')' * NEST
DEEP_FUN = 'x + 3%*' + 'f(' * NEST + 'y' + ')' * NEST
DEEP_ARR = "x'*[y_1, 2e, " + '[' * NEST + 'f(x)' + ']' * NEST + ']'
ALPHABET = [
    'x',                # a cached name
    'x+y',
    ' x + y ',          # same cache key as the previous one, error messages would quote the spaces
    'f(x)+2k*f',        # f as function and as variable, a suffix
    'f(x,)',            # the function alternative is abandoned after x fired; malformed
    'x y+',             # spaces inside: key 'xy+', malformed, the message quotes the original
    '(x',               # unbalanced, raised before parsing
    'y_1)',             # closed without being opened
    '[y,2e]',           # names only inside an array literal, suffix e
    "x'^-y_1",          # prime, subscript, signed exponent
    '2%%#',             # a suffix fires, then a character the grammar rejects
    'g(a_{1},1e1e)',    # tensor index name only inside arguments, suffix e after an exponent
    DEEP,               # balanced, but nested too deeply for the engine: RecursionError escapes, after a name and a suffix fired
]
EXTRA_CALLS = [('parse', DEEP_FUN, None), ('eval', DEEP_ARR, None),
               # the evaluator's other arguments are part of the call: allow_inf, max_array_dim, the scope
               ('evalI', '1e400', None), ('eval', '1e400', None), ('evalI', '[1, 1e308*100]', None), ('eval', '[1, 1e308*100]', None),
               ('evalI', '[1, 1e308*100]', 0), ('evalI', 'x+1e308*100', None), ('eval', 'x+1e308*100', None), ('evalI', 'x+y', None),
               ('evalC', 'x+y', None, (('x',), (), ())), ('evalC', 'f(x)+2k*f', None, (('f', 'x'), (), ('k',))),
               ('evalC', '[y,2e]', 1, (('y',), ('f',), ())),
               # evaluations that raise, with and without allow_inf, and calls whose outcome depends on numpy's error handling
               ('evalI', '1/0', None), ('eval', '1/0', None), ('evalI', 'f(1,2)', None), ('evalI', 'zz+1', None),
               ('evalI', 'ln(0)', None), ('eval', 'ln(0)', None), ('eval', 'cot(0)', None), ('eval', '[1,2]/0', None),
               ('eval', 'exp(1000)', None), ('evalI', 'exp(1000)*0+1/0', None),
               ('eval', None, None), ('eval', '  \t ', None), ('eval', '[y,2e]', 0), ('eval', ' x + y ', 0),
               ('eval', 'x y', None), ('parse', 'x y', None)]


def alphabet_calls():
    calls = []
    for s in ALPHABET:
        calls.append(('parse', s, None))
        calls.append(('eval', s, None))
    return calls


# =================================================================================================
# Coq side of the histories
# =================================================================================================
HEADER = r'''From Coq Require Import ZArith QArith Qabs List Bool.
From Verif.Model Require Import Result Lexer Parser Eval EvalSpec ParserStateCb ParserState.
Import ListNotations.
Open Scope Z_scope.
Definition eps : Q := Qmake 1 1000000000%positive.
(* values: relative 1e-9, or both below the smallest normal double (the implementation's floats underflow to 0) *)
Definition tiny2 : Q := Qmake 1 (10 ^ 560)%positive.
Definition cclose_u (a b : cplx) : bool :=
  cclose eps a b || Qle_bool (cnorm2 (mkC (re a - re b) (im a - im b))) tiny2 && Qle_bool (cnorm2 a) tiny2 && Qle_bool (cnorm2 b) tiny2.
Fixpoint val_close_u (a b : val) : bool :=
  match a, b with
  | VS x, VS y => cclose_u x y
  | VA k, VA l =>
      (fix go (k l : list val) : bool :=
         match k, l with
         | [], [] => true
         | x :: k', y :: l' => val_close_u x y && go k' l'
         | _, _ => false
         end) k l
  | _, _ => false
  end.
Definition berr_eqb (a b : bracket_error) :=
  match a, b with CloseWithoutOpen, CloseWithoutOpen | WrongCloser, WrongCloser | OpenWithoutClose, OpenWithoutClose => true
  | _, _ => false end.
Definition perr_eqb (a b : perr) : bool :=
  match a, b with
  | EUnbal e k, EUnbal e' k' => berr_eqb e e' && str_eqb k k'
  | EUnparse q, EUnparse q' => str_eqb q q'
  | EEngine, EEngine => true
  | _, _ => false
  end.
Definition everr_class (a b : everr) : bool :=
  match a, b with
  | EUndefVar, EUndefVar | EUndefFun, EUndefFun | EUndefSuffix, EUndefSuffix | EDivZero, EDivZero
  | EOverflow, EOverflow | EShape, EShape | EFunc _, EFunc _ => true
  | _, _ => false
  end.
Definition declines (e : everr) : bool :=
  match e with EDomain | EUnsupported | EBadNumeral => true | _ => false end.
(* what the implementation showed *)
Inductive iview :=
| ITree (x : sexp) (nm : names)
| IPErr (e : perr)
| INan (nm : names) (dim : nat)
| IVal (v : option val) (nm : names) (dim : nat)
| IInf (nm : names) (dim : nat)                  (* an infinite value *)
| IAllowInf (i : iview)                          (* the call had allow_inf=True *)
| IDims
| IErr (e : everr)
| IOther.
Inductive istate := IState (entries : list (str * names)) (scr : names) | IUnobservable | ISkip.
(* 0 agree, 1 differ, 3 the model declines (value outside its arithmetic) *)
Definition view_agree0 (v : view) (i : iview) : Z :=
  match v, i with
  | VP (VTree t nm), ITree x nm' => if sexp_eqb (to_sexp t) x && names_same nm nm' then 0 else 1
  | VP (VErr e), IPErr e' => if perr_eqb e e' then 0 else 1
  | VE EvNan, INan nm d => if names_empty nm && (d =? 0)%nat then 0 else 1
  | VE (EvVal v nm d), IVal ov nm' d' =>
      if names_same nm nm' && (d =? d')%nat && match ov with Some w => val_close_u v w | None => true end then 0 else 1
  | VE (EvPErr e), IPErr e' => if perr_eqb e e' then 0 else 1
  | VE EvTooManyDims, IDims => 0
  | VE (EvErr e), IErr e' => if declines e then 3 else if everr_class e e' then 0 else 1
  | VE (EvErr e), _ => if declines e then 3 else 1
  | _, _ => 1
  end.
(* with allow_inf=True the implementation carries infinities on; the model's arithmetic stops at EOverflow: it declines *)
Definition view_agree (v : view) (i : iview) : Z :=
  match i with
  | IAllowInf j => match v with VE (EvErr EOverflow) => 3 | _ => view_agree0 v j end
  | _ => view_agree0 v i
  end.
Fixpoint entries_agree (c : list (str * parsed)) (st : pstate) (l : list (str * names)) : bool :=
  match c, l with
  | [], [] => true
  | (k, p) :: c', (k', nm) :: l' => str_eqb k k' && names_same (cell st (p_ref p)) nm && entries_agree c' st l'
  | _, _ => false
  end.
Definition state_agree (st : pstate) (i : istate) : bool :=
  match i with
  | IState l scr => entries_agree (cache st) st l && names_same (scratch st) scr
  | IUnobservable => false
  | ISkip => true          (* histories with consumer calls: the cache is not modelled *)
  end.
Definition junk0 (s : str) : names := no_names.
'''

RUNNER = r'''
(* a history: per call (index into calls, index into views, index into states) *)
Fixpoint run_hist (st : pstate) (h : list (nat * nat * nat)) (declined : bool) : Z :=
  match h with
  | [] => if declined then 3 else 0
  | (c, v, s) :: r =>
      match nth_error calls c, nth_error views v, nth_error states s with
      | Some o, Some iv, Some is_ =>
          let (st', mv) := step junk0 engine0 faithful st o in
          let a := view_agree mv iv in
          if (a =? 1) then 1
          else if state_agree st' is_ then run_hist st' r (declined || (a =? 3)) else 2
      | _, _, _ => 4
      end
  end.
Fixpoint verif_codes (l : list (list (nat * nat * nat))) (i : Z) : list (Z * Z) :=
  match l with
  | nil => nil
  | h :: r => let k := run_hist init h false in if k =? 0 then verif_codes r (i + 1) else (i, k) :: verif_codes r (i + 1)
  end.
Eval vm_compute in (verif_codes verif_cases 0).
'''


def call_term(call):
    kind, s, md = call[0], call[1], call[2]
    if kind == 'parse':
        return '(OParse %s)' % strl(s)
    lst = lambda xs: '[' + ';'.join(strl(x) for x in xs) + ']'      # noqa
    envt = 'env0' if kind in ('eval', 'evalI') else '(env_sub %s %s %s)' % tuple(lst(x) for x in call[3])
    return '(OEval %s %s %s)' % (envt, 'None' if md is None else '(Some %d%%nat)' % md,
                                   'None' if s is None else '(Some %s)' % strl(s))


def view_term(o):
    k = o[0]
    if k == 'tree':
        return '(ITree %s %s)' % (sexp_term(o[1]), namesl(*o[2]))
    if k == 'perr':
        if o[1] == 'engine':
            return '(IPErr EEngine)'
        if o[1] == 'unbal':
            return '(IPErr (EUnbal %s %s))' % (o[2], strl(o[3]))
        return '(IPErr (EUnparse %s))' % strl(o[2])
    if k == 'nan':
        return '(INan %s %d%%nat)' % (namesl(*o[1]), o[2])
    if k == 'ai':
        return '(IAllowInf %s)' % view_term(o[1])
    if k == 'inf':
        return '(IInf %s %d%%nat)' % (namesl(*o[1]), o[2])
    if k == 'val':
        return '(IVal %s %s %d%%nat)' % ('None' if o[1] is None else '(Some %s)' % val_term(o[1]), namesl(*o[2]), o[3])
    if k == 'dims':
        return 'IDims'
    if k == 'err':
        return '(IErr %s)' % o[1]
    return 'IOther'


def state_term(s):
    if s[0] == 'unobservable':
        return 'IUnobservable'
    if s[0] == 'skip':
        return 'ISkip'
    entries, scratch = s
    return '(IState [%s] %s)' % ('; '.join('(%s, %s)' % (strl(k), namesl(*nm)) for k, nm in entries), namesl(*scratch))


class Table(object):
    def __init__(self):
        self.ids, self.items = {}, []

    def id(self, x):
        if x not in self.ids:
            self.ids[x] = len(self.items)
            self.items.append(x)
        return self.ids[x]


def eval_histories(tag, seqs, results, shard, on_codes):
    """seqs: list of call lists; results: per sequence ([(obs, outcome, state)], changed).
    Queues the case files; on_codes({index: code}, errors) is called when they have been evaluated."""
    files = []
    for k in range(0, len(seqs), shard):
        calls, views, states = Table(), Table(), Table()
        cases = []
        for sq, (out, _chg) in zip(seqs[k:k + shard], results[k:k + shard]):
            steps = ['(%d%%nat, %d%%nat, %d%%nat)' % (calls.id(c), views.id(o[0]), states.id(o[2])) for c, o in zip(sq, out)
                     if c[0] != 'consumer']
            cases.append('[' + '; '.join(steps) + ']')
        keys = []
        for c in calls.items:
            if c[0] != 'consumer' and fresh_outcome(c)[:2] == ('exc', 'RecursionError') and c[1] is not None:
                k0 = (c[1].strip() if c[0] != 'parse' else c[1]).replace(' ', '')
                if k0 not in keys:
                    keys.append(k0)
        text = (HEADER + ENV_COQ +
                '(* recorded oracle: the space-free strings on which the engine gave up (RecursionError) on a fresh parser *)\n'
                'Definition engine_keys : list str := [ %s ].\n' % '; '.join(strl(k0) for k0 in keys) +
                'Definition engine0 (k : str) : bool := existsb (str_eqb k) engine_keys.\n'
                'Definition calls : list op :=\n  [ %s ].\n' % '\n  ; '.join(call_term(c) for c in calls.items) +
                'Definition views : list iview :=\n  [ %s ].\n' % '\n  ; '.join(view_term(v) for v in views.items) +
                'Definition states : list istate :=\n  [ %s ].\n' % '\n  ; '.join(state_term(s) for s in states.items) +
                'Definition verif_cases : list (list (nat * nat * nat)) :=\n  [ %s ].\n' % '\n  ; '.join(cases) + RUNNER)
        files.append(('%s_p%d_%04d' % (tag, os.getpid(), k // shard), text))

    def handler(out):
        codes, errors = {}, []
        for (name, rc, txt), k in zip(out, range(0, len(seqs), shard)):
            m = re.search(r'=\s*(\[.*?\]|nil)\s*:\s*list \(Z \* Z\)', txt, re.S)
            if rc != 0 or not m:
                errors.append((name, txt[-2000:]))
                continue
            for a, b in re.findall(r'\((-?\d+),\s*(-?\d+)\)', m.group(1)):
                codes[k + int(a)] = int(b)
        on_codes(codes, errors)
    DEFER.add(files, handler)


class Deferred(object):
    """case files of all stages are evaluated in one parallel batch at the end of run()"""
    def __init__(self):
        self.jobs = []

    def add(self, files, handler):
        self.jobs.append((files, handler))

    def flush(self):
        jobs, self.jobs = self.jobs, []
        out = core.run_case_files([f for files, _ in jobs for f in files])
        # file names carry the pid (two checks of C10 may run at once); evaluated files are removed, failed ones kept
        for name, rc, txt in out:
            if rc == 0 and not os.environ.get('C10_KEEP_CASES'):
                try:
                    os.remove(os.path.join(core.CASES, name + '.v'))
                except OSError:
                    pass
        i = 0
        for files, handler in jobs:
            handler(out[i:i + len(files)])
            i += len(files)


DEFER = Deferred()


# =================================================================================================
# histories: generation, oracle, correspondence
# =================================================================================================
def show_call(c):
    if c[0] == 'newparser':
        return '<a new MathParser is installed as the shared parser>'
    if c[0] == 'consumer':
        return '%s(%r)' % (c[1], c[2])
    if c[0] == 'edit':
        return 'in-place edit of the reused %s dict: delete/add %r' % ({'v': 'variables', 'f': 'functions', 's': 'suffixes'}[c[1]], c[2])
    text = c[1] if c[1] is None or len(c[1]) < 120 else c[1][:40] + '...' + c[1][-8:]
    extra = '' if c[2] is None else ', max_array_dim=%d' % c[2]
    if c[0] == 'evalI':
        extra += ', allow_inf=True'
    if c[0] == 'evalS':
        extra += ', <the reused scope dicts>'
    if c[0] == 'evalC':
        extra += ', scope=%r' % (c[3],)
    return '%s(%r%s)' % ('parse' if c[0] == 'parse' else 'evaluator', text, extra)


def original_prefix(orig, j):
    """the steps as generated (with edits, evalS, consumers) up to and including step j"""
    return orig[:j + 1]


def check_histories(res, seqs, results, stats):
    """the fresh-vs-shared oracle on every call of every history"""
    # a grader's verdict on an input must not depend on whether the author's answer happens to be spelled like the input
    # (= whether that very string was evaluated just before, inside the grader)
    for c in sorted(set(c for sq in seqs for c in sq if c[0] == 'consumer' and c[1] in TWINS), key=repr):
        if ('twin', c) in _FRESH:
            continue
        _FRESH[('twin', c)] = True
        twin = ('consumer', TWINS[c[1]], c[2])
        a, b = fresh_outcome(c), fresh_outcome(twin)
        res.oracle_evals += 1
        if a != b and ('timeout',) not in (a, b):
            res.witnesses.append({'key': 'twin:%s' % show_call(c), 'kind': 'history', 'calls': [list(c)], 'twin': list(twin),
                                  'what': '%s gives %r but %s gives %r: the outcome for the student string depends on whether the '
                                          'author\'s answer is the same string (evaluated just before through the shared parser)'
                                          % (show_call(c), a, show_call(twin), b)})
    origs = list(ORIG) if len(ORIG) == len(seqs) else seqs
    mismatches = []
    for sq, (out, changed), orig in zip(seqs, results, origs):
        for i, (call, o) in enumerate(zip(sq, out)):
            res.oracle_evals += 1
            want = fresh_outcome(call)
            got = o[1]
            if want == ('timeout',):
                break
            if got != want:
                steps = original_prefix(orig, o[4]) + ([call] if orig[o[4]][0] == 'consumer' and call[0] != 'consumer' else [])
                n_steps = len([c for c in steps if c[0] not in ('edit', 'newparser')])
                # did the history touch the same string before?  (the first thing the property names)
                same = any(c is not steps[-1] and len(c) > 1 and c[1] == call[1] for c in steps[:-1])
                mismatches.append((0 if same else 1, n_steps, len(mismatches), steps, call))
                break
            stats['outcomes'][got[0] if got[0] != 'exc' else 'exc:' + got[1]] += 1
        if changed is not None:
            res.witnesses.append({
                'key': 'handed-out:%s' % '|'.join(show_call(c) for c in orig), 'kind': 'handed-out',
                'calls': [list(c) for c in orig],
                'what': 'the object returned by successful parse #%d reported %r when returned and %r after the later calls'
                        % (changed[0] + 1, changed[1], changed[2])})
        stats['sequences'] += 1
    # Every mismatch is confirmed from a pristine library state before it is reported (the workers run many histories in one
    # process; if something leaks OUTSIDE the parser a history may be disturbed by its predecessors -- that is the business
    # of the perturb-then-probe stage, which finds the cause).  A history of one call cannot depend on itself.  Confirmations
    # cost a pool start each: histories that used the same string before go first, short ones first, a few per distinct call.
    tried = {}
    for _prio, n_steps, _k, steps, call in sorted(mismatches, key=lambda m: m[:3]):
        conf = None
        if n_steps >= 2 and tried.get(call, 0) < 4 and stats.get('confirmed', 0) < 6 and stats.get('confirmations', 0) < 150:
            tried[call] = tried.get(call, 0) + 1
            stats['confirmations'] = stats.get('confirmations', 0) + 1
            conf = confirm_pristine(steps)
        if conf is None:
            stats['mismatches_not_confirmed_in_pristine_state'] = stats.get('mismatches_not_confirmed_in_pristine_state', 0) + 1
            continue
        jj, ecall, cgot, cwant = conf
        stats['confirmed'] = stats.get('confirmed', 0) + 1
        res.witnesses.append({
            'key': 'history:%s' % '|'.join(show_call(c) for c in steps), 'kind': 'history',
            'calls': [list(c) for c in steps],
            'what': 'after this history %s gives %r; alone, on a new parser in a pristine library state, it gives %r'
                    % (show_call(ecall), cgot, cwant)})


# strings and, per string, names whose presence in the scope matters (variables, functions, suffixes) plus one that does not
SCOPE_EDITS = [
    ('x+y', [('v', 'x'), ('v', 'y'), ('v', 'z'), ('s', 'k')]),
    ('f(x)+2k*f', [('v', 'f'), ('f', 'f'), ('s', 'k'), ('v', 'x'), ('f', 'h')]),
    ('[y,2e]', [('v', 'y'), ('s', 'e'), ('s', 'M')]),
    ('g(a_{1},1e1e)', [('f', 'g'), ('v', 'a_{1}'), ('s', 'e')]),
    ('h(z)*2M', [('f', 'h'), ('v', 'z'), ('s', 'M')]),          # needs names the initial scope lacks
]


def scope_edit_histories():
    """evaluations that reuse the same scope dict objects, with in-place edits between them"""
    out = []
    for s, names in SCOPE_EDITS:
        for which, nm in names:
            e = ('edit', which, nm)
            ev = ('evalS', s, None)
            out += [[ev, e, ev], [ev, e, ev, e, ev], [e, ev, e, ev], [('parse', s, None), e, ev, e, ev],
                    [ev, e, ('parse', s, None), ev], [('eval', s, None), ev, e, ev, ('eval', s, None)],
                    [ev, e, ('evalS', ' ' + s.replace('+', ' + '), None), e, ('evalS', s, 0)]]
        # two edits at once
        if len(names) >= 2:
            e1, e2 = ('edit',) + names[0], ('edit',) + names[1]
            ev = ('evalS', s, None)
            out += [[ev, e1, e2, ev, e1, ev, e2, ev]]
    return out


def consumer_histories(ctx, rng):
    """direct parse / evaluate calls interleaved with the parser's consumers; every consumer call is followed by a re-check of
    every string the history has seen"""
    direct_strings = ['n^2 + u', 'u + n*n', 'c*x', 'x*c', 'sqrt(16)', '2*pi', 'x+1', 'f(x)+2k*f', '[y,2e]', 'x+y', 'f(x,)', '(x']
    all_calls = [('consumer', cid, inp) for cid in sorted(CONSUMERS) for inp in CONSUMERS[cid][1]]
    seqs = [[c] for c in all_calls]
    for c in all_calls:                          # the strings a consumer touches, parsed / evaluated before and after it
        strs = consumer_strings(c[1], c[2])[:2]
        seqs.append([('parse', t, None) for t in strs] + [c])
        seqs.append([('eval', strs[0], None), c, c])
    n = 30 if ctx['tier'] == 'quick' else 600
    if ctx['escalate'] and ctx['tier'] == 'quick':
        n = 120
    for _ in range(n):
        sq = []
        for _ in range(rng.randint(3, 6)):
            if rng.random() < 0.5:
                sq.append(rng.choice(all_calls))
            else:
                sq.append((rng.choice(['parse', 'eval']), rng.choice(direct_strings), None))
        if not any(c[0] == 'consumer' for c in sq):
            sq.append(rng.choice(all_calls))
        seqs.append(sq)
    return seqs


def histories(ctx, res, rng, stats):
    calls = alphabet_calls()
    extra = list(EXTRA_CALLS)
    full3 = ctx['tier'] == 'thorough' or ctx['escalate']
    seqs = [[c] for c in calls + extra]
    seqs += [[a, b] for a in calls + extra for b in calls + extra]
    if full3:
        seqs += [list(t) for t in itertools.product(calls, repeat=3)]
    else:
        # every triple of the shallow strings, the parse/evaluate pattern drawn per triple; the engine-failing string
        # between two uses of every string
        shallow = [a for a in ALPHABET if a != DEEP]
        for t in itertools.product(shallow, repeat=3):
            seqs.append([(rng.choice(['parse', 'eval']), s, None) for s in t])
        for a in shallow:
            for k2 in ('parse', 'eval'):
                seqs.append([(rng.choice(['parse', 'eval']), a, None), (k2, DEEP, None), (rng.choice(['parse', 'eval']), a, None)])
    if ctx['tier'] == 'thorough':
        # every quadruple of strings, the parse/evaluate pattern drawn per quadruple
        for t in itertools.product(ALPHABET, repeat=4):
            seqs.append([(rng.choice(['parse', 'eval']), s, None) for s in t])
    seqs += scope_edit_histories()
    stats['scope_edit_sequences'] = len(scope_edit_histories())
    cons = consumer_histories(ctx, rng)
    stats['consumer_sequences'] = len(cons)
    seqs += cons
    results = run_many(seqs)
    seqs, results = drop_unobserved(seqs, results, stats)
    check_histories(res, seqs, results, stats)
    def on_codes(codes, errors):
        res.corr_errors += errors
        declined = 0
        for i, code in sorted(codes.items()):
            if code == 3:
                declined += 1
                continue
            res.disagreements.append({'kind': 'history', 'code': {1: 'outcome differs', 2: 'cache/scratch state differs',
                                                                   4: 'bad case'}.get(code, code),
                                      'calls': [show_call(c) for c in seqs[i]],
                                      'implementation': [repr(o[0])[:300] for o in results[i][0]]})
        res.boundary += declined
    eval_histories('c10_hist', seqs, results, max(400, (len(seqs) + NFILES[0] - 1) // NFILES[0]), on_codes)
    res.programs += sum(len(s) for s in seqs)
    stats['exhaustive_sequences'] = len(seqs)
    stats['exhaustive_len3_full'] = bool(full3)
    for sq in seqs:
        if len(sq) >= 2:
            res.nontrivial.add(tuple(sq))
    bad = set(['f(x,)', 'x y+', '(x', 'y_1)', '2%%#'])
    pick = next((i for i, sq in enumerate(seqs) if len(sq) == 3 and sq[0][1] in bad and sq[1][1] not in bad
                 and sq[2][1] not in bad and sq[1][1] != sq[2][1]), len(seqs) - 1)
    res.samples.append({'history': [show_call(c) for c in seqs[pick]],
                        'outcome_of_each_call': [repr(o[1])[:200] for o in results[pick][0]],
                        'same_calls_on_fresh_parsers': [repr(fresh_outcome(c))[:200] for c in seqs[pick]],
                        'cache_keys_after': [e[0] for e in results[pick][0][-1][2][0]],
                        'scratch_after': results[pick][0][-1][2][1]})
    return seqs, results


# =================================================================================================
# derivations with confusable names
# =================================================================================================
BASES = ['a', 'ab', 'abc', 'b', 'ba', 'x', 'xy', 'y', 'e', 'E', 'f', 'g', 'k', 'sin', 'si', 'n', 'T', 'a1', 'a1b', 'e1', 'E2',
         'pi', 'i', 'j', 'max', 'M', 'm']
SUBS = ['', '', '', '_1', '_b', '_ab', '_1_2', '_', '_x1', '1_', '_e']
TENSOR = ['_{1}', '_{ab}', '_{-1}', '^{2}', '^{ab}', '_{1}^{2}', '_{a}^{-b}', '_{e}']
PRIMES = ['', '', '', "'", "''"]
NUMERALS = ['2', '10', '0', '1', '3', '1.5', '.5', '5.', '0.25', '1e3', '2E5', '1e-3', '2e+2', '1.5e2', '7e—2', '.5e1', '5.e2']
SUFFIXES = [None, None, None, 'k', 'M', '%', 'e', 'E', 'ek', 'ke', '%%', 'm', 'e', 'ee', 'k%', 'x', 'f']


def gen_name(rng):
    b = rng.choice(BASES)
    mid = rng.choice(TENSOR) if rng.random() < 0.2 else rng.choice(SUBS)
    return b + mid + rng.choice(PRIMES)


def norm_numeral(t):
    return t.replace('e', 'E').replace('—', '-')


def gen_expr(rng, depth, pool):
    """derivation as nested tuples; pool = the names this derivation draws from (so that roles collide)"""
    r = rng.random()
    if depth <= 0 or r < 0.22:
        if rng.random() < 0.45:
            return ('num', rng.choice(NUMERALS), rng.choice(SUFFIXES))
        return ('var', rng.choice(pool))
    k = rng.random()
    if k < 0.15:
        return ('app', rng.choice(pool), [gen_expr(rng, depth - 1, pool) for _ in range(rng.randint(1, 3))])
    if k < 0.23:
        return ('arr', [gen_expr(rng, depth - 1, pool) for _ in range(rng.randint(1, 3))])
    if k < 0.28:
        return ('paren', gen_expr(rng, depth - 1, pool))
    if k < 0.62:
        return (rng.choice(['add', 'sub', 'mul', 'div']), gen_expr(rng, depth - 1, pool), gen_expr(rng, depth - 1, pool))
    if k < 0.70:
        return ('par', [gen_expr(rng, depth - 1, pool) for _ in range(rng.randint(2, 3))])
    if k < 0.80:
        return ('neg', gen_expr(rng, depth - 1, pool))
    if k < 0.84:
        return ('pos', gen_expr(rng, depth - 1, pool))
    return ('pow', gen_expr(rng, depth - 1, pool), gen_expr(rng, depth - 1, pool))


LEVEL = {'add': 0, 'sub': 0, 'pos': 0, 'mul': 1, 'div': 1, 'par': 2, 'neg': 3, 'pow': 4}


def level(e):
    return LEVEL.get(e[0], 5)


def toks(e, need=0):
    """token texts of the rendering of Model/EvalSpec.v (parentheses exactly where the precedence requires them)"""
    t = _toks(e)
    return ['('] + t + [')'] if level(e) < need else t


def _toks(e):
    k = e[0]
    if k == 'num':
        return [('N', e[1], e[2])]
    if k == 'var':
        return [e[1]]
    if k == 'app':
        out = [e[1], '(']
        for i, a in enumerate(e[2]):
            out += ([','] if i else []) + toks(a)
        return out + [')']
    if k == 'arr':
        out = ['[']
        for i, a in enumerate(e[1]):
            out += ([','] if i else []) + toks(a)
        return out + [']']
    if k == 'paren':
        return ['('] + toks(e[1]) + [')']
    if k in ('add', 'sub'):
        return toks(e[1]) + ['+' if k == 'add' else '-'] + toks(e[2], 1)
    if k in ('mul', 'div'):
        return toks(e[1], 1) + ['*' if k == 'mul' else '/'] + toks(e[2], 2)
    if k == 'par':
        out = []
        for i, a in enumerate(e[1]):
            out += (['||'] if i else []) + toks(a, 3)
        return out
    if k == 'neg':
        return ['-'] + toks(e[1], 4)
    if k == 'pos':
        return ['+'] + toks(e[1], 1)
    if k == 'pow':
        base = toks(e[1], 5)
        b = e[2]
        if b[0] == 'neg' and level(b[1]) >= 4:
            return base + ['^', '-'] + toks(b[1])
        return base + ['^'] + toks(b, 4)
    raise ValueError(k)


def map_num_leaf(e, j, fn):
    """apply fn to the j-th numeral leaf in left-to-right order"""
    cnt = [0]

    def walk(x):
        k = x[0]
        if k == 'num':
            cnt[0] += 1
            return fn(x) if cnt[0] - 1 == j else x
        if k == 'var':
            return x
        if k == 'app':
            return (k, x[1], [walk(a) for a in x[2]])
        if k in ('arr', 'par'):
            return (k, [walk(a) for a in x[1]])
        if k in ('paren', 'neg', 'pos'):
            return (k, walk(x[1]))
        a = walk(x[1])
        return (k, a, walk(x[2]))
    return walk(e)


def protect_e_suffix(e):
    """A numeral without exponent whose suffix is exactly e / E, followed by a sign and a digit, IS scientific notation
    ('2e+3').  A derivation that means (2 with suffix e) + 3 therefore has no such rendering; the generator writes the
    explicit parentheses into the derivation: (2e)+3."""
    for _ in range(200):
        ts = toks(e)
        bad, j = None, -1
        for i, a in enumerate(ts):
            if not isinstance(a, tuple):
                continue
            j += 1
            if i + 2 < len(ts):
                b, c = ts[i + 1], ts[i + 2]
                if a[2] in ('e', 'E') and 'e' not in a[1].lower() and b in ('+', '-') \
                        and isinstance(c, tuple) and c[1][0].isdigit():
                    bad = j
                    break
        if bad is None:
            return e
        e = map_num_leaf(e, bad, lambda x: ('paren', x))
    raise AssertionError('protect_e_suffix did not converge')


def tok_text(t, rng=None):
    if isinstance(t, tuple):
        return t[1] + (t[2] or '')
    if t == '-' and rng is not None and rng.random() < 0.1:
        return '—'
    return t


WS_BETWEEN = ['', '', '', ' ', '\t', '\n', '\r', '  ', ' \t', '\n ']


def render(e, rng, style):
    ts = toks(e)
    if style == 0:
        return ''.join(tok_text(t, rng) for t in ts)
    if style == 1:
        return ''.join(tok_text(t, rng) + rng.choice(['', '', ' ', '  ']) for t in ts)
    if style == 2:
        return rng.choice(WS_BETWEEN) + ''.join(tok_text(t, rng) + rng.choice(WS_BETWEEN) for t in ts)
    s = ''.join(tok_text(t, rng) for t in ts)          # spaces anywhere, also inside names and numerals
    out = []
    for ch in s:
        out.append(ch)
        if rng.random() < 0.2:
            out.append(' ')
    return ''.join(out)


def expected_names(e):
    """the name sets known by construction: role of every leaf of the derivation"""
    v, f, u = set(), set(), set()

    def walk(x):
        k = x[0]
        if k == 'num':
            if x[2] is not None:
                u.add(x[2])
        elif k == 'var':
            v.add(x[1])
        elif k == 'app':
            f.add(x[1])
            for a in x[2]:
                walk(a)
        elif k in ('arr', 'par'):
            for a in x[1]:
                walk(a)
        elif k in ('paren', 'neg', 'pos'):
            walk(x[1])
        else:
            walk(x[1])
            walk(x[2])
    walk(e)
    return names_obs(v, f, u)


def expr_term(e):
    k = e[0]
    if k == 'num':
        return '(ENum %s %s)' % (strl(norm_numeral(e[1])), 'None' if e[2] is None else '(Some %s)' % strl(e[2]))
    if k == 'var':
        return '(EVar %s)' % strl(e[1])
    if k == 'app':
        return '(EApp %s [%s])' % (strl(e[1]), ';'.join(expr_term(a) for a in e[2]))
    if k == 'arr':
        return '(EArr [%s])' % ';'.join(expr_term(a) for a in e[1])
    if k == 'par':
        return '(EPar [%s])' % ';'.join(expr_term(a) for a in e[1])
    if k == 'paren':
        return '(EParen %s)' % expr_term(e[1])
    if k == 'neg':
        return '(ENeg %s)' % expr_term(e[1])
    if k == 'pos':
        return '(EPos %s)' % expr_term(e[1])
    return '(%s %s %s)' % ({'add': 'EAdd', 'sub': 'ESub', 'mul': 'EMul', 'div': 'EDiv', 'pow': 'EPow'}[k],
                           expr_term(e[1]), expr_term(e[2]))


# hand-written derivations for the situations the property names
def _v(n):
    return ('var', n)


def _n(t, s=None):
    return ('num', t, s)


FIXED_DERIVATIONS = [
    ('add', ('app', 'x', [_v('f')]), ('mul', _n('2', 'k'), _v('x'))),                      # x function and variable
    ('add', _v('a'), ('add', _v('ab'), ('add', _v('abc'), ('app', 'ab', [_v('b')])))),      # prefixes / suffixes
    ('mul', _v("x'"), ('app', "x''", [_v('x')])),                                          # primes
    ('add', _v('a_1'), ('add', _v('a_1_2'), ('mul', _v('a_'), _v('a')))),                  # underscores
    ('pow', _v('T_{1}^{2}'), ('add', _v('T_{1}'), _v('T^{2}'))),                           # tensor indices
    ('pow', _v('T_{1}'), _n('2')),
    ('add', _n('2', 'e'), _n('1e5', 'e')),                                                 # suffix e next to exponents
    ('add', ('paren', _n('2', 'e')), _n('3')),                                             # (2e)+3 is not 2e+3
    _n('2e+3'),
    ('sub', _n('2', 'E'), _v('e')),
    ('mul', _n('2', 'ek'), ('add', _n('5.', 'e'), _n('.5e1', 'E'))),
    ('arr', [_v('p'), ('arr', [_v('q'), ('app', 'h', [_n('3', '%')])])]),                  # names only inside arrays
    ('pow', _n('2'), _v('z')),                                                             # names only in exponents
    ('pow', _n('2'), ('neg', ('pow', _v('u'), ('app', 'w', [_v('w')])))),
    ('par', [_v('r'), ('app', 'r', [_v('s'), _v('r')]), _n('1', 'r')]),                    # one name in all three roles
    ('div', ('app', 'sin', [_v('si')]), ('mul', _v('n'), ('app', 'si', [_v('sin')]))),
    ('neg', ('pos', ('neg', _v('m')))),
]


def patiently(fn, *a, **k):
    st, r = core.guarded(fn, *a, seconds=20, **k)
    if st == 'timeout':
        st, r = core.guarded(fn, *a, seconds=300, **k)
    return st, r


def names_stream(ctx, res, rng, stats):
    I = impl()
    ex, PR = I['ex'], I['ParseResults']
    n = 700 if ctx['tier'] == 'quick' else 12000
    if ctx['escalate'] and ctx['tier'] == 'quick':
        n = 2500
    cases = []
    for e in FIXED_DERIVATIONS:
        for style in (0, 1, 2, 3):
            cases.append((protect_e_suffix(e), style))
    while len(cases) < n:
        pool = [gen_name(rng) for _ in range(rng.randint(1, 4))]
        if rng.random() < 0.5:        # force prefix / suffix relatives into the pool
            plain = [q for q in pool if q.isalnum()]
            if plain:
                p = rng.choice(plain)
                pool += [p + rng.choice(['a', '1', "'", '_1', 'e'])] + ([p[:-1]] if len(p) > 1 else [])
        e = protect_e_suffix(gen_expr(rng, rng.randint(1, 5), pool))
        cases.append((e, rng.randint(0, 3)))
    P = ex.MathParser()
    ex.PARSER = P
    terms, metas = [], []
    for e, style in cases:
        s = render(e, rng, style)
        want = expected_names(e)
        res.oracle_evals += 1
        st, r = patiently(ex.parse, s)
        if st == 'timeout':
            stats['names_timeouts'] = stats.get('names_timeouts', 0) + 1
            continue
        if st != 'ret':
            res.witnesses.append({'key': 'names:' + s, 'kind': 'names', 's': s, 'expected': [list(x) for x in want],
                                  'what': 'a rendered derivation was not accepted: %r' % (r,)})
            continue
        got = names_obs(r.variables_used, r.functions_used, r.suffixes_used)
        if got != want:
            res.witnesses.append({'key': 'names:' + s, 'kind': 'names', 's': s, 'expected': [list(x) for x in want],
                                  'what': 'parse(%r) reports variables/functions/suffixes %r, the derivation has %r' % (s, got, want)})
        # evaluator(s, scope)[1] with every name of the derivation defined
        V = dict((nme, 1.5) for nme in want[0])
        F = {}
        for nme in want[1]:
            fn = (lambda *a: 1.25)
            fn.validated = True
            F[nme] = fn
        S = dict((nme, 2.0) for nme in want[2])
        st2, r2 = patiently(ex.evaluator, s, V, F, S)
        res.oracle_evals += 1
        if st2 == 'ret':
            meta = r2[1]
            got2 = names_obs(meta.variables_used, meta.functions_used, meta.suffixes_used)
            stats['names_evaluated'] += 1
            if got2 != want:
                res.witnesses.append({'key': 'names-eval:' + s, 'kind': 'names', 's': s, 'expected': [list(x) for x in want],
                                      'what': 'evaluator(%r, ...)[1] reports %r, the derivation has %r' % (s, got2, want)})
        elif st2 == 'exc' and type(r2).__name__ in ('UndefinedVariable', 'UndefinedFunction'):
            res.witnesses.append({'key': 'names-scope:' + s, 'kind': 'names', 's': s, 'expected': [list(x) for x in want],
                                  'what': 'with every name of the derivation defined, evaluator(%r) still raises %s: %s'
                                          % (s, type(r2).__name__, r2)})
        # an undefined-name check must name exactly a name of the derivation: drop one and expect the matching error
        if want[0] and rng.random() < 0.3:
            drop = rng.choice(want[0])
            V2 = dict(V)
            del V2[drop]
            st3, r3 = patiently(ex.evaluator, s, V2, F, S)
            res.oracle_evals += 1
            if st3 != 'timeout' and not (st3 == 'exc' and type(r3).__name__ == 'UndefinedVariable' and ("'%s'" % drop) in str(r3)):
                res.witnesses.append({'key': 'names-missing:' + s, 'kind': 'names', 's': s, 'expected': [list(x) for x in want],
                                      'what': 'variable %r occurs in %r but leaving it undefined gives %r %r' % (drop, s, st3, r3)})
        terms.append('(%s, %s, %s, %s)' % (strl(s), expr_term(e), sexp_term(sexp_of(r.tree, PR)), namesl(*got)))
        metas.append((s, e, got))
        nvf = (len(want[0]), len(want[1]), len(want[2]))
        stats['names_sizes'][nvf] += 1
        overlap = (set(want[0]) & set(want[1])) or (set(want[0]) & set(want[2])) or (set(want[1]) & set(want[2]))
        if overlap:
            stats['names_role_overlap'] += 1
        if sum(nvf) >= 2:
            res.nontrivial.add(('names', s))
    stats['names_cases'] = len(terms)
    header = (HEADER + '''
Fixpoint toks_eqb (a b : list token) : bool :=
  match a, b with [], [] => true | x :: a', y :: b' => token_eqb x y && toks_eqb a' b' | _, _ => false end.
(* 0 ok; 1 the string does not lex to the rendering of the derivation / brackets; 2 tree differs; 3 names differ *)
Definition names_case (c : str * expr * sexp * names) : Z :=
  match c with
  | (s, e, x, nm) =>
      let k := strip_spaces s in
      if negb (wf_expr e) then 1
      else match check_brackets k, lex k with
           | None, Some ts =>
               if negb (toks_eqb ts (render e)) then 1
               else match spec_parse (fun _ => false) s with
                    | VTree t l => if negb (sexp_eqb (to_sexp t) x && sexp_eqb (to_sexp (flatten e)) x) then 2
                                   else if names_same l nm && names_same (enames e) nm && names_same (scan_names ts) nm then 0 else 3
                    | VErr _ => 2
                    end
           | _, _ => 1
           end
  end.
Fixpoint verif_codes (l : list (str * expr * sexp * names)) (i : Z) : list (Z * Z) :=
  match l with
  | nil => nil
  | c :: r => let k := names_case c in if k =? 0 then verif_codes r (i + 1) else (i, k) :: verif_codes r (i + 1)
  end.
''')
    shard = max(100, (len(terms) + NFILES[0] - 1) // NFILES[0])
    files = []
    for k in range(0, len(terms), shard):
        files.append(('c10_names_p%d_%04d' % (os.getpid(), k // shard),
                      header + 'Definition verif_cases : list (str * expr * sexp * names) :=\n  [ %s ].\n'
                      % '\n  ; '.join(terms[k:k + shard]) + 'Eval vm_compute in (verif_codes verif_cases 0).\n'))
    def handler(out):
        for (name, rc, txt), k in zip(out, range(0, len(terms), shard)):
            m = re.search(r'=\s*(\[.*?\]|nil)\s*:\s*list \(Z \* Z\)', txt, re.S)
            if rc != 0 or not m:
                res.corr_errors.append((name, txt[-2000:]))
                continue
            for a, b in re.findall(r'\((-?\d+),\s*(-?\d+)\)', m.group(1)):
                s, e, got = metas[k + int(a)]
                res.disagreements.append({'kind': 'names', 's': s, 'derivation': repr(e)[:400], 'implementation_reports': got,
                                          'code': {1: 'string does not lex to the rendering of the derivation',
                                                   2: 'tree differs', 3: 'names differ'}.get(int(b), b)})
    DEFER.add(files, handler)
    res.programs += len(terms)
    if metas:
        for s, e, got in (metas[1], metas[min(len(metas) - 1, len(FIXED_DERIVATIONS) * 4 + 5)]):
            res.samples.append({'string': s, 'derivation': repr(e)[:300], 'known_by_construction': expected_names(e),
                                'reported (vars, funcs, suffixes)': got})
    return [m[0] for m in metas]


# =================================================================================================
# longer random histories
# =================================================================================================
MUTATION_ALPHABET = "xyf12.e+-*/^|()[],' \t_{}%k—E"


def mutate(rng, s):
    s = list(s)
    for _ in range(rng.randint(1, 2)):
        op = rng.random()
        pos = rng.randrange(len(s) + 1)
        if op < 0.4 and s:
            del s[min(pos, len(s) - 1)]
        elif op < 0.8:
            s.insert(pos, rng.choice(MUTATION_ALPHABET))
        elif s:
            s[min(pos, len(s) - 1)] = rng.choice(MUTATION_ALPHABET)
    return ''.join(s)


def random_histories(ctx, res, rng, stats, rendered):
    n = 450 if ctx['tier'] == 'quick' else 12000
    if ctx['escalate'] and ctx['tier'] == 'quick':
        n = 1500
    base = list(ALPHABET) + [c[1] for c in EXTRA_CALLS if c[1]] + [r for r in rendered if len(r) <= 60][:400]
    seqs = []
    for _ in range(n):
        pool = [rng.choice(base) for _ in range(rng.randint(2, 5))]
        if rng.random() < 0.25:
            pool.append(rng.choice(['1e400', '1e308*100', '[1, 1e308*100]', '2^2000', '1e308*100+x', '-1e400', '1e400k', '1/0', 'ln(0)',
                                    'cot(0)', '[1,2]/0', 'exp(1000)', 'f(1,2)', 'x/(y-3)']))
        shallow = [q for q in pool if len(q) < 200] or ['x']
        pool += [mutate(rng, rng.choice(shallow)) for _ in range(rng.randint(1, 3))]
        pool += [p.replace(' ', '') if rng.random() < 0.5 else ' ' + p.replace('+', ' + ') for p in pool[:2]]
        if rng.random() < 0.12:
            # an input on which the engine gives up, after a name, a suffix or a function head has fired.  It is added after
            # the mutants were drawn: a stray character deep inside would stop the descent at a depth near the interpreter's
            # limit, where the outcome depends on how deep the CALLER's stack is -- not a matter of parse history
            depth = rng.randint(300, 500)
            op, cl = rng.choice([('(', ')'), ('[', ']'), ('g(', ')')])
            pool.append('%s%s%s%s%s%s' % (gen_name(rng), rng.choice(['+', '*', '-']), rng.choice(['2k', '3%', '1e1e', 'f(x)']),
                                          rng.choice(['*', '+', '^']), op * depth + rng.choice(['1', 'y', '2e']), cl * depth))
        sq = []
        for _ in range(rng.randint(5, 12)):
            s = rng.choice(pool)
            k = rng.random()
            if k < 0.5:
                sq.append(('parse', s, None))
            elif k < 0.82:
                sq.append(('eval', s, None))
            elif k < 0.9:
                sq.append(('evalI', s, None))
            elif k < 0.97:
                sq.append(('eval', s, rng.choice([0, 1])))
            else:
                sq.append(('eval', None, None))
        if rng.random() < 0.35:
            # the evaluations of this history reuse the same scope dict objects, edited in place now and then
            sq = [('evalS', c[1], c[2]) if c[0] == 'eval' and c[1] is not None else c for c in sq]
            for _ in range(rng.randint(1, 4)):
                which = rng.choice('vvfs')
                nm = rng.choice(sorted({'v': VARS_ALL, 'f': FUNCS_ALL, 's': SUFS_ALL}[which]))
                sq.insert(rng.randrange(1, len(sq) + 1), ('edit', which, nm))
        seqs.append(sq)
    results = run_many(seqs)
    seqs, results = drop_unobserved(seqs, results, stats, share=0.15)
    check_histories(res, seqs, results, stats)
    def on_codes(codes, errors):
        res.corr_errors += errors
        declined = 0
        for i, code in sorted(codes.items()):
            if code == 3:
                declined += 1
                continue
            res.disagreements.append({'kind': 'random-history', 'code': {1: 'outcome differs', 2: 'cache/scratch state differs',
                                                                          4: 'bad case'}.get(code, code),
                                      'calls': [show_call(c) for c in seqs[i]],
                                      'implementation': [repr(o[0])[:300] for o in results[i][0]]})
        res.boundary += declined
        stats['model_declined_sequences'] = stats.get('model_declined_sequences', 0) + declined
    eval_histories('c10_rand', seqs, results, max(40, (len(seqs) + NFILES[0] - 1) // NFILES[0]), on_codes)
    res.programs += sum(len(s) for s in seqs)
    stats['random_sequences'] = len(seqs)
    stats['random_calls'] = sum(len(s) for s in seqs)
    for sq in seqs:
        res.nontrivial.add(tuple(sq))
    return seqs, results


# =================================================================================================
# consumers of the reported names
# =================================================================================================
def consumers(ctx, res, rng, stats, rendered_with_names):
    from mitxgraders import DependentSampler, FormulaGrader
    from mitxgraders.helpers.math_helpers import MathMixin
    from mitxgraders.exceptions import InvalidInput
    n = 150 if ctx['tier'] == 'quick' else 1500
    picks = [rng.choice(rendered_with_names) for _ in range(n)]
    for s, want in picks:
        res.oracle_evals += 1
        st, ds = patiently(DependentSampler, formula=s)
        if st == 'timeout':
            continue
        if st != 'ret':
            res.witnesses.append({'key': 'depends:' + s, 'kind': 'consumer', 's': s,
                                  'what': 'DependentSampler(formula=%r) failed: %r' % (s, ds)})
        elif sorted(ds.config['depends']) != list(want[0]):
            res.witnesses.append({'key': 'depends:' + s, 'kind': 'consumer', 's': s,
                                  'what': 'DependentSampler(formula=%r) infers depends=%r, the derivation uses variables %r'
                                          % (s, sorted(ds.config['depends']), list(want[0]))})
    for _ in range(n // 3):
        group = [rng.choice(rendered_with_names) for _ in range(rng.randint(1, 4))]
        exprs = [g[0] for g in group] + rng.choice([[], [None], ['  ']])
        rng.shuffle(exprs)
        res.oracle_evals += 1
        st, used = patiently(MathMixin.get_used_vars, exprs)
        if st == 'timeout':
            continue
        want = set()
        for g in group:
            want |= set(g[1][0])
        if st != 'ret' or set(used) != want:
            res.witnesses.append({'key': 'get_used_vars:%r' % (exprs,), 'kind': 'consumer', 's': repr(exprs),
                                  'what': 'get_used_vars(%r) = %r, the derivations use %r' % (exprs, used, sorted(want))})
    # function restrictions read functions_used: an answer that matches but calls a function outside the whitelist is refused,
    # whatever was graded before (shared parser)
    g = FormulaGrader(answers='x+1', variables=['x', 'cos'], whitelist=['sin'])
    for inp, refused in (('x+1', False), ('x+cos(0)', True), ('x+1+cos-cos', False), ('x+cos(0)', True), ('x+1', False),
                         ('x+sin(0)+1', False), ('x+exp(0)', True), ('cos(0)+x+cos-cos', True), ('x+1+cos-cos', False)):
        res.oracle_evals += 1
        st, r = patiently(g, None, inp)
        if st == 'timeout':
            continue
        ok = (st == 'exc' and isinstance(r, InvalidInput)) if refused else (st == 'ret' and r['ok'] is True)
        if not ok:
            res.witnesses.append({'key': 'whitelist:' + inp, 'kind': 'consumer', 's': inp,
                                  'what': 'FormulaGrader(variables=[x, cos], whitelist=[sin]) on %r: expected %s, got %r %r'
                                          % (inp, 'InvalidInput' if refused else 'correct', st, r)})
    stats['consumer_checks'] = n + n // 3 + 9


# =================================================================================================
# perturb-then-probe: state that leaks between histories (outside the parser object: module level, class level, the process)
# =================================================================================================
def _probe_worker(job):
    perturbers, probes = job
    purge('full')
    for sq in perturbers:
        run_sequence(sq)
    outs = []
    for c in probes:
        out, _chg = run_sequence([c])
        outs.append(out[0][1] if out else ('timeout',))
    return outs


def probe_jobs(jobs):
    try:
        ctx = multiprocessing.get_context('fork')
        with ctx.Pool(min(core.NPROC, max(1, len(jobs)))) as pool:
            return pool.map(_probe_worker, jobs)
    except (OSError, ValueError):
        return None


def differs(got, want):
    if ('timeout',) in (got, want):
        return False
    if (got[:2] == ('exc', 'RecursionError')) != (want[:2] == ('exc', 'RecursionError')):
        return False
    return got != want


def perturb_then_probe(ctx, res, rng, stats, pool_seqs):
    """Each job starts from a pristine library state, runs a varied batch of the histories generated above (every one on its own
    new parser), then runs every probe call on yet another new parser.  A probe whose outcome differs from its pristine
    reference has been influenced by something the batch left behind outside the parser; the batch is then bisected down to
    the histories that cause it, and the resulting single history (perturbers, a new parser, the probe) is confirmed from a
    pristine state before it is reported."""
    probes = alphabet_calls() + list(EXTRA_CALLS) + [('consumer', cid, inp) for cid in sorted(CONSUMERS) for inp in CONSUMERS[cid][1]]
    prefetch_fresh(probes)
    nb, size = (6, 40) if ctx['tier'] == 'quick' and not ctx['escalate'] else (16, 60)
    if not pool_seqs:
        return
    batches = [[rng.choice(pool_seqs) for _ in range(size)] for _ in range(nb)]
    outs = probe_jobs([(b, probes) for b in batches])
    if outs is None:
        stats['perturb_then_probe'] = 'worker pool unavailable'
        return
    stats['perturb_then_probe'] = {'batches': nb, 'histories_per_batch': size, 'probes': len(probes)}
    reported = 0
    seen_probes = set()
    for b, o in zip(batches, outs):
        for c, got in zip(probes, o):
            res.oracle_evals += 1
            if not differs(got, fresh_outcome(c)) or c in seen_probes or reported >= 3:
                continue
            seen_probes.add(c)
            cur = list(b)
            while len(cur) > 1:
                h1, h2 = cur[:len(cur) // 2], cur[len(cur) // 2:]
                r = probe_jobs([(h1, [c]), (h2, [c])])
                if r is None:
                    break
                if differs(r[0][0], fresh_outcome(c)):
                    cur = h1
                elif differs(r[1][0], fresh_outcome(c)):
                    cur = h2
                else:
                    break               # needs histories from both halves: keep what we have
            steps = []
            for sq in cur:
                steps += list(sq) + [('newparser',)]
            steps.append(c)
            conf = confirm_pristine(steps)
            if conf is None:
                stats['mismatches_not_confirmed_in_pristine_state'] = stats.get('mismatches_not_confirmed_in_pristine_state', 0) + 1
                continue
            jj, ecall, cgot, cwant = conf
            reported += 1
            res.witnesses.append({
                'key': 'leak:%s' % show_call(c), 'kind': 'history', 'calls': [list(x) for x in steps],
                'what': 'after %s -- and although a new MathParser was installed afterwards -- %s gives %r; alone, in a pristine '
                        'library state, it gives %r' % ([show_call(x) for x in steps[:-2]], show_call(ecall), cgot, cwant)})


# =================================================================================================
def run(ctx):
    import collections
    res = core.Result()
    rng = random.Random(7919 * ctx['seed'] + 10)
    stats = {'outcomes': collections.Counter(), 'sequences': 0, 'names_sizes': collections.Counter(), 'names_role_overlap': 0,
             'names_evaluated': 0}
    res.rule = ('histories: distinct call sequences of length >= 2 (a call = parse or evaluator with a string; the first call of a '
                'sequence alone is the fresh reference); names: distinct rendered derivations with at least two name occurrences')
    NFILES[0] = 16 if ctx['tier'] == 'thorough' else 6
    saved = impl()['ex'].PARSER
    try:
        pool_seqs = []
        histories(ctx, res, rng, stats)
        pool_seqs += [list(sq) for sq in ORIG if len(sq) >= 2]
        rendered = names_stream(ctx, res, rng, stats)
        random_histories(ctx, res, rng, stats, rendered)
        pool_seqs += [list(sq) for sq in ORIG]
        perturb_then_probe(ctx, res, random.Random(31 * ctx['seed'] + 7), stats, pool_seqs)
    finally:
        impl()['ex'].PARSER = saved
    DEFER.flush()
    # consumers run on the library's own shared parser, after everything above has been through the module
    with_names = []
    rng2 = random.Random(104729 * ctx['seed'] + 3)
    for e in FIXED_DERIVATIONS:
        e = protect_e_suffix(e)
        with_names.append((render(e, rng2, 1), expected_names(e)))
    for _ in range(200):
        pool = [gen_name(rng2) for _ in range(rng2.randint(1, 4))]
        e = protect_e_suffix(gen_expr(rng2, rng2.randint(1, 4), pool))
        with_names.append((render(e, rng2, rng2.randint(0, 3)), expected_names(e)))
    consumers(ctx, res, rng2, stats, with_names)
    res.exhaustive = True
    res.distribution = {
        'exhaustive_sequences': stats.get('exhaustive_sequences'),
        'exhaustive_scope': ('all call sequences of length <= 2 over %d calls; ' % (len(alphabet_calls()) + len(EXTRA_CALLS))) +
                            ('all %d^3 call triples' % len(alphabet_calls()) if stats.get('exhaustive_len3_full') else
                             'all %d^3 triples of the shallow strings with a drawn parse/evaluate pattern, the deep string between two uses of each' % (len(ALPHABET) - 1)) +
                            ('; all %d^4 string quadruples with a drawn pattern each' % len(ALPHABET) if ctx['tier'] == 'thorough' else ''),
        'sequences_not_observed_within_300s': stats.get('sequences_not_observed_within_300s', 0),
        'sequences_near_the_recursion_limit_dropped': stats.get('sequences_near_the_recursion_limit_dropped', 0),
        'mismatches_not_confirmed_in_pristine_state': stats.get('mismatches_not_confirmed_in_pristine_state', 0),
        'alphabet': [a if len(a) < 60 else a[:14] + '...(%d levels)...' % NEST + a[-4:] for a in ALPHABET], 'calls_in_alphabet': len(alphabet_calls()) + len(EXTRA_CALLS),
        'random_sequences': stats.get('random_sequences'), 'random_calls': stats.get('random_calls'),
        'outcome_kinds': dict(stats['outcomes']),
        'names_cases': stats.get('names_cases'), 'names_with_a_name_in_two_roles': stats['names_role_overlap'],
        'names_metadata_via_evaluator': stats['names_evaluated'],
        'names_sizes_top': dict(('%d vars/%d funcs/%d suffixes' % k, v) for k, v in stats['names_sizes'].most_common(8)),
        'consumer_checks': stats.get('consumer_checks'),
        'histories_reusing_scope_dicts_with_in_place_edits': stats.get('scope_edit_sequences'),
        'histories_interleaving_consumers_with_recheck': stats.get('consumer_sequences'),
        'consumers': sorted(CONSUMERS),
        'perturb_then_probe': stats.get('perturb_then_probe'),
        'sequences_where_the_model_declines_a_value': stats.get('model_declined_sequences', 0),
    }
    return res


def replay(w):
    kind = w.get('kind')
    ex = impl()['ex']
    saved = ex.PARSER
    PATIENCE[0] = 300
    try:
        if kind in ('history', 'handed-out'):
            calls = [tuple(tuple(tuple(y) if isinstance(y, list) else y for y in x) if isinstance(x, list) else x for x in c)
                     for c in w['calls']]
            if kind == 'history' and not w.get('twin'):
                conf = confirm_pristine(calls)
                if conf is None:
                    return False, 'every call of %s gives what it gives alone on a new parser in a pristine library state' % (
                        [show_call(c) for c in calls],)
                return True, 'during %s: %s gives %r; alone, on a new parser in a pristine library state, it gives %r' % (
                    [show_call(c) for c in calls], show_call(conf[1]), conf[2], conf[3])
            out, changed = run_sequence(calls)
            if kind == 'handed-out':
                return changed is not None, 'objects handed out during %s: %s' % (
                    [show_call(c) for c in calls], 'changed afterwards: %r' % (changed,) if changed else 'unchanged')
            if w.get('twin'):
                twin = tuple(tuple(x) if isinstance(x, list) else x for x in w['twin'])
                _FRESH.pop(calls[0], None)
                _FRESH.pop(twin, None)
                a, b = fresh_outcome(calls[0]), fresh_outcome(twin)
                return a != b, '%s gives %r; %s gives %r' % (show_call(calls[0]), a, show_call(twin), b)
            for o in out:
                _FRESH.pop(o[3], None)
                want = fresh_outcome(o[3])
                if want != ('timeout',) and o[1] != ('timeout',) and o[1] != want:
                    return True, 'during %s: %s gives %r; freshly constructed parser (new dicts of equal content) gives %r' % (
                        [show_call(c) for c in calls], show_call(o[3]), o[1], want)
            return False, 'every call of %s gives what a freshly constructed parser gives' % ([show_call(c) for c in calls],)
        if kind == 'names':
            s = w['s']
            want = tuple(tuple(x) for x in w['expected'])
            ex.PARSER = ex.MathParser()
            st, r = patiently(ex.parse, s)
            if st != 'ret':
                return st != 'timeout', 'parse(%r) raised %r' % (s, r)
            got = names_obs(r.variables_used, r.functions_used, r.suffixes_used)
            V = dict((n, 1.5) for n in want[0])
            F = {}
            for n in want[1]:
                fn = (lambda *a: 1.25)
                fn.validated = True
                F[n] = fn
            S = dict((n, 2.0) for n in want[2])
            st2, r2 = patiently(ex.evaluator, s, V, F, S)
            got2 = None
            if st2 == 'ret':
                got2 = names_obs(r2[1].variables_used, r2[1].functions_used, r2[1].suffixes_used)
            bad = got != want or (got2 is not None and got2 != want) or \
                (st2 == 'exc' and type(r2).__name__ in ('UndefinedVariable', 'UndefinedFunction'))
            return bad, 'parse(%r) reports %r, evaluator metadata %r (%s), derivation has %r' % (s, got, got2, st2, want)
    finally:
        ex.PARSER = saved
    # consumer witnesses: re-run the consumer stream
    res = core.Result()
    rng2 = random.Random(3)
    with_names = []
    for e in FIXED_DERIVATIONS:
        e = protect_e_suffix(e)
        with_names.append((render(e, rng2, 1), expected_names(e)))
    import collections
    consumers({'tier': 'quick'}, res, rng2, {'names_sizes': collections.Counter()}, with_names)
    hit = [x for x in res.witnesses]
    return bool(hit), 'consumer witnesses on the current tree: %d (first: %r)' % (len(hit), hit[:1])


LEVEL_TEXT = ('Theorems about the executable model, for token streams, derivations and histories of any size: (1) the names recorded by '
              'every parse action that fires while an input is accepted -- including those inside abandoned function alternatives and '
              'repetition bodies -- are, with multiplicity, exactly the variable / function / suffix occurrences of the accepted tree; '
              'for every rendered derivation they are exactly the occurrences of the derivation, role by role; (2) the parser state '
              'machine (cache, shared set objects on a heap, scratch cell replaced on every exit) satisfies an invariant under every '
              'call, so the outcome of parse/evaluate after any history of valid and malformed calls equals the outcome on a fresh '
              'parser, objects handed out earlier never change, and the evaluating call coincides with C03\'s evaluator.')
LEVEL_NOTE = ('The model replaces pyparsing by a lexer + PEG with explicit callbacks; which callbacks pyparsing really fires on failing '
              'input (junk) and on which inputs the engine itself gives up with a non-parse exception (engine) are parameters the '
              'theorems quantify over. Tie by differential correspondence of every call of every '
              'history (outcome, cache, scratch) and of name sets on generated derivations; no axioms.')
TECHNIQUE = ('Coq proof (state-machine invariant with a reference heap, induction over histories; level-by-level "stop" invariant for '
             'the callback parser; permutation reasoning) + vm_compute trace correspondence + fresh-vs-shared oracle')
DESIGN_REF = 'DESIGN.md section 3, C10'
