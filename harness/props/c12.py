"""C12 -- every random draw satisfies all constraints its sampling set declares.

Tie (A): coq/Gen/Sampler.v regenerated from sampling.py / matrixsampling.py (translate/sampler.py) + Bridge/Sampler.v.
Tie (B): differential correspondence.  The module-level names `np` / `random` of mitxgraders.sampling and
         mitxgraders.matrixsampling are replaced at run time by recording proxies, so every PRNG draw and every
         numerical-library answer (np.sin, np.exp, np.linalg.det, np.power, eigvals(h), np.linalg.norm) the
         implementation consumed is known.  Each case handed to Coq contains those recorded answers and the
         implementation's sample; Coq runs the model on them (vm_compute) and decides agreement, and also
         checks the oracle contracts the theorems assume (|sin|<=1, |exp(it)|=1, det/root/eigenvalue/norm
         residuals) on the recorded answers.
Oracle : an independent statement of the property in exact integer / Fraction arithmetic applied to what the
         implementation returned (membership, shape, dtype, symmetry, trace, determinant, norm, bound, fixedness).
"""
import cmath
import itertools
import math
import random as pyrandom
from fractions import Fraction

from harness import core
from harness.core import zlit, natlit, boollit, listlit
from translate import sampler as tr_sampler

ID = 'C12'
PROPS = 'Props/C12.v'
TRANSLATORS = [('Gen/Sampler.v', tr_sampler.generate)]
MIRRORED = [('mitxgraders/sampling.py', 'RealInterval'), ('mitxgraders/sampling.py', 'IntegerRange'),
            ('mitxgraders/sampling.py', 'ComplexRectangle'), ('mitxgraders/sampling.py', 'ComplexSector'),
            ('mitxgraders/sampling.py', 'DiscreteSet'), ('mitxgraders/sampling.py', 'SpecificFunctions'),
            ('mitxgraders/sampling.py', 'RandomFunction'),
            ('mitxgraders/matrixsampling.py', 'ArraySamplingSet'), ('mitxgraders/matrixsampling.py', 'GeneralMatrices'),
            ('mitxgraders/matrixsampling.py', 'SquareMatrixSamplingSet'),
            ('mitxgraders/matrixsampling.py', 'IdentityMatrixMultiples'), ('mitxgraders/matrixsampling.py', 'SquareMatrices'),
            ('mitxgraders/helpers/validatorfuncs.py', 'NumberRange'),
            ('mitxgraders/helpers/validatorfuncs.py', 'is_shape_specification')]
REFUTED = []
TRUSTED = [
    'translator translate/sampler.py (Python ast -> Gallina: interval swap and formulas, randint arguments, RandomFunction '
    'coefficient formulas, SquareMatrices.__init__ decision tree, apply_symmetry / triangular steps)',
    'correspondence harness harness/props/c12.py: run-time proxies for the module globals np / random of sampling.py and '
    'matrixsampling.py record every PRNG draw and numerical-library answer; floats enter Coq as exact dyadic rationals; '
    'agreement decided in Coq within 1e-9 relative to the matrix scale (1e-12 for scalars)',
    'modelled, not verified: IEEE rounding; numpy PRNG (assumed to return values in the documented ranges), np.sin, np.exp, '
    'np.linalg.det / eigvals / eigvalsh / norm, np.power (their answers are recorded, their contracts are hypotheses of '
    'the theorems and are checked numerically on every recorded answer)',
]
ASSUMPTIONS = ['PRNG contracts: random_sample/rand in [0,1), randint(low, high) in [low, high), random.choice returns a listed member',
               '|sin| <= 1 and |exp(it)| = 1 for the values np.sin / np.exp return (checked on every recorded value)',
               'norm ranges are non-negative; scipy-based samplers (orthogonal, unitary) are outside the claim',
               'the configuration of a sampler is not mutated between drawing a random function and calling it']
LEVEL_TEXT = ('Theorems for all parameters, all dimensions and all oracle answers within their contracts: real/integer intervals (any order of '
              'endpoints, degenerate, every point / integer attainable), complex rectangles and sectors (np.exp as a unit-modulus oracle, and the '
              'genuine cos/sin over R), discrete sets and function lists (only listed members, each attainable), random functions (arity, '
              'output dimension, realness, |f - center| <= amplitude for every input_dim, with np.sin as a bounded oracle and with the '
              'genuine sine over R), vectors/matrices/tensors (norm, '
              'triangularity, realness), identity multiples, and the whole SquareMatrices pipeline for every dimension and every accepted '
              'option combination: requested symmetry, trace 0, determinant exactly 1, determinant exactly 0 (or below the code\'s own 5e-13 '
              'cut-off when its early return is taken), norm in the declared range, realness, at most 100 passes, the assert and the '
              '"Unknown class configuration" branch unreachable. The linear algebra is proved on the executable Laplace determinant: '
              'det(cA) = c^n det A, transpose invariance, hermitian => real determinant, antisymmetric of odd dimension => singular. '
              'Interval / integer / constructor / apply_symmetry / triangular / coefficient-formula statements are on definitions '
              'regenerated from the source on every run (Gen/Sampler.v + bridge).')
LEVEL_NOTE = ('Partial: exact (Gaussian) rational arithmetic with the PRNG and numpy/LAPACK answers (det, n-th root, eigenvalues, norm, sin, exp) '
              'as contract-bound oracles; floating-point linear algebra is observed (residuals checked in Coq on every recorded answer), not '
              'verified; orthogonal/unitary samplers need scipy (absent). Everything except the real-analysis statements is closed under '
              'the global context; the real-analysis statements use Coq Reals (sig_forall_dec, sig_not_dec, '
              'functional_extensionality_dep). The model follows /repo after fix 857063e (RandomFunction scaling).')
TECHNIQUE = ('Coq proof (Q / Gaussian rationals with a setoid field, Laplace determinant by induction, Reals for sin/cos) + source-to-Gallina '
             'translator + vm_compute correspondence on recorded oracle answers + exact integer-arithmetic property oracle')
DESIGN_REF = 'DESIGN.md section 3, C12'


# ------------------------------------------------------------------------------------------------
# Coq side
# ------------------------------------------------------------------------------------------------
HEADER = ('From Coq Require Import ZArith QArith Qabs List Bool Arith.\n'
          'From Verif.Lib Require Import QRound PyNum.\n'
          'From Verif.Model Require Import Sampler SamplerMat.\n'
          'From Verif.Gen Require Sampler.\nImport ListNotations.\nOpen Scope Q_scope.\n')

AGREE_DEFS = r'''
(* compact literals: U n = n / 2^53 (a PRNG draw), D n k = n / 2^k (any float) *)
Definition U (n : Z) : Q := n # 9007199254740992.
Definition D (n : Z) (k : positive) : Q := n # (Pos.pow 2 k).
Definition eps12 : Q := 1 # 1000000000000.
Definition eps9 : Q := 1 # 1000000000.
Definition qclose_rel (eps a b scale : Q) : bool := Qle_bool (Qabs (a - b)) (eps * (1 + scale)).
Definition cclose_rel (eps : Q) (a b : C) (scale : Q) : bool := cclose (eps * (1 + scale)) a b.
Definition cabs1 (z : C) : Q := Qabs (fst z) + Qabs (snd z).

(* ---- scalar samplers ---- *)
Inductive scase :=
| SReal (a b u obs : Q)
| SInt (a b lo hi r obs : Z)
| SRect (re0 re1 im0 im1 u1 u2 : Q) (obs : C)
| SSect (m0 m1 a0 a1 u1 u2 earg : Q) (e obs : C)
| SChoice (n idx obs : nat)
| SIdent (dim : nat) (s : C) (obs : list (list C)).

Definition gen_ri (a b u : Q) : Q :=
  let r := Gen.Sampler.gen_real_interval_init a b in Gen.Sampler.gen_real_interval_gen (fst r) (snd r) u.

Definition scase_ok (c : scase) : bool :=
  match c with
  | SReal a b u obs =>
      let v := gen_ri a b u in
      qclose_rel eps12 v obs (Qabs a + Qabs b) && Qle_bool (Qmin a b) v && Qle_bool v (Qmax a b)
      && Qeq_bool v (real_interval a b u)
  | SInt a b lo hi r obs =>
      let rg := Gen.Sampler.gen_integer_range_init a b in
      let call := Gen.Sampler.gen_integer_range_call (fst rg) (snd rg) in
      (fst call =? lo)%Z && (snd call =? hi)%Z && (obs =? r)%Z && (Z.min a b <=? obs)%Z && (obs <=? Z.max a b)%Z
      (* both endpoints attainable: the regenerated call covers exactly [min, max] *)
      && (fst call =? Z.min a b)%Z && (snd call =? Z.max a b + 1)%Z
      && (fst (integer_range_call (fst (integer_range_init a b)) (snd (integer_range_init a b))) =? lo)%Z
  | SRect re0 re1 im0 im1 u1 u2 obs =>
      let z := complex_rectangle re0 re1 im0 im1 u1 u2 in
      qclose_rel eps12 (fst z) (fst obs) (Qabs re0 + Qabs re1) && qclose_rel eps12 (snd z) (snd obs) (Qabs im0 + Qabs im1)
  | SSect m0 m1 a0 a1 u1 u2 earg e obs =>
      let th := sector_argument a0 a1 u2 in
      let z := complex_sector (fun _ => e) m0 m1 a0 a1 u1 u2 in
      qclose_rel eps12 th earg (Qabs a0 + Qabs a1) && qclose_rel eps12 (cnormsq e) 1 0
      && cclose_rel eps12 z obs (Qabs m0 + Qabs m1)
  | SChoice n idx obs => Nat.ltb idx n && Nat.eqb (choice (seq 0 n) idx n) obs
  | SIdent dim s obs =>
      forall2b dim dim (fun i j => ceqb (identity_multiple s i j) (nth j (nth i obs []) (1, 1)))
      && Nat.eqb (length obs) dim && forallb (fun r => Nat.eqb (length r) dim) obs
  end.

(* ---- random functions ---- *)
(* oracle tables: (exact argument the model asks for, argument the implementation passed, value returned) *)
Definition sin_table := list (Q * Q * Q).
Definition exp_table := list (Q * Q * C).
(* keys are emitted in lowest terms; the queried argument is reduced once and compared structurally *)
Definition qsame (a b : Q) : bool := Z.eqb (Qnum a) (Qnum b) && Pos.eqb (Qden a) (Qden b).
Fixpoint lookup_sin' (t : sin_table) (q : Q) : Q :=
  match t with [] => 2 | (a, _, v) :: r => if qsame a q then v else lookup_sin' r q end.
Definition lookup_sin (t : sin_table) (q : Q) : Q := lookup_sin' t (Qred q).
Fixpoint lookup_exp' (t : exp_table) (q : Q) : C :=
  match t with [] => (2, 2) | (a, _, v) :: r => if qsame a q then v else lookup_exp' r q end.
Definition lookup_exp (t : exp_table) (q : Q) : C := lookup_exp' t (Qred q).

Record rfpoint := mkPt { p_x : list Q; p_sin : sin_table; p_obs : option (list C) }.
Record rfcase := mkRf { f_in : nat; f_out : nat; f_terms : nat; f_center : C; f_amp : Q; f_cplx : bool;
                        f_raw : list (list (list rf_raw)); f_exp : exp_table; f_points : list rfpoint }.

Fixpoint clist_close (eps scale : Q) (a b : list C) : bool :=
  match a, b with
  | [], [] => true
  | x :: a', y :: b' => cclose_rel eps x y scale && clist_close eps scale a' b'
  | _, _ => false
  end.

Definition rfcase_ok (c : rfcase) : bool :=
  let expi := lookup_exp (f_exp c) in
  let f := rf_draw expi (f_cplx c) (f_raw c) in
  let scale := cabs1 (f_center c) + f_amp c in
  rf_shape_ok (f_out c) (f_terms c) (f_in c) (f_raw c)
  && forallb (fun e => match e with (a, a', v) => qclose_rel eps12 a a' (Qabs a) && qclose_rel eps9 (cnormsq v) 1 0 end) (f_exp c)
  && forallb (fun p =>
       forallb (fun e => match e with (a, a', v) => qclose_rel eps9 a a' (Qabs a) && Qle_bool (Qabs v) 1 end) (p_sin p)
       && match rf_eval (lookup_sin (p_sin p)) (f_in c) (f_center c) (f_amp c) (Z.of_nat (f_terms c)) f (p_x p), p_obs p with
          | None, None => true
          | Some ys, Some obs =>
              clist_close eps9 scale ys obs && Nat.eqb (length ys) (f_out c)
              (* the property on the model's own values: within center +/- amplitude *)
              && forallb (fun y => Qle_bool (cnormsq (csub y (f_center c))) (f_amp c * f_amp c * (1 + eps9))) ys
          | _, _ => false
          end) (f_points c).

(* ---- arrays ---- *)
Fixpoint rows_close (eps scale : Q) (a b : list (list C)) : bool :=
  match a, b with
  | [], [] => true
  | x :: a', y :: b' => clist_close eps scale x y && rows_close eps scale a' b'
  | _, _ => false
  end.
Definition rows_scale (a : list (list C)) : Q :=
  fold_right (fun r acc => fold_right (fun z acc' => Qred (cabs1 z + acc')) acc r) 0 a.

Record acase := mkA { c_tri : triopt; c_cplx : bool; c_n : nat; c_m : nat; c_lo : Q; c_hi : Q; c_att : attempt;
                      c_obs : list (list C); c_obs_complex : bool }.

Definition acase_ok (c : acase) : bool :=
  let X := materialize (c_n c) (c_m c) (Gen.Sampler.gen_tri_apply (c_tri c) (raw_array (c_cplx c) (a_re (c_att c)) (a_im (c_att c)))) in
  let M := to_rows (c_n c) (c_m c) (array_attempt (c_tri c) (c_cplx c) (c_n c) (c_m c) (c_lo c) (c_hi c) (c_att c)) in
  let nn := a_norm (c_att c) * a_norm (c_att c) in
  rows_close eps9 (rows_scale M) M (c_obs c)
  && qclose_rel eps9 nn (mnormsq (c_n c) (c_m c) X) nn
  && Bool.eqb (c_cplx c) (c_obs_complex c)
  && Qle_bool 0 (a_u (c_att c)) && Qltb (a_u (c_att c)) 1.

(* ---- square matrices ---- *)
Record qcase := mkQ { s_sym : symm; s_traceless : bool; s_det : detopt; s_cplx0 : bool; s_dim : nat; s_lo : Q; s_hi : Q;
                      s_atts : list attempt;
                      s_obs : option (list (list C) * nat * list (list okind));   (* None: ConfigError *)
                      s_obs_complex : bool }.

Fixpoint trace_eqb (a b : list okind) : bool :=
  match a, b with [], [] => true | x :: a', y :: b' => okind_eqb x y && trace_eqb a' b' | _, _ => false end.
Fixpoint traces_eqb (a b : list (list okind)) : bool :=
  match a, b with [], [] => true | x :: a', y :: b' => trace_eqb x y && traces_eqb a' b' | _, _ => false end.

(* determinant for the residual checks: Gaussian-integer expansion (C12_fast_determinant), reduced Laplace
   expansion (C12_reduced_determinant) as a fall-back *)
Definition det_of (dim : nat) (W : fmat) : C :=
  match fast_det dim W with Some d => d | None => mdetr dim W end.

Definition det_scale (dim : nat) (W : fmat) : Q :=
  let s := 1 + rows_scale (to_rows dim dim W) in Qred (qpow_nat s dim).

(* contracts of the oracles on the last (successful) pass + the property predicates on the model's result *)
Definition last_pass_ok (c : qcase) (cplx : bool) (M : fmat) : bool :=
  match rev (s_atts c) with
  | [] => false
  | a :: _ =>
    let dim := s_dim c in
    let W := materialize dim dim (Gen.Sampler.gen_sq_apply_symmetry (s_sym c) (s_traceless c) dim (raw_array cplx (a_re a) (a_im a))) in
    let Wm := materialize dim dim (sq_apply_symmetry (s_sym c) (s_traceless c) dim (raw_array cplx (a_re a) (a_im a))) in
    let Mm := materialize dim dim M in
    forall2b dim dim (fun i j => ceqb (W i j) (Wm i j))
    && has_symmetry_b (s_sym c) dim Mm
    && (negb (s_traceless c) || ceqb (mtrace dim Mm) c0)
    && Qle_bool 0 (a_u a) && Qltb (a_u a) 1
    && match s_det c with
       | DNone => qclose_rel eps9 (a_norm a * a_norm a) (mnormsq dim dim W) (mnormsq dim dim W)
       | DOne =>
           (* det answer is the determinant; the root answer is an n-th root of what the model hands to np.power; with
              these two, det M = 1 is C12_square_matrices_sound *)
           cclose_rel eps9 (a_det a) (det_of dim W) (det_scale dim W)
           && (let tgt := if negb cplx || symm_eqb (s_sym c) SHerm || symm_eqb (s_sym c) SAHerm
                          then (if Qltb 0 (cre (a_det a)) then cofQ (cre (a_det a)) else cofQ (- cre (a_det a)))
                          else a_det a in
               cclose_rel eps9 (cpow (cred (a_root a)) dim) tgt (cabs1 tgt))
       | DZero =>
           (* det answer is the determinant; the matrix handed to the final normalisation has determinant 0 (this is
              where the eigenvalue answers are checked); M is a real multiple of it by C12_square_matrices_sound *)
           cclose_rel eps9 (a_det a) (det_of dim W) (det_scale dim W)
           && match make_det_zero (s_sym c) cplx dim a Wm with
              | Done Z _ => let Zm := materialize dim dim Z in cclose_rel eps9 (det_of dim Zm) c0 (det_scale dim Zm)
              | _ => false
              end
       end
  end.

Definition qcase_ok (c : qcase) : bool :=
  let init := Gen.Sampler.gen_sqm_init (s_sym c) (s_traceless c) (s_det c) (s_cplx0 c) (Z.of_nat (s_dim c)) in
  match init, sqm_init (s_sym c) (s_traceless c) (s_det c) (s_cplx0 c) (Z.of_nat (s_dim c)) with
  | None, None => match s_obs c with None => true | Some _ => false end
  | Some g, Some cplx =>
    Bool.eqb g cplx &&
    match square_matrices (s_sym c) (s_traceless c) (s_det c) (s_cplx0 c) (s_dim c) (s_lo c) (s_hi c) (s_atts c), s_obs c with
    | Some (GDone M passes traces), Some (obs, passes', traces') =>
        let rows := to_rows (s_dim c) (s_dim c) M in
        Nat.eqb passes passes' && traces_eqb traces traces'
        && rows_close eps9 (rows_scale rows) rows obs
        && Bool.eqb cplx (s_obs_complex c)
        && last_pass_ok c cplx M
    | _, _ => false
    end
  | _, _ => false
  end.
'''


def qf(x):
    """exact Coq literal of a finite float / int / Fraction"""
    fr = Fraction(x)
    n, d = fr.numerator, fr.denominator
    if d == 1:
        return '(inject_Z %s)' % zlit(n)
    if d & (d - 1) == 0:
        k = d.bit_length() - 1
        if k == 53 and 0 <= n < d:
            return '(U %d)' % n
        return '(D %s %d)' % (zlit(n), k)
    return '(Qmake %s %d%%positive)' % (zlit(n), d)


def cf(z):
    z = complex(z)
    return '(%s, %s)' % (qf(z.real), qf(z.imag))


def finite(*vals):
    for v in vals:
        z = complex(v)
        if not (math.isfinite(z.real) and math.isfinite(z.imag)):
            return False
    return True


# ------------------------------------------------------------------------------------------------
# recording proxies for the module globals `np` and `random`
# ------------------------------------------------------------------------------------------------
class Recorder:
    def __init__(self):
        self.calls = []
        self.forced = {}          # kind -> list of values to return instead of drawing

    def take_forced(self, kind):
        q = self.forced.get(kind)
        if q:
            return True, q.pop(0)
        return False, None


class _Sub:
    def __init__(self, real, over):
        self._real, self._over = real, over

    def __getattr__(self, name):
        if name in self._over:
            return self._over[name]
        return getattr(self._real, name)


def make_np_proxy(rec):
    import numpy as real_np

    def random_sample(size=None):
        ok, v = rec.take_forced('random_sample')
        out = v if ok else real_np.random.random_sample(size)
        rec.calls.append(('random_sample', size, real_np.array(out, copy=True) if size is not None else float(out)))
        return out

    def rand(*shape):
        ok, v = rec.take_forced('rand')
        out = real_np.array(v, dtype=float).reshape(shape) if ok else real_np.random.rand(*shape)
        rec.calls.append(('rand', shape, real_np.array(out, copy=True)))
        return out

    def randint(*a, **k):
        args = list(a)
        low = k.get('low', args.pop(0) if args else None)
        high = k.get('high', args.pop(0) if args else None)
        if high is None:
            low, high = 0, low
        ok, v = rec.take_forced('randint')
        if ok:
            out = v(low, high) if callable(v) else v
        else:
            out = real_np.random.randint(low, high)
        rec.calls.append(('randint', low, high, int(out)))
        return out

    def sin(x):
        out = real_np.sin(x)
        rec.calls.append(('sin', real_np.array(x, copy=True), real_np.array(out, copy=True)))
        return out

    def exp(x):
        out = real_np.exp(x)
        rec.calls.append(('exp', real_np.array(x, copy=True), real_np.array(out, copy=True)))
        return out

    def power(b, e):
        out = real_np.power(b, e)
        rec.calls.append(('power', complex(b), float(e), complex(out)))
        return out

    def det(x):
        out = real_np.linalg.det(x)
        rec.calls.append(('det', real_np.array(x, copy=True), complex(out)))
        return out

    def eigvals(x):
        out = real_np.linalg.eigvals(x)
        rec.calls.append(('eigvals', real_np.array(x, copy=True), real_np.array(out, copy=True)))
        return out

    def eigvalsh(x):
        out = real_np.linalg.eigvalsh(x)
        rec.calls.append(('eigvalsh', real_np.array(x, copy=True), real_np.array(out, copy=True)))
        return out

    def norm(x):
        out = real_np.linalg.norm(x)
        rec.calls.append(('norm', real_np.array(x, copy=True), float(out)))
        return out

    rnd = _Sub(real_np.random, {'random_sample': random_sample, 'rand': rand, 'randint': randint})
    la = _Sub(real_np.linalg, {'det': det, 'eigvals': eigvals, 'eigvalsh': eigvalsh, 'norm': norm})
    return _Sub(real_np, {'random': rnd, 'linalg': la, 'sin': sin, 'exp': exp, 'power': power})


def make_random_proxy(rec):
    def choice(seq):
        ok, v = rec.take_forced('choice')
        idx = v if ok else pyrandom.randrange(len(seq))
        rec.calls.append(('choice', len(seq), idx))
        return seq[idx]
    return _Sub(pyrandom, {'choice': choice})


class Instrumented:
    """context manager: install the proxies in mitxgraders.sampling / mitxgraders.matrixsampling"""
    def __init__(self):
        self.rec = Recorder()

    def __enter__(self):
        import mitxgraders.sampling as S
        import mitxgraders.matrixsampling as MS
        self.S, self.MS = S, MS
        self.saved = (S.np, S.random, MS.np)
        npx = make_np_proxy(self.rec)
        S.np, S.random, MS.np = npx, make_random_proxy(self.rec), npx
        return self.rec

    def __exit__(self, *a):
        self.S.np, self.S.random, self.MS.np = self.saved
        return False


def seed_all(seed):
    import numpy as np
    pyrandom.seed(seed)
    np.random.seed(seed % (2 ** 32))


# ------------------------------------------------------------------------------------------------
# scalar samplers
# ------------------------------------------------------------------------------------------------
REAL_RANGES = [(1, 5), (-2, 4), (4, -2), (-7.5, -0.25), (-0.25, -7.5), (3, 3), (-1.5, -1.5), (0, 0), (0, 1), (1, 0),
               (0.1, 0.3), (1e-3, 2e-3), (-1e6, 1e6), (2.5, -2.5), (0, 1e-9), (100, 100.5)]
INT_RANGES = [(1, 5), (-2, 4), (4, -2), (-7, -3), (-3, -7), (3, 3), (-4, -4), (0, 0), (0, 1), (1, 0), (-1, 1), (10, 13),
              (-1000, 1000), (5, 4)]
RECTS = [((1, 3), (1, 3)), ((1, 4), (-5, 0)), ((4, 1), (0, -5)), ((-2, -2), (3, 3)), ((0, 0), (-1, 1)), ((-0.5, 0.5), (2, 2))]
_PI = math.pi
SECTORS = [((1, 3), (0, _PI / 2)), ((0, 1), (-_PI, _PI)), ((2, 2), (0, 1)), ((1, 3), (1, 1)), ((3, 1), (_PI / 2, 0)),
           ((0.5, 0.5), (-0.25, -0.25)), ((0, 2), (3, 3.1)), ((1, 2), (-3, -2)),
           # argument ranges whose endpoints lie outside [-pi, pi], straddle +-pi, exceed 2 pi, are reversed or degenerate:
           # the declared arc is {theta : lo <= theta <= hi}, membership is decided modulo 2 pi on that arc
           ((1, 2), (_PI / 2, 3 * _PI / 2)), ((1, 2), (_PI, 2 * _PI)), ((0.5, 1), (0, 3 * _PI / 2)),
           ((1, 3), (3 * _PI / 4, 5 * _PI / 4)), ((1, 2), (2 * _PI, 3 * _PI)), ((2, 3), (-3 * _PI / 2, -_PI / 2)),
           ((1, 2), (-5 * _PI / 4, -3 * _PI / 4)), ((1, 1.5), (3 * _PI / 2, _PI / 2)), ((1, 2), (2 * _PI, _PI)),
           ((1, 2), (4, 4)), ((1, 2), (-4, -4)), ((1, 2), (7, 7.5)), ((0.5, 2), (-9, -8.5)), ((1, 2), (3, 3.5)),
           ((1, 2), (-3.5, -3)), ((1, 2), (0, 2 * _PI)), ((1, 2), (5 * _PI, 5.5 * _PI)), ((1, 2), (-0.5, 7))]


def random_sector(rng):
    """a random declared sector: endpoints anywhere in [-4 pi, 4 pi], arcs from degenerate to more than a full turn"""
    lo = rng.uniform(-4 * _PI, 4 * _PI)
    width = rng.choice([0.0, rng.uniform(0, 0.5), rng.uniform(0, _PI), rng.uniform(_PI, 2 * _PI), rng.uniform(0, 7)])
    arg = (lo, lo + width)
    if rng.random() < 0.3:
        arg = (arg[1], arg[0])
    m0 = rng.choice([0, 0.5, 1, rng.uniform(0, 3)])
    mod = (m0, m0 + rng.choice([0, 1, rng.uniform(0, 2)]))
    return mod, arg


def sector_member(z, mod, arg, tol):
    """is z = m*exp(i*theta) for some m in [min mod, max mod] (mod >= 0) and theta in [min arg, max arg]?"""
    m0, m1 = min(mod), max(mod)
    a0, a1 = min(arg), max(arg)
    r = abs(z)
    if not (m0 - tol <= r <= m1 + tol):
        return False
    if r <= tol:
        return True
    th = cmath.phase(z)
    k0 = math.floor((a0 - th) / (2 * math.pi)) - 1
    for k in range(k0, k0 + 4):
        t = th + 2 * math.pi * k
        if a0 - tol <= t <= a1 + tol:
            return True
    return False


def scalar_sample(rec, sampler):
    """run sampler.gen_sample() and return (status, value, calls made)"""
    n0 = len(rec.calls)
    st, v = core.guarded(sampler.gen_sample)
    return st, v, rec.calls[n0:]


def scalar_term(kind, cfg, calls, v):
    """Coq term of one scalar draw, or None when it cannot be expressed"""
    if kind == 'real':
        a, b = cfg
        us = [c for c in calls if c[0] == 'random_sample']
        if len(us) != 1 or us[0][1] is not None or len(calls) != 1:
            return None
        return '(SReal %s %s %s %s)' % (qf(a), qf(b), qf(us[0][2]), qf(float(v)))
    if kind == 'int':
        a, b = cfg
        rs = [c for c in calls if c[0] == 'randint']
        if len(rs) != 1 or len(calls) != 1:
            return None
        return '(SInt %s %s %s %s %s %s)' % (zlit(a), zlit(b), zlit(rs[0][1]), zlit(rs[0][2]), zlit(rs[0][3]), zlit(int(v)))
    if kind == 'rect':
        (r0, r1), (i0, i1) = cfg
        us = [c for c in calls if c[0] == 'random_sample']
        if len(us) != 2 or len(calls) != 2:
            return None
        return '(SRect %s %s %s %s %s %s %s)' % (qf(r0), qf(r1), qf(i0), qf(i1), qf(us[0][2]), qf(us[1][2]), cf(v))
    if kind == 'sect':
        (m0, m1), (a0, a1) = cfg
        us = [c for c in calls if c[0] == 'random_sample']
        es = [c for c in calls if c[0] == 'exp']
        if len(us) != 2 or len(es) != 1 or len(calls) != 3:
            return None
        earg = complex(es[0][1])
        if earg.real != 0:
            return None
        return '(SSect %s %s %s %s %s %s %s %s %s)' % (qf(m0), qf(m1), qf(a0), qf(a1), qf(us[0][2]), qf(us[1][2]),
                                                        qf(earg.imag), cf(complex(es[0][2])), cf(v))
    raise ValueError(kind)


def check_scalar_value(kind, cfg, v):
    """independent membership test; returns None or a description of the failure"""
    if kind == 'real':
        a, b = cfg
        if isinstance(v, (bool, complex)) or not isinstance(v, (float, int)):
            return 'sample %r is not a real number' % (v,)
        if not (min(a, b) <= v <= max(a, b)):
            return 'sample %r outside [%r, %r]' % (v, min(a, b), max(a, b))
    elif kind == 'int':
        a, b = cfg
        if isinstance(v, bool) or int(v) != v or isinstance(v, float):
            return 'sample %r is not an integer' % (v,)
        if not (min(a, b) <= v <= max(a, b)):
            return 'sample %r outside [%r, %r]' % (v, min(a, b), max(a, b))
    elif kind == 'rect':
        (r0, r1), (i0, i1) = cfg
        z = complex(v)
        if not (min(r0, r1) <= z.real <= max(r0, r1) and min(i0, i1) <= z.imag <= max(i0, i1)):
            return 'sample %r outside the rectangle re %r im %r' % (v, cfg[0], cfg[1])
    elif kind == 'sect':
        mod, arg = cfg
        tol = 1e-12 * (1 + max(abs(x) for x in mod + arg))
        if not sector_member(complex(v), mod, arg, tol):
            return 'sample %r outside the sector modulus %r argument %r' % (v, mod, arg)
    return None


def make_scalar(kind, cfg, form=0):
    from mitxgraders import RealInterval, IntegerRange, ComplexRectangle, ComplexSector
    if kind == 'real':
        return RealInterval(list(cfg)) if form == 0 else RealInterval(start=cfg[0], stop=cfg[1])
    if kind == 'int':
        return IntegerRange(list(cfg)) if form == 0 else IntegerRange(start=cfg[0], stop=cfg[1])
    if kind == 'rect':
        return ComplexRectangle(re=list(cfg[0]), im=list(cfg[1])) if form == 0 else \
            ComplexRectangle(re={'start': cfg[0][0], 'stop': cfg[0][1]}, im=list(cfg[1]))
    if kind == 'sect':
        return ComplexSector(modulus=list(cfg[0]), argument=list(cfg[1]))
    raise ValueError(kind)


def run_scalars(ctx, res, rng, rec, terms, metas):
    mult = 1 if ctx['tier'] == 'quick' and not ctx['escalate'] else 6
    plan = [('real', c, 10 * mult) for c in REAL_RANGES] + [('int', c, 24 * mult) for c in INT_RANGES] + \
           [('rect', c, 8 * mult) for c in RECTS] + [('sect', c, 8 * mult) for c in SECTORS]
    # a few random intervals as well
    for _ in range(6 * mult):
        a, b = rng.choice([-1, 1]) * rng.random() * 10 ** rng.randint(-3, 3), rng.choice([-1, 1]) * rng.random() * 10 ** rng.randint(-3, 3)
        plan.append(('real', (a, b), 4))
        plan.append(('int', (rng.randint(-50, 50), rng.randint(-50, 50)), 6))
    for _ in range(24 * mult):
        plan.append(('sect', random_sector(rng), 4))
    counts = {}
    for kind, cfg, n in plan:
        for form in (0, 1):
            st, s = core.guarded(make_scalar, kind, cfg, form)
            if st != 'ret':
                res.witnesses.append({'key': 'construct:%s:%r' % (kind, cfg), 'kind': 'construct', 'sampler': kind, 'cfg': repr(cfg),
                                      'what': 'valid configuration refused: %r' % (s,)})
                continue
            seen = set()
            for i in range(n if form == 0 else max(2, n // 4)):
                st, v, calls = scalar_sample(rec, s)
                res.oracle_evals += 1
                counts[kind] = counts.get(kind, 0) + 1
                if st != 'ret':
                    res.witnesses.append({'key': 'raise:%s:%r' % (kind, cfg), 'kind': 'scalar', 'sampler': kind, 'cfg': repr(cfg),
                                          'what': 'gen_sample raised %r' % (v,)})
                    continue
                bad = check_scalar_value(kind, cfg, v)
                if bad:
                    res.witnesses.append({'key': 'scalar:%s:%r' % (kind, cfg), 'kind': 'scalar', 'sampler': kind, 'cfg': repr(cfg),
                                          'calls': repr(calls), 'what': bad})
                seen.add(v if kind == 'int' else None)
                t = scalar_term(kind, cfg, calls, v) if finite(v) else None
                if t is None:
                    res.disagreements.append({'kind': 'scalar', 'sampler': kind, 'cfg': repr(cfg),
                                              'what': 'unexpected oracle consultation %r' % ([c[0] for c in calls],)})
                else:
                    terms.append(t)
                    metas.append(('scalar', kind, cfg))
                    res.nontrivial.add((kind, cfg, repr(v)))
            # both endpoints attainable for integers: the extreme answers np.random.randint may legally return (low and
            # high - 1 of the call the sampler makes) must map to the two ends of the declared range
            if kind == 'int' and form == 0:
                lo, hi = min(cfg), max(cfg)
                for which, want in (('low', lo), ('high', hi)):
                    rec.forced['randint'] = [(lambda l, h, w=which: l if w == 'low' else h - 1)]
                    st, v, calls = scalar_sample(rec, s)
                    rec.forced.pop('randint', None)
                    res.oracle_evals += 1
                    if st != 'ret' or v != want:
                        res.witnesses.append({'key': 'int-endpoint:%r:%s' % (cfg, which), 'kind': 'int-endpoint', 'cfg': repr(cfg),
                                              'which': which, 'what': 'PRNG answer at its %s end gives %r, expected the endpoint %r'
                                              % (which, v, want)})
                    elif st == 'ret':
                        t = scalar_term('int', cfg, calls, v)
                        if t:
                            terms.append(t)
                            metas.append(('scalar', 'int-forced', cfg))
    res.distribution['scalar_draws'] = counts


# ------------------------------------------------------------------------------------------------
# discrete sets and function lists
# ------------------------------------------------------------------------------------------------
def run_discrete(ctx, res, rng, rec, terms, metas):
    import numpy as np
    from mitxgraders import DiscreteSet, SpecificFunctions, MathArray
    ident = MathArray([[1, 0], [0, 1]])
    other = MathArray([[1, 2], [3, 4]])
    sets = [3.142, (1, 3, 5, 7, 9), (2,), (0, 1), (-1.5, 2 + 1j, 7), ident, (ident, other), (1, ident), (5, 5, 5), tuple(range(12))]

    def f1(x):
        return x

    def f2(x):
        return 2 * x
    funcs = [np.sin, [np.sin, np.cos, np.tan], [f1], [f1, f2, f1], [abs, f2]]
    mult = 1 if ctx['tier'] == 'quick' and not ctx['escalate'] else 5
    n_cases = 0
    for cls, configs in ((DiscreteSet, sets), (SpecificFunctions, funcs)):
        for cfg in configs:
            st, s = core.guarded(cls, cfg)
            if st != 'ret':
                res.witnesses.append({'key': 'construct:%s:%r' % (cls.__name__, cfg), 'kind': 'construct', 'sampler': cls.__name__,
                                      'cfg': repr(cfg), 'what': 'valid configuration refused: %r' % (s,)})
                continue
            members = list(cfg) if isinstance(cfg, (tuple, list)) else [cfg]
            for i in range(12 * mult):
                st, v, calls = scalar_sample(rec, s)
                res.oracle_evals += 1
                if st != 'ret':
                    res.witnesses.append({'key': 'raise:%s:%r' % (cls.__name__, cfg), 'kind': 'discrete', 'cfg': repr(cfg),
                                          'what': 'gen_sample raised %r' % (v,)})
                    continue
                pos = [k for k, m in enumerate(members) if m is v]
                if not pos:
                    res.witnesses.append({'key': 'member:%s:%r' % (cls.__name__, cfg), 'kind': 'discrete', 'sampler': cls.__name__,
                                          'cfg': repr(cfg), 'what': 'sample %r is not one of the listed members' % (v,)})
                    continue
                ch = [c for c in calls if c[0] == 'choice']
                if len(ch) != 1 or len(calls) != 1:
                    res.disagreements.append({'kind': 'discrete', 'cfg': repr(cfg), 'what': 'unexpected oracle consultation'})
                    continue
                obs = ch[0][2] if ch[0][2] in pos else pos[0]
                terms.append('(SChoice %s %s %s)' % (natlit(ch[0][1]), natlit(ch[0][2]), natlit(obs)))
                if ch[0][1] != len(members):
                    res.disagreements.append({'kind': 'discrete', 'cfg': repr(cfg),
                                              'what': 'choice over %d items, %d members declared' % (ch[0][1], len(members))})
                metas.append(('choice', cls.__name__, repr(cfg)))
                n_cases += 1
                res.nontrivial.add((cls.__name__, repr(cfg), ch[0][2]))
    res.distribution['discrete_draws'] = n_cases


# ------------------------------------------------------------------------------------------------
# random functions
# ------------------------------------------------------------------------------------------------
PI_F = Fraction(math.pi)


def rf_grid(tier, rng):
    grid = []
    variants = [(0, 10, False), (0.5, 0.5, False), (-3, 2, False), (1 + 2j, 1.5, True), (0, 10, True), (2, 0.25, True)]
    for i in (1, 2, 3, 4):
        for o in (1, 2, 3):
            for t in (1, 2, 3, 5):
                for (c, a, cx) in variants:
                    grid.append(dict(input_dim=i, output_dim=o, num_terms=t, center=c, amplitude=a, complex=cx))
    tight = [dict(input_dim=i, output_dim=o, num_terms=1, center=c, amplitude=a, complex=cx)
             for i in (1, 2) for o in (1, 2) for (c, a, cx) in ((0, 1, True), (1 + 2j, 1.5, True), (0.5, 0.5, False))]
    if tier == 'quick':
        # keep every (input_dim, output_dim, complex) and every num_terms, thin out the rest deterministically
        keep = []
        for k, g in enumerate(grid):
            if (g['input_dim'] + g['output_dim'] + g['num_terms'] + k) % 3 == 0:
                keep.append(g)
        grid = keep
    return tight + grid


def rf_exact_args(raw_b, raw_c, xs):
    """the exact arguments the model computes: 2*pi_f*(b - 1/2) * x + 2*pi_f*c"""
    return (2 * PI_F * (Fraction(raw_b) - Fraction(1, 2))) * Fraction(xs) + 2 * PI_F * Fraction(raw_c)


def rf_point(rng, n):
    return [rng.choice([0.0, 1.0, -1.0, 0.5, 3.0, -2.25, rng.uniform(-10, 10), rng.uniform(-100, 100), rng.uniform(-1, 1)])
            for _ in range(n)]


def rf_case_term(cfg, draws, exps, points):
    import numpy as np
    i, o, t = cfg['input_dim'], cfg['output_dim'], cfg['num_terms']
    A, P, B, Cc = draws

    def raw(a, b, c):
        return listlit([listlit([listlit(['(mkRaw %s %s %s %s)' % (qf(A[x][y][z]), qf(P[x][y][z]) if P is not None else '0',
                                                                    qf(B[x][y][z]), qf(Cc[x][y][z]))
                                          for z in range(i)]) for y in range(t)]) for x in range(o)])
    exp_tab = []
    if cfg['complex']:
        earg, eval_ = exps
        for x in range(o):
            for y in range(t):
                for z in range(i):
                    exact = Fraction(float(P[x][y][z])) * PI_F * 2
                    a = complex(earg[x][y][z])
                    exp_tab.append('(%s, %s, %s)' % (qf(exact), qf(a.imag), cf(complex(eval_[x][y][z]))))
    pts = []
    for xs, sin_in, sin_out, obs in points:
        tab = []
        if sin_in is not None:
            for x in range(o):
                for y in range(t):
                    for z in range(i):
                        exact = rf_exact_args(float(B[x][y][z]), float(Cc[x][y][z]), xs[z])
                        tab.append('(%s, %s, %s)' % (qf(exact), qf(float(sin_in[x][y][z])), qf(float(sin_out[x][y][z]))))
        if obs is None:
            ob = 'None'
        else:
            vals = [complex(v) for v in (np.asarray(obs).reshape(-1))]
            ob = '(Some %s)' % listlit([cf(v) for v in vals])
        pts.append('(mkPt %s %s %s)' % (listlit([qf(x) for x in xs]), listlit(tab), ob))
    return ('(mkRf %s %s %s %s %s %s %s %s %s)' %
            (natlit(i), natlit(o), natlit(t), cf(cfg['center']), qf(cfg['amplitude']), boollit(cfg['complex']),
             raw(A, B, Cc), listlit(exp_tab), listlit(pts)))


def rf_check_values(cfg, f, xs, val, res, key_extra, forced=None):
    """independent oracle on one evaluation; appends witnesses"""
    import numpy as np
    from mitxgraders import MathArray
    o = cfg['output_dim']
    base = {'kind': 'rf', 'cfg': repr(cfg), 'point': repr(xs)}
    if forced is not None:
        base['forced_draws'] = forced
    if o == 1:
        if isinstance(val, (MathArray, np.ndarray, list, tuple)):
            res.witnesses.append(dict(base, key='rf-dim:%r' % (cfg,), what='output_dim=1 but the value %r is not a scalar' % (val,)))
            return
        vals = [val]
    else:
        if not isinstance(val, MathArray) or val.shape != (o,):
            res.witnesses.append(dict(base, key='rf-dim:%r' % (cfg,),
                                      what='output_dim=%d but the value is %r of shape %r' % (o, type(val).__name__, getattr(val, 'shape', None))))
            return
        vals = list(val)
    if not cfg['complex'] and any(isinstance(v, complex) or np.iscomplexobj(v) for v in vals):
        res.witnesses.append(dict(base, key='rf-real:%r' % (cfg,), what='real random function returned a complex value %r' % (val,)))
    amp = cfg['amplitude']
    dev = max(abs(complex(v) - complex(cfg['center'])) for v in vals)
    if dev > amp * (1 + 1e-12):
        res.witnesses.append(dict(base, kind='rf-bound', key='rf-bound:%r%s' % (cfg, key_extra), input_dim=cfg['input_dim'],
                                  amplitude=amp, deviation=dev,
                                  what='|f(x) - center| = %r exceeds amplitude %r (input_dim=%d, num_terms=%d)'
                                  % (dev, amp, cfg['input_dim'], cfg['num_terms'])))


def run_rf_config(ctx, res, rng, rec, cfg, n_draws, n_points_coq, n_points, terms, metas, coq_draws=99):
    import numpy as np
    from mitxgraders import RandomFunction
    from mitxgraders.exceptions import ConfigError
    st, s = core.guarded(RandomFunction, **cfg)
    if st != 'ret':
        res.witnesses.append({'key': 'construct:rf:%r' % (cfg,), 'kind': 'construct', 'cfg': repr(cfg),
                              'what': 'valid configuration refused: %r' % (s,)})
        return
    i, o, t = cfg['input_dim'], cfg['output_dim'], cfg['num_terms']
    for d in range(n_draws):
        n0 = len(rec.calls)
        st, f = core.guarded(s.gen_sample)
        res.oracle_evals += 1
        if st != 'ret' or not callable(f):
            res.witnesses.append({'key': 'rf-draw:%r' % (cfg,), 'kind': 'rf', 'cfg': repr(cfg), 'what': 'gen_sample gave %r' % (f,)})
            continue
        calls = rec.calls[n0:]
        rands = [c for c in calls if c[0] == 'rand']
        exps = [c for c in calls if c[0] == 'exp']
        want_r = 4 if cfg['complex'] else 3
        shape_ok = all(c[1] == (o, t, i) for c in rands)
        if len(rands) != want_r or len(exps) != (1 if cfg['complex'] else 0) or len(calls) != len(rands) + len(exps) or not shape_ok:
            res.disagreements.append({'kind': 'rf', 'cfg': repr(cfg), 'what': 'unexpected oracle consultation %r' % ([c[:2] for c in calls],)})
            if len(rands) < 3 or not shape_ok:
                continue
            # the model cannot follow this draw, but the property oracle still runs on it: frequencies and phases are the
            # last two PRNG arrays
            coq_draws = 0
            A, P, B, Cc, ex = rands[0][2], None, rands[-2][2], rands[-1][2], None
        elif cfg['complex']:
            A, P, B, Cc = rands[0][2], rands[1][2], rands[2][2], rands[3][2]
            ex = (exps[0][1], exps[0][2])
        else:
            A, B, Cc = rands[0][2], rands[1][2], rands[2][2]
            P, ex = None, None
        # declared arity
        if getattr(f, 'nin', None) != i:
            res.witnesses.append({'key': 'rf-nin:%r' % (cfg,), 'kind': 'rf', 'cfg': repr(cfg), 'what': 'nin tag is %r, not %d' % (getattr(f, 'nin', None), i)})
        points = []
        for wrong in sorted({max(0, i - 1), i + 1}):
            if wrong == i:
                continue
            xs = rf_point(rng, wrong)
            stv, v = core.guarded(f, *xs)
            res.oracle_evals += 1
            if not (stv == 'exc' and isinstance(v, ConfigError)):
                res.witnesses.append({'key': 'rf-arity:%r:%d' % (cfg, wrong), 'kind': 'rf', 'cfg': repr(cfg),
                                      'what': 'call with %d arguments (declared %d) gave %r instead of ConfigError' % (wrong, i, v)})
            elif d == 0:
                points.append((xs, None, None, None))
        evaluated = []
        for p in range(n_points):
            xs = rf_point(rng, i)
            n1 = len(rec.calls)
            stv, v = core.guarded(f, *xs)
            res.oracle_evals += 1
            if stv != 'ret':
                res.witnesses.append({'key': 'rf-raise:%r' % (cfg,), 'kind': 'rf', 'cfg': repr(cfg), 'point': repr(xs),
                                      'what': 'evaluation raised %r' % (v,)})
                continue
            rf_check_values(cfg, f, xs, v, res, '')
            evaluated.append((xs, v))
            sc = [c for c in rec.calls[n1:] if c[0] == 'sin']
            if p < n_points_coq:
                if len(sc) != 1 or len(rec.calls) - n1 != 1 or sc[0][1].shape != (o, t, i):
                    res.disagreements.append({'kind': 'rf', 'cfg': repr(cfg), 'what': 'unexpected oracle consultation during evaluation'})
                elif finite(*np.asarray(v).reshape(-1)):
                    points.append((xs, sc[0][1], sc[0][2], v))
            res.nontrivial.add(('rf', repr(cfg), d, repr(xs)))
        # aligned evaluation points: for every output component and term, the point at which all sinusoids of that term
        # peak together (x_k = (pi/2 - C_k) / B_k, from the recorded draws); for num_terms = 1 this is a maximiser of
        # |f - center|, so the modulus bound is tested where it is tight
        for oi in range(o):
            for tj in range(min(t, 2)):
                bb = 2 * math.pi * (B[oi][tj] - 0.5)
                cc = 2 * math.pi * Cc[oi][tj]
                if any(abs(b) < 1e-6 for b in bb):
                    continue
                for sgn in (1, -1):
                    xs = [float((sgn * math.pi / 2 - c) / b) for b, c in zip(bb, cc)]
                    stv, v = core.guarded(f, *xs)
                    res.oracle_evals += 1
                    if stv == 'ret':
                        rf_check_values(cfg, f, xs, v, res, ':aligned')
        # a fixed function once drawn: draw more functions / consume the PRNG, then re-evaluate
        core.guarded(s.gen_sample)
        np.random.random_sample(3)
        for xs, v in evaluated[:6]:
            stv, v2 = core.guarded(f, *xs)
            res.oracle_evals += 1
            same = stv == 'ret' and np.array_equal(np.asarray(v), np.asarray(v2))
            if not same:
                res.witnesses.append({'key': 'rf-fixed:%r' % (cfg,), 'kind': 'rf', 'cfg': repr(cfg), 'point': repr(xs),
                                      'what': 'the drawn function changed: %r then %r' % (v, v2)})
        if points and d < coq_draws:
            terms.append(rf_case_term(cfg, (A, P, B, Cc), ex, points))
            metas.append(('rf', repr(cfg), d))


# regression corpus: forced (legal) PRNG answers that left center +/- amplitude before /repo commit 857063e
# (scaling by num_terms only); they are ordinary cases now and must pass
RF_CORPUS = [
    dict(cfg=dict(input_dim=2, output_dim=1, num_terms=1, center=0, amplitude=1, complex=False),
         rand=[[0.5, 0.5], [0.5, 0.5], [0.25, 0.25]], point=[3.0, -7.0]),
    dict(cfg=dict(input_dim=3, output_dim=1, num_terms=1, center=0, amplitude=1, complex=False),
         rand=[[0.875] * 3, [0.5] * 3, [0.125] * 3], point=[2.0, -5.0 / 3, 1.0 / 7]),
]


def run_rf_corpus(res, rec):
    from mitxgraders import RandomFunction
    for entry in RF_CORPUS:
        cfg = entry['cfg']
        rec.forced['rand'] = [list(r) for r in entry['rand']]
        st, f = core.guarded(RandomFunction(**cfg).gen_sample)
        rec.forced.pop('rand', None)
        res.oracle_evals += 1
        if st != 'ret':
            continue
        stv, v = core.guarded(f, *entry['point'])
        if stv == 'ret':
            rf_check_values(cfg, f, entry['point'], v, res, ':corpus', forced=entry['rand'])


def run_random_functions(ctx, res, rng, rec, terms, metas):
    quick = ctx['tier'] == 'quick' and not ctx['escalate']
    grid = rf_grid('quick' if quick else 'thorough', rng)
    run_rf_corpus(res, rec)
    for cfg in grid:
        size = cfg['input_dim'] * cfg['output_dim'] * cfg['num_terms']
        run_rf_config(ctx, res, rng, rec, cfg, 3 if quick else 6, 2 if quick else 3, 40 if quick else 60, terms, metas,
                      coq_draws=1 if quick else (2 if size > 12 else 3))
    res.distribution['random_function_configs'] = len(grid)


# ------------------------------------------------------------------------------------------------
# exact determinant / predicates of the implementation's matrices (property oracle)
# ------------------------------------------------------------------------------------------------
def to_gauss_int(rows):
    """list of rows of complex floats -> (integer matrix of (re, im) pairs, k) with entries = int / 2^k"""
    k = 0
    for r in rows:
        for z in r:
            z = complex(z)
            for x in (z.real, z.imag):
                d = Fraction(x).denominator
                k = max(k, d.bit_length() - 1)
    sc = 1 << k
    out = [[(int(Fraction(complex(z).real) * sc), int(Fraction(complex(z).imag) * sc)) for z in r] for r in rows]
    return out, k


def gdet(M):
    """determinant of a matrix of Gaussian integers by expansion over column subsets (exact)"""
    n = len(M)
    memo = {}

    def go(row, used):
        if row == n:
            return (1, 0)
        key = used
        if key in memo:
            return memo[key]
        tot_r = tot_i = 0
        sign = 1
        for col in range(n):
            if used >> col & 1:
                continue
            a, b = M[row][col]
            if a or b:
                c, d = go(row + 1, used | 1 << col)
                tot_r += sign * (a * c - b * d)
                tot_i += sign * (a * d + b * c)
            sign = -sign
        memo[key] = (tot_r, tot_i)
        return memo[key]
    return go(0, 0)


def exact_det(rows):
    M, k = to_gauss_int(rows)
    r, i = gdet(M)
    den = 1 << (k * len(rows))
    return Fraction(r, den), Fraction(i, den)


def fro2(rows):
    return sum(Fraction(complex(z).real) ** 2 + Fraction(complex(z).imag) ** 2 for r in rows for z in r)


def check_square(cfg, arr):
    """the property for one SquareMatrices sample; returns list of failures"""
    import numpy as np
    from mitxgraders import MathArray
    bad = []
    d = cfg['dimension']
    if not isinstance(arr, MathArray):
        return ['sample is %r, not a MathArray' % type(arr).__name__]
    if arr.shape != (d, d):
        return ['shape %r, expected %r' % (arr.shape, (d, d))]
    rows = [[complex(z) for z in r] for r in np.asarray(arr)]
    if not finite(*[z for r in rows for z in r]):
        return ['non-finite entries']
    cplx = cfg['complex'] or cfg['symmetry'] in ('hermitian', 'antihermitian')
    if cplx != bool(np.iscomplexobj(arr)):
        bad.append('complex=%r but dtype %s' % (cplx, np.asarray(arr).dtype))
    n2 = fro2(rows)
    scale = max(1.0, math.sqrt(float(n2)))
    tol = 1e-9 * scale
    sym = cfg['symmetry']
    for i in range(d):
        for j in range(d):
            a, b = rows[i][j], rows[j][i]
            ok = True
            if sym == 'diagonal':
                ok = i == j or abs(a) <= tol
            elif sym == 'symmetric':
                ok = abs(a - b) <= tol
            elif sym == 'antisymmetric':
                ok = abs(a + b) <= tol
            elif sym == 'hermitian':
                ok = abs(a - b.conjugate()) <= tol
            elif sym == 'antihermitian':
                ok = abs(a + b.conjugate()) <= tol
            if not ok:
                bad.append('not %s at (%d,%d): %r vs %r' % (sym, i, j, a, b))
                break
        else:
            continue
        break
    if cfg['traceless']:
        tr = sum(rows[i][i] for i in range(d))
        if abs(tr) > tol * d:
            bad.append('trace %r is not 0' % (tr,))
    det = cfg['determinant']
    if det is not None:
        dr, di = exact_det(rows)
        dtol = Fraction(1e-10) * max(1, Fraction(scale) ** d)
        target = Fraction(det)
        if abs(dr - target) > dtol or abs(di) > dtol:
            bad.append('determinant %r%+rj is not %d (tolerance %.3g)' % (float(dr), float(di), det, float(dtol)))
    if det != 1:
        lo, hi = sorted(cfg['norm'])
        t = 1e-9 * max(1.0, hi)
        if not (Fraction(max(lo - t, 0)) ** 2 <= n2 <= Fraction(hi + t) ** 2):
            bad.append('norm %r outside [%r, %r]' % (math.sqrt(float(n2)), lo, hi))
    return bad


# ------------------------------------------------------------------------------------------------
# arrays: vectors, matrices, tensors
# ------------------------------------------------------------------------------------------------
TRI = {None: 'TNone', 'upper': 'TUpper', 'lower': 'TLower'}
SYM = {None: 'SNone', 'diagonal': 'SDiag', 'symmetric': 'SSym', 'antisymmetric': 'SAnti', 'hermitian': 'SHerm',
       'antihermitian': 'SAHerm'}
DET = {None: 'DNone', 0: 'DZero', 1: 'DOne'}
NORMS = [[1, 5], [0.5, 0.5], [10, 2], [0, 1], [3, 7.5]]


def qrows(arr2d):
    return listlit([listlit([qf(float(x)) for x in r]) for r in arr2d])


def crows(arr2d):
    return listlit([listlit([cf(complex(z)) for z in r]) for r in arr2d])


def attempt_term(re, im, det=0, root=0, index=0, eigs=(), take=0, norm=0, u=0):
    return ('(mkAttempt %s %s %s %s %s %s %s %s %s)' %
            (qrows(re), qrows(im) if im is not None else '[]', cf(det), cf(root), natlit(index),
             listlit([cf(e) for e in eigs]), natlit(take), qf(norm), qf(u)))


def split_passes(calls, shape, cplx):
    """group the recorded calls of one generate_sample into passes: each starts with random_sample(shape)"""
    passes, cur = [], None
    k = 0
    while k < len(calls):
        c = calls[k]
        if c[0] == 'random_sample' and c[1] is not None and tuple(c[1]) == tuple(shape):
            cur = {'re': c[2], 'im': None, 'rest': []}
            if cplx:
                k += 1
                if k >= len(calls) or calls[k][0] != 'random_sample' or calls[k][1] is None:
                    return None
                cur['im'] = calls[k][2]
            passes.append(cur)
        else:
            if cur is None:
                return None
            cur['rest'].append(c)
        k += 1
    return passes


def check_array(cls_name, cfg, arr):
    import numpy as np
    from mitxgraders import MathArray
    if not isinstance(arr, MathArray):
        return ['sample is %r, not a MathArray' % type(arr).__name__]
    shape = cfg['shape']
    shape = (shape,) if isinstance(shape, int) else tuple(shape)
    if arr.shape != shape:
        return ['shape %r, expected %r' % (arr.shape, shape)]
    flat = [complex(z) for z in np.asarray(arr).reshape(-1)]
    if not finite(*flat):
        return ['non-finite entries']
    bad = []
    if cfg['complex'] != bool(np.iscomplexobj(arr)):
        bad.append('complex=%r but dtype %s' % (cfg['complex'], np.asarray(arr).dtype))
    n2 = sum(Fraction(z.real) ** 2 + Fraction(z.imag) ** 2 for z in flat)
    lo, hi = sorted(cfg['norm'])
    t = 1e-9 * max(1.0, hi)
    if not (Fraction(max(lo - t, 0)) ** 2 <= n2 <= Fraction(hi + t) ** 2):
        bad.append('norm %r outside [%r, %r]' % (math.sqrt(float(n2)), lo, hi))
    tri = cfg.get('triangular')
    if tri:
        a = np.asarray(arr)
        for i in range(shape[0]):
            for j in range(shape[1]):
                if (tri == 'upper' and j < i or tri == 'lower' and i < j) and a[i][j] != 0:
                    bad.append('%s triangular but entry (%d,%d) = %r' % (tri, i, j, a[i][j]))
    return bad


def run_arrays(ctx, res, rng, rec, terms, metas):
    import numpy as np
    from mitxgraders import RealVectors, ComplexVectors, RealMatrices, ComplexMatrices, RealTensors, ComplexTensors
    quick = ctx['tier'] == 'quick' and not ctx['escalate']
    plan = []
    for n in (1, 2, 3, 4, 7):
        for cx in (False, True):
            for shape in (n, [n], (n,)):
                plan.append(((ComplexVectors if cx else RealVectors), dict(shape=shape, complex=cx)))
    for r in (1, 2, 3, 4):
        for c in (1, 2, 3, 4):
            for tri in (None, 'upper', 'lower'):
                for cx in (False, True):
                    plan.append(((ComplexMatrices if cx else RealMatrices), dict(shape=(r, c), complex=cx, triangular=tri)))
    for shape in ((2, 2, 2), (1, 3, 2), (3, 1, 1), (2, 3, 4), (2, 2, 2, 2), (1, 2, 3, 2), (3, 2, 1, 2), [4, 2, 5]):
        for cx in (False, True):
            plan.append(((ComplexTensors if cx else RealTensors), dict(shape=shape, complex=cx)))
    if quick:
        plan = [p for k, p in enumerate(plan) if k % 2 == 0 or p[0].__name__.endswith('Tensors')]
    n_draws = 2 if quick else 8
    count = 0
    for k, (cls, base) in enumerate(plan):
        cfg = dict(base, norm=NORMS[k % len(NORMS)])
        st, s = core.guarded(cls, **cfg)
        if st != 'ret':
            res.witnesses.append({'key': 'construct:%s:%r' % (cls.__name__, cfg), 'kind': 'construct', 'sampler': cls.__name__,
                                  'cfg': repr(cfg), 'what': 'valid configuration refused: %r' % (s,)})
            continue
        shape = s.config['shape']
        for d in range(n_draws):
            n0 = len(rec.calls)
            st, arr = core.guarded(s.gen_sample)
            res.oracle_evals += 1
            count += 1
            if st != 'ret':
                res.witnesses.append({'key': 'array-raise:%s:%r' % (cls.__name__, cfg), 'kind': 'array', 'sampler': cls.__name__,
                                      'cfg': repr(cfg), 'what': 'gen_sample raised %r' % (arr,)})
                continue
            for b in check_array(cls.__name__, cfg, arr):
                res.witnesses.append({'key': 'array:%s:%r' % (cls.__name__, cfg), 'kind': 'array', 'sampler': cls.__name__,
                                      'cfg': repr(cfg), 'what': b})
            calls = rec.calls[n0:]
            passes = split_passes(calls, shape, cfg['complex'])
            ok = passes is not None and len(passes) == 1
            if ok:
                rest = passes[0]['rest']
                ok = [c[0] for c in rest] == ['norm', 'random_sample'] and rest[1][1] is None
            if not ok:
                res.disagreements.append({'kind': 'array', 'sampler': cls.__name__, 'cfg': repr(cfg),
                                          'what': 'unexpected oracle consultation %r' % ([c[0] for c in calls],)})
                continue
            a = np.asarray(arr)
            if len(shape) == 2:
                n, m = shape
                re2, im2, obs = passes[0]['re'], passes[0]['im'], a
            else:
                n, m = 1, int(np.prod(shape))
                re2 = passes[0]['re'].reshape(1, -1)
                im2 = passes[0]['im'].reshape(1, -1) if passes[0]['im'] is not None else None
                obs = a.reshape(1, -1)
            if not finite(*obs.reshape(-1)):
                continue
            lo, hi = cfg['norm']
            terms.append('(mkA %s %s %s %s %s %s %s %s %s)' %
                         (TRI[cfg.get('triangular')], boollit(cfg['complex']), natlit(n), natlit(m), qf(lo), qf(hi),
                          attempt_term(re2, im2, norm=rest[0][2], u=rest[1][2]), crows(obs), boollit(bool(np.iscomplexobj(a)))))
            metas.append(('array', cls.__name__, repr(cfg)))
            res.nontrivial.add(('array', cls.__name__, repr(cfg), d))
    res.distribution['array_draws'] = count


# ------------------------------------------------------------------------------------------------
# construction forms: every sampler built with its options in every key order, with every subset of its optional keys,
# as keyword arguments and as a configuration dictionary; the option values are asymmetric and pairwise disjoint so that
# an option landing in the wrong slot is visible in the samples
# ------------------------------------------------------------------------------------------------
def option_forms(opts, rng, limit):
    """opts: list of (key, value).  Returns ordered sub-lists: all subsets x all orders when that is at most `limit`,
    otherwise the full set in its given and reversed order, every single key, and random (subset, order) pairs."""
    keys = list(range(len(opts)))
    allforms = []
    for r in range(len(keys) + 1):
        for sub in itertools.combinations(keys, r):
            for perm in itertools.permutations(sub):
                allforms.append(perm)
                if len(allforms) > 4000:
                    break
    if len(allforms) <= limit:
        chosen = allforms
    else:
        chosen = [tuple(keys), tuple(reversed(keys))] + [(k,) for k in keys]
        while len(chosen) < limit:
            sub = [k for k in keys if rng.random() < 0.6]
            rng.shuffle(sub)
            chosen.append(tuple(sub))
    return [[opts[k] for k in perm] for perm in chosen]


def build_forms(cls, opts, rng, limit):
    """yields (description, status, sampler-or-exception, given options as a dict)"""
    for form in option_forms(opts, rng, limit):
        given = dict(form)
        for style in ('kwargs', 'dict'):
            if style == 'kwargs':
                st, s = core.guarded(cls, **dict(form))
            else:
                st, s = core.guarded(cls, dict(form))
            yield '%s(%s: %s)' % (cls.__name__, style, ', '.join(k for k, _ in form)), st, s, given


def run_forms(ctx, res, rng, rec, terms, metas):
    import numpy as np
    from mitxgraders import (RealInterval, IntegerRange, ComplexRectangle, ComplexSector, RandomFunction, RealMatrices,
                             ComplexMatrices, RealVectors, SquareMatrices, IdentityMatrixMultiples)
    quick = ctx['tier'] == 'quick' and not ctx['escalate']
    n = 3 if quick else 8
    count = 0

    def refuse(desc, s):
        res.witnesses.append({'key': 'construct:' + desc, 'kind': 'construct', 'cfg': desc, 'what': 'valid configuration refused: %r' % (s,)})

    def scalar_family(cls, kind, opts, eff_of, bound_forms):
        nonlocal count
        for bf in bound_forms:
            o = [(k, bf(v)) for k, v in opts]
            for desc, st, s, given in build_forms(cls, o, rng, 40):
                if st != 'ret':
                    refuse(desc, s)
                    continue
                cfg = eff_of({k: v for k, v in opts if k in given})
                for _ in range(n):
                    stv, v, calls = scalar_sample(rec, s)
                    res.oracle_evals += 1
                    count += 1
                    bad = 'gen_sample raised %r' % (v,) if stv != 'ret' else check_scalar_value(kind, cfg, v)
                    if bad:
                        res.witnesses.append({'key': 'form:' + desc, 'kind': 'scalar', 'sampler': kind, 'cfg': repr(cfg),
                                              'construction': desc, 'what': bad})
                        continue
                    t = scalar_term(kind, cfg, calls, v)
                    if t is None:
                        res.disagreements.append({'kind': 'scalar', 'construction': desc, 'what': 'unexpected oracle consultation'})
                    else:
                        terms.append(t)
                        metas.append(('form', desc))
                    res.nontrivial.add(('form', desc, repr(v)))

    as_list = lambda v: list(v)
    as_dict = lambda v: {'start': v[0], 'stop': v[1]}
    as_dict_rev = lambda v: {'stop': v[1], 'start': v[0]}
    scalar_family(ComplexRectangle, 'rect', [('re', (10, 12.5)), ('im', (-7, -5.5))],
                  lambda g: (g.get('re', (1, 3)), g.get('im', (1, 3))), [as_list, as_dict, as_dict_rev])
    scalar_family(ComplexSector, 'sect', [('modulus', (5, 6.5)), ('argument', (2, 2.75))],
                  lambda g: (g.get('modulus', (1, 3)), g.get('argument', (0, math.pi / 2))), [as_list, as_dict_rev])
    ident = lambda v: v
    scalar_family(RealInterval, 'real', [('start', -20.5), ('stop', -11)], lambda g: (g.get('start', 1), g.get('stop', 5)), [ident])
    scalar_family(IntegerRange, 'int', [('start', -20), ('stop', -11)], lambda g: (g.get('start', 1), g.get('stop', 5)), [ident])

    # random functions
    rf_defaults = dict(input_dim=1, output_dim=1, num_terms=3, center=0, amplitude=10, complex=False)
    rf_opts = [('input_dim', 3), ('output_dim', 2), ('num_terms', 4), ('center', 7.5), ('amplitude', 0.25), ('complex', True)]
    for desc, st, s, given in build_forms(RandomFunction, rf_opts, rng, 14 if quick else 60):
        if st != 'ret':
            refuse(desc, s)
            continue
        cfg = dict(rf_defaults, **given)
        stf, f = core.guarded(s.gen_sample)
        res.oracle_evals += 1
        count += 1
        if stf != 'ret' or getattr(f, 'nin', None) != cfg['input_dim']:
            res.witnesses.append({'key': 'form:' + desc, 'kind': 'rf', 'cfg': repr(cfg), 'construction': desc,
                                  'what': 'gen_sample gave %r with nin=%r' % (f, getattr(f, 'nin', None))})
            continue
        for _ in range(n):
            xs = rf_point(rng, cfg['input_dim'])
            stv, v = core.guarded(f, *xs)
            res.oracle_evals += 1
            if stv != 'ret':
                res.witnesses.append({'key': 'form:' + desc, 'kind': 'rf', 'cfg': repr(cfg), 'construction': desc, 'point': repr(xs),
                                      'what': 'evaluation raised %r' % (v,)})
            else:
                rf_check_values(cfg, f, xs, v, res, ':' + desc)

    # arrays
    arr_defaults = dict(shape=(2, 2), norm=[1, 5], triangular=None)
    for cls, cx in ((RealMatrices, False), (ComplexMatrices, True)):
        arr_opts = [('shape', (3, 4)), ('norm', [20, 21.5]), ('triangular', 'lower'), ('complex', cx)]
        for desc, st, s, given in build_forms(cls, arr_opts, rng, 12 if quick else 70):
            if st != 'ret':
                refuse(desc, s)
                continue
            cfg = dict(dict(arr_defaults, complex=cx), **given)
            for _ in range(n):
                sta, arr = core.guarded(s.gen_sample)
                res.oracle_evals += 1
                count += 1
                for b in (['gen_sample raised %r' % (arr,)] if sta != 'ret' else check_array(cls.__name__, cfg, arr)):
                    res.witnesses.append({'key': 'form:' + desc, 'kind': 'array', 'sampler': cls.__name__, 'cfg': repr(cfg),
                                          'construction': desc, 'what': b})
    for desc, st, s, given in build_forms(RealVectors, [('shape', 5), ('norm', [30, 30.5]), ('complex', False)], rng, 20):
        if st != 'ret':
            refuse(desc, s)
            continue
        cfg = dict(dict(shape=(3,), norm=[1, 5], complex=False), **given)
        sta, arr = core.guarded(s.gen_sample)
        res.oracle_evals += 1
        for b in (['gen_sample raised %r' % (arr,)] if sta != 'ret' else check_array('RealVectors', cfg, arr)):
            res.witnesses.append({'key': 'form:' + desc, 'kind': 'array', 'sampler': 'RealVectors', 'cfg': repr(cfg),
                                  'construction': desc, 'what': b})

    # square matrices
    sq_defaults = dict(dimension=2, symmetry=None, traceless=False, determinant=None, complex=False, norm=[1, 5])
    for sq_opts in ([('dimension', 3), ('symmetry', 'symmetric'), ('traceless', True), ('determinant', 1), ('complex', True), ('norm', [40, 41])],
                    [('dimension', 4), ('symmetry', 'hermitian'), ('determinant', 0), ('norm', [0.25, 0.5])],
                    [('dimension', 3), ('symmetry', 'antisymmetric'), ('traceless', True), ('norm', [9, 9.5])]):
        for desc, st, s, given in build_forms(SquareMatrices, sq_opts, rng, 10 if quick else 60):
            cfg = dict(sq_defaults, **given)
            if st != 'ret':
                # a subset of an accepted option set may be one the constructor rejects by design: compare with a plain construction
                st2, s2 = core.guarded(SquareMatrices, **cfg)
                if st2 == 'ret':
                    refuse(desc, s)
                continue
            for _ in range(n):
                sta, arr = core.guarded(s.gen_sample)
                res.oracle_evals += 1
                count += 1
                for b in (['gen_sample raised %r' % (arr,)] if sta != 'ret' else check_square(cfg, arr)):
                    res.witnesses.append({'key': 'form:' + desc, 'kind': 'square', 'cfg': repr(cfg), 'construction': desc, 'what': b})

    # identity multiples, including nested samplers that were themselves built in every form
    nested = []
    for desc, st, s, given in build_forms(ComplexRectangle, [('re', [10, 12.5]), ('im', [-7, -5.5])], rng, 40):
        if st == 'ret':
            nested.append((desc, s, 'rect', (tuple(given.get('re', (1, 3))), tuple(given.get('im', (1, 3))))))
    for desc, st, s, given in build_forms(ComplexSector, [('modulus', [5, 6.5]), ('argument', [2, 2.75])], rng, 40):
        if st == 'ret':
            nested.append((desc, s, 'sect', (tuple(given.get('modulus', (1, 3))), tuple(given.get('argument', (0, math.pi / 2))))))
    for ndesc, inner, kind, icfg in nested:
        for desc, st, s, given in build_forms(IdentityMatrixMultiples, [('dimension', 3), ('sampler', inner)], rng, 10):
            if st != 'ret':
                refuse(desc + ' / ' + ndesc, s)
                continue
            dim = given.get('dimension', 2)
            kk, cc = (kind, icfg) if 'sampler' in given else ('real', (1, 5))
            sta, arr = core.guarded(s.gen_sample)
            res.oracle_evals += 1
            count += 1
            key = 'form:%s / %s' % (desc, ndesc)
            if sta != 'ret' or getattr(arr, 'shape', None) != (dim, dim):
                res.witnesses.append({'key': key, 'kind': 'identity', 'construction': key, 'what': 'sample %r is not a %dx%d array' % (arr, dim, dim)})
                continue
            a = np.asarray(arr)
            sc = a[0][0].item()
            bad = check_scalar_value(kk, cc, sc)
            if not bad and any(a[i][j] != (a[0][0] if i == j else 0) for i in range(dim) for j in range(dim)):
                bad = 'not a multiple of the identity: %r' % (a.tolist(),)
            if bad:
                res.witnesses.append({'key': key, 'kind': 'identity', 'cfg': repr((dim, kk, cc)), 'construction': key, 'what': 'multiplier: ' + bad})
    res.distribution['construction_form_draws'] = count


# ------------------------------------------------------------------------------------------------
# identity multiples
# ------------------------------------------------------------------------------------------------
def run_identity(ctx, res, rng, rec, terms, metas):
    import numpy as np
    from mitxgraders import IdentityMatrixMultiples, MathArray
    quick = ctx['tier'] == 'quick' and not ctx['escalate']
    samplers = [('real', (1, 5)), ('real', (4, -2)), ('real', (3, 3)), ('int', (-2, 4)), ('int', (7, 7)),
                ('rect', ((1, 4), (-5, 0))), ('sect', ((1, 3), (0, math.pi / 2))), ('sect', ((0, 1), (-math.pi, math.pi))),
                ('sect', ((1, 2), (math.pi / 2, 3 * math.pi / 2)))]
    count = 0
    for dim in (2, 3, 4, 5):
        for kind, cfg in samplers + [('list', (1, 3)), ('default', None)]:
            if kind == 'list':
                st, s = core.guarded(IdentityMatrixMultiples, dimension=dim, sampler=list(cfg))
                skind = 'real'
            elif kind == 'default':
                st, s = core.guarded(IdentityMatrixMultiples, dimension=dim)
                skind, cfg = 'real', (1, 5)
            else:
                st, s = core.guarded(IdentityMatrixMultiples, dimension=dim, sampler=make_scalar(kind, cfg))
                skind = kind
            if st != 'ret':
                res.witnesses.append({'key': 'construct:ident:%r' % ((dim, kind, cfg),), 'kind': 'construct', 'cfg': repr((dim, kind, cfg)),
                                      'what': 'valid configuration refused: %r' % (s,)})
                continue
            for d in range(2 if quick else 6):
                n0 = len(rec.calls)
                st, arr = core.guarded(s.gen_sample)
                res.oracle_evals += 1
                count += 1
                key = 'ident:%r' % ((dim, kind, cfg),)
                if st != 'ret':
                    res.witnesses.append({'key': key, 'kind': 'identity', 'cfg': repr((dim, kind, cfg)), 'what': 'gen_sample raised %r' % (arr,)})
                    continue
                if not isinstance(arr, MathArray) or arr.shape != (dim, dim):
                    res.witnesses.append({'key': key, 'kind': 'identity', 'cfg': repr((dim, kind, cfg)),
                                          'what': 'sample %r is not a MathArray of shape %r' % (arr, (dim, dim))})
                    continue
                a = np.asarray(arr)
                sc = a[0][0]
                if not np.array_equal(a, sc * np.eye(dim)) or any(a[i][j] != (sc if i == j else 0) for i in range(dim) for j in range(dim)):
                    res.witnesses.append({'key': key, 'kind': 'identity', 'cfg': repr((dim, kind, cfg)),
                                          'what': 'sample %r is not a multiple of the identity' % (a.tolist(),)})
                scv = sc.item() if hasattr(sc, 'item') else sc
                if skind == 'int' and isinstance(scv, float) and scv == int(scv):
                    scv = int(scv)          # the matrix is a float array; membership is about the value
                bad = check_scalar_value(skind, cfg, scv)
                if bad:
                    res.witnesses.append({'key': key, 'kind': 'identity', 'cfg': repr((dim, kind, cfg)), 'what': 'multiplier: ' + bad})
                calls = rec.calls[n0:]
                t = scalar_term(skind, cfg, calls, scv)
                if t is None:
                    res.disagreements.append({'kind': 'identity', 'cfg': repr((dim, kind, cfg)), 'what': 'unexpected oracle consultation'})
                    continue
                terms.append(t)
                metas.append(('identity-scalar', dim, kind))
                terms.append('(SIdent %s %s %s)' % (natlit(dim), cf(complex(sc)), crows(a)))
                metas.append(('identity', dim, kind))
                res.nontrivial.add(('identity', dim, kind, repr(cfg), d))
    res.distribution['identity_draws'] = count


# ------------------------------------------------------------------------------------------------
# square matrices
# ------------------------------------------------------------------------------------------------
OK = {'det': 'ODet', 'power': 'ORoot', 'randint_index': 'OIndex', 'eigvalsh': 'OEigh', 'eigvals': 'OEig',
      'randint_take': 'OTake', 'norm': 'ONorm'}


def square_grid(dims):
    for d in dims:
        for s in (None, 'diagonal', 'symmetric', 'antisymmetric', 'hermitian', 'antihermitian'):
            for t in (False, True):
                for det in (None, 0, 1):
                    for c in (False, True):
                        yield dict(dimension=d, symmetry=s, traceless=t, determinant=det, complex=c)


def pass_to_attempt(p, dim):
    """one pass -> (attempt term, trace of oracle kinds) or None when the consultation pattern is unknown"""
    kw = dict(det=0, root=0, index=0, eigs=(), take=0, norm=0, u=0)
    trace = []
    seen_index = False
    rest = list(p['rest'])
    k = 0
    while k < len(rest):
        c = rest[k]
        if c[0] == 'det':
            kw['det'] = c[2]
            trace.append('ODet')
        elif c[0] == 'power':
            if abs(c[2] - 1.0 / dim) > 1e-15:
                return None
            kw['root'] = c[3]
            kw['_root_base'] = c[1]
            trace.append('ORoot')
        elif c[0] == 'randint':
            if not seen_index:
                if (c[1], c[2]) != (0, dim):
                    return None
                kw['index'] = c[3]
                seen_index = True
                trace.append('OIndex')
            else:
                kw['take'] = c[3]
                kw['_take_range'] = (c[1], c[2])
                trace.append('OTake')
        elif c[0] in ('eigvalsh', 'eigvals'):
            kw['eigs'] = [complex(e) for e in c[2]]
            trace.append('OEigh' if c[0] == 'eigvalsh' else 'OEig')
        elif c[0] == 'norm':
            kw['norm'] = c[2]
            trace.append('ONorm')
            if k + 1 >= len(rest) or rest[k + 1][0] != 'random_sample' or rest[k + 1][1] is not None:
                return None
            kw['u'] = rest[k + 1][2]
            k += 1
        else:
            return None
        k += 1
    vals = [kw['det'], kw['root'], kw['norm'], kw['u']] + list(kw['eigs'])
    if not finite(*vals):
        return None
    term = attempt_term(p['re'], p['im'], kw['det'], kw['root'], kw['index'], kw['eigs'], kw['take'], kw['norm'], kw['u'])
    return term, trace


def zero_shortcut_check(cfg, calls, arr):
    """determinant = 0: the matrix may be handed on unmodified only when its determinant is 0 to numerical precision
    (the source's own cut-off is |det| < 5e-13).  From the recorded library calls: if the last pass consulted
    np.linalg.det and then neither drew an index nor asked for eigenvalues, the raw matrix was returned as is."""
    if cfg.get('determinant') != 0:
        return []
    last = max((k for k, c in enumerate(calls) if c[0] == 'det'), default=None)
    if last is None:
        return ['determinant=0 requested but np.linalg.det was never consulted']
    after = [c[0] for c in calls[last + 1:]]
    if 'randint' in after or 'eigvals' in after or 'eigvalsh' in after:
        return []
    raw = abs(calls[last][2])
    if raw < 5e-13:
        return []
    import numpy as np
    return ['a matrix with determinant %r (not 0 to numerical precision) was returned unmodified; the sample has determinant %r'
            % (calls[last][2], complex(np.linalg.det(np.asarray(arr))))]


def run_zero_det_stream(ctx, res, rng, rec):
    """many cheap draws for the determinant=0 families whose shortcut depends on a rare raw determinant"""
    import numpy as np
    from mitxgraders import SquareMatrices
    quick = ctx['tier'] == 'quick' and not ctx['escalate']
    n = 6000 if quick else 20000
    count = 0
    for dim in (4, 5):
        for sym in ('diagonal', None, 'symmetric'):
            for cx in (False, True):
                cfg = dict(dimension=dim, symmetry=sym, traceless=False, determinant=0, complex=cx, norm=[2, 10])
                st, s = core.guarded(SquareMatrices, **cfg)
                if st != 'ret':
                    continue
                for d in range(n if sym == 'diagonal' else n // 10):
                    rec.calls = []
                    sta, arr = core.guarded(s.gen_sample)
                    res.oracle_evals += 1
                    count += 1
                    if sta != 'ret':
                        res.witnesses.append({'key': 'square-raise:%r' % (cfg,), 'kind': 'square', 'cfg': repr(cfg),
                                              'what': 'gen_sample raised %r' % (arr,)})
                        break
                    bad = zero_shortcut_check(cfg, rec.calls, arr)
                    a = np.asarray(arr)
                    nrm = float(np.linalg.norm(a))
                    if not bad and (d % 25 == 0 or abs(np.linalg.det(a)) > 1e-11 * max(1.0, nrm ** dim)):
                        bad = check_square(cfg, arr)
                    for b in bad:
                        res.witnesses.append({'key': 'square:%r' % (cfg,), 'kind': 'square', 'cfg': repr(cfg), 'draw': d, 'what': b,
                                              'sample': repr(a.tolist())})
    rec.calls = []
    res.distribution['zero_determinant_stream_draws'] = count


def run_squares(ctx, res, rng, rec, terms, metas):
    import numpy as np
    from mitxgraders import SquareMatrices
    from mitxgraders.exceptions import ConfigError
    quick = ctx['tier'] == 'quick' and not ctx['escalate']
    n_oracle = 30 if quick else 60
    n_coq = 1 if quick else 4
    accepted = rejected = 0
    dist = {}
    for k, base in enumerate(square_grid((2, 3, 4, 5))):
        norm = NORMS[k % len(NORMS)]
        cfg = dict(base, norm=norm)
        st, s = core.guarded(SquareMatrices, **cfg)
        res.oracle_evals += 1
        head = '%s %s %s %s %s %s %s' % (SYM[cfg['symmetry']], boollit(cfg['traceless']), DET[cfg['determinant']],
                                         boollit(cfg['complex']), natlit(cfg['dimension']), qf(norm[0]), qf(norm[1]))
        if st == 'exc' and isinstance(s, ConfigError):
            rejected += 1
            terms.append('(mkQ %s [] None false)' % head)
            metas.append(('square-rejected', repr(base)))
            continue
        if st != 'ret':
            res.witnesses.append({'key': 'construct:square:%r' % (base,), 'kind': 'construct', 'cfg': repr(cfg),
                                  'what': 'constructor raised %r' % (s,)})
            continue
        accepted += 1
        cplx = s.config['complex']
        dim = cfg['dimension']
        for d in range(n_oracle):
            n0 = len(rec.calls)
            st, arr = core.guarded(s.gen_sample)
            res.oracle_evals += 1
            if st != 'ret':
                res.witnesses.append({'key': 'square-raise:%r' % (base,), 'kind': 'square', 'cfg': repr(cfg), 'draw': d,
                                      'what': 'accepted configuration but gen_sample raised %r' % (arr,)})
                # still compare the constructor with the model (an accepted configuration that cannot be sampled)
                terms.append('(mkQ %s [] (Some ([], 0%%nat, [])) false)' % head)
                metas.append(('square-unsampleable', repr(base)))
                break
            for b in check_square(cfg, arr) + zero_shortcut_check(cfg, rec.calls[n0:], arr):
                res.witnesses.append({'key': 'square:%r' % (base,), 'kind': 'square', 'cfg': repr(cfg), 'draw': d, 'what': b,
                                      'sample': repr(np.asarray(arr).tolist())})
            res.nontrivial.add(('square', repr(base), d))
            if d >= (n_coq if dim <= 3 or quick else n_coq // 2):
                continue
            calls = rec.calls[n0:]
            passes = split_passes(calls, (dim, dim), cplx)
            conv = [pass_to_attempt(p, dim) for p in passes] if passes else None
            if not conv or any(c is None for c in conv):
                res.disagreements.append({'kind': 'square', 'cfg': repr(cfg), 'what': 'unexpected oracle consultation %r' % ([c[0] for c in calls],)})
                continue
            a = np.asarray(arr)
            if not finite(*a.reshape(-1)):
                continue
            traces = listlit([listlit(t) for _, t in conv])
            dist[len(conv)] = dist.get(len(conv), 0) + 1
            terms.append('(mkQ %s %s (Some (%s, %s, %s)) %s)' %
                         (head, listlit([t for t, _ in conv]), crows(a), natlit(len(conv)), traces, boollit(bool(np.iscomplexobj(a)))))
            metas.append(('square', repr(base), d))
    # the constructor beyond the property's dimension range (parity rules), no draws
    for base in square_grid((6, 7, 9)):
        st, s = core.guarded(SquareMatrices, **base)
        head = '%s %s %s %s %s 1 5' % (SYM[base['symmetry']], boollit(base['traceless']), DET[base['determinant']],
                                       boollit(base['complex']), natlit(base['dimension']))
        if st == 'exc' and isinstance(s, ConfigError):
            terms.append('(mkQ %s [] None false)' % head)
            metas.append(('square-rejected', repr(base)))
        elif st == 'ret' and not quick:
            stv, arr = core.guarded(s.gen_sample, seconds=30)
            res.oracle_evals += 1
            if stv != 'ret':
                res.witnesses.append({'key': 'square-raise:%r' % (base,), 'kind': 'square', 'cfg': repr(base),
                                      'what': 'accepted configuration but gen_sample raised %r' % (arr,)})
    run_zero_det_stream(ctx, res, rng, rec)
    res.distribution['square_accepted_dim2to5'] = accepted
    res.distribution['square_rejected_dim2to5'] = rejected
    res.distribution['square_passes_histogram'] = dist
    if accepted != 214:
        res.notes.append('accepted SquareMatrices combinations of dimension 2-5: %d (the property text says 214)' % accepted)


# ------------------------------------------------------------------------------------------------
def run(ctx):
    res = core.Result()
    rng = pyrandom.Random(1000003 * ctx['seed'] + 12)
    seed_all(7919 * ctx['seed'] + 12)
    res.rule = ('one case per (sampler class, configuration, draw[, evaluation point]); scalar grids include degenerate, reversed and '
                'negative intervals; all 288 SquareMatrices combinations of dimension 2-5 (accepted ones drawn repeatedly, rejected ones '
                'compared with the model\'s constructor); vectors/matrices/tensors up to 4 axes with triangular options; identity '
                'multiples over every scalar sampler; random functions over input_dim 1-4 x output_dim 1-3 x num_terms x center x '
                'amplitude x complex at random points')
    s_terms, s_metas = [], []
    f_terms, f_metas = [], []
    a_terms, a_metas = [], []
    q_terms, q_metas = [], []
    import time
    timing = {}
    with Instrumented() as rec:
        for name, fn, tm in (('scalars', run_scalars, (s_terms, s_metas)), ('discrete', run_discrete, (s_terms, s_metas)),
                             ('identity', run_identity, (s_terms, s_metas)), ('forms', run_forms, (s_terms, s_metas)),
                             ('random_functions', run_random_functions, (f_terms, f_metas)),
                             ('arrays', run_arrays, (a_terms, a_metas)), ('squares', run_squares, (q_terms, q_metas))):
            t0 = time.time()
            fn(ctx, res, rng, rec, *tm)
            timing[name] = round(time.time() - t0, 1)
            rec.calls = []
    hdr = HEADER + AGREE_DEFS
    big = not (ctx['tier'] == 'quick' and not ctx['escalate'])
    jobs = [('c12_scalar', 'scase_ok', s_terms, s_metas, 3 if not big else 8, 'scase'),
            ('c12_rf', 'rfcase_ok', f_terms, f_metas, 12 if not big else 32, 'rfcase'),
            ('c12_array', 'acase_ok', a_terms, a_metas, 3 if not big else 12, 'acase'),
            ('c12_square', 'qcase_ok', q_terms, q_metas, 14 if not big else 48, 'qcase')]
    # one pool for all four families (at most core.NPROC coqc processes at a time); inside a family the cases are
    # dealt round-robin so that every file gets the same mix of sizes
    files, plan = [], []
    for tag, fn, terms, metas, nshards, ty in jobs:
        if not terms:
            continue
        nshards = max(1, min(nshards, len(terms)))
        for k in range(nshards):
            idx = list(range(k, len(terms), nshards))
            text = (hdr + '\nDefinition verif_cases : list (%s) :=\n  [ %s ].\n' % (ty, '\n  ; '.join(terms[i] for i in idx)) +
                    'Fixpoint verif_failing {A} (f : A -> bool) (l : list A) (i : nat) : list nat :=\n'
                    '  match l with nil => nil | x :: r => if f x then verif_failing f r (S i) '
                    'else i :: verif_failing f r (S i) end.\n'
                    'Eval vm_compute in (verif_failing (%s) verif_cases 0).\n' % fn)
            files.append(('%s_%04d' % (tag, k), text))
            plan.append((tag, idx))
    import glob
    import os
    for old in glob.glob(os.path.join(core.CASES, 'c12_*.v')):
        os.remove(old)
    # heaviest files first
    order = sorted(range(len(files)), key=lambda i: -len(files[i][1]))
    t0 = time.time()
    outs = core.run_case_files([files[i] for i in order])
    timing['coq_all'] = round(time.time() - t0, 1)
    by_tag = {tag: (terms, metas) for tag, fn, terms, metas, nshards, ty in jobs}
    for pos, (name, rc, out) in zip(order, outs):
        tag, idx = plan[pos]
        terms, metas = by_tag[tag]
        failing = core.failing_indices(out) if rc == 0 else None
        if failing is None:
            res.corr_errors.append((name, out[-2000:]))
            continue
        for i in failing:
            g = idx[i]
            res.disagreements.append({'kind': tag, 'case': repr(metas[g]), 'term': terms[g][:600]})
    for tag, fn, terms, metas, nshards, ty in jobs:
        res.programs += len(terms)
        res.distribution[tag + '_cases'] = len(terms)
    res.distribution['seconds'] = timing
    if q_terms:
        res.samples.append({'square_case': q_metas[len(q_metas) // 2], 'term_prefix': q_terms[len(q_terms) // 2][:300]})
    if s_terms:
        res.samples.append({'scalar_case': s_metas[0], 'term': s_terms[0]})
    if f_terms:
        res.samples.append({'random_function_case': f_metas[0], 'term_prefix': f_terms[0][:300]})
    return res


# ------------------------------------------------------------------------------------------------
def classify_known(w, known):
    """No defect of C12 is known any more (the RandomFunction scaling was repaired in /repo commit 857063e): every
    witness, including a recurrence of that one, is reported."""
    return None


def replay(w):
    """re-run one implementation-level witness on the current tree"""
    import ast as _ast
    res = core.Result()
    kind = w.get('kind')
    with Instrumented() as rec:
        if kind == 'rf-bound' or kind == 'rf':
            from mitxgraders import RandomFunction
            cfg = _ast.literal_eval(w['cfg'])
            point = _ast.literal_eval(w['point']) if 'point' in w else None
            if w.get('forced_draws') is not None and point is not None:
                rec.forced['rand'] = [list(r) for r in w['forced_draws']]
                f = RandomFunction(**cfg).gen_sample()
                rec.forced.pop('rand', None)
                v = f(*point)
                rf_check_values(cfg, f, point, v, res, ':replay', forced=w['forced_draws'])
                return bool(res.witnesses), 'RandomFunction(%r) with PRNG answers %r at %r gives %r: %s' % (
                    cfg, w['forced_draws'], point, v, res.witnesses[0]['what'] if res.witnesses else 'within bounds')
            # random search with the same configuration
            rng = pyrandom.Random(12)
            seed_all(12)
            ctx = {'tier': 'quick', 'seed': 0, 'escalate': False}
            run_rf_config(ctx, res, rng, rec, cfg, 20, 0, 50, [], [])
            hit = [x for x in res.witnesses if x['kind'] == kind]
            return bool(hit), 'RandomFunction(%r): %d failing evaluations in 1000 (first: %s)' % (cfg, len(hit), hit[0]['what'] if hit else '-')
        if kind == 'square':
            from mitxgraders import SquareMatrices
            cfg = _ast.literal_eval(w['cfg'])
            seed_all(12)
            s = SquareMatrices(**cfg)
            fails = []
            for d in range(200):
                st, arr = core.guarded(s.gen_sample)
                fails += ['gen_sample raised %r' % (arr,)] if st != 'ret' else check_square(cfg, arr)
                if st != 'ret':
                    break
            return bool(fails), 'SquareMatrices(%r): %d failures in 200 draws (first: %s)' % (cfg, len(fails), fails[0] if fails else '-')
    # everything else: re-run the generators and look for the same key
    ctx = {'tier': 'quick', 'seed': 0, 'escalate': False, 'model_built': False}
    rng = pyrandom.Random(12)
    seed_all(12)
    with Instrumented() as rec:
        run_scalars(ctx, res, rng, rec, [], [])
        run_discrete(ctx, res, rng, rec, [], [])
        run_identity(ctx, res, rng, rec, [], [])
        run_arrays(ctx, res, rng, rec, [], [])
    hit = [x for x in res.witnesses if x.get('key') == w.get('key')] or [x for x in res.witnesses if x.get('kind') == kind]
    return bool(hit), 'witnesses of kind %s on the current tree: %d (first: %r)' % (kind, len(hit), hit[:1])
