"""C07 -- SingleListGrader scores a delimited list by the documented credit formula.

Tie (A): translate/singlelist.py regenerates coq/Gen/SingleList.v (consolidate_grades, consolidate_single_return,
get_padded_lists, padded_check, process_grade_list) from listgrader.py on every run; Bridge/SingleList.v proves the
regenerated definitions equal to the model's.
Tie (B), differential correspondence at trace level: real SingleListGraders (flat and one level of nesting) over a
table-driven ItemGrader subclass are run with `check`, `check_response` and the subgrader's `check` wrapped at run
time (no hooks in /repo).  Every invocation of SingleListGrader.check becomes one Coq term holding the answers it
was given, the subgrader results it received (the oracle table), the per-alternative check_response results and the
outcome; every top-level call becomes a second term holding only the leaf table and what the caller of
grader(expect, input) observed.  Model.SingleList (solver = Munkres.computeZ on integer-scaled costs) is evaluated by
vm_compute on those inputs and compared inside Coq (Model/SingleListAgree.v).

Property oracle (independent of the model and of the wrappers): the documented formula in Fractions with a
brute-force (subset DP) optimal assignment computed from the case's own credit table, the partial_credit=False
rule, the answer-level-message rule, permutation invariance on fresh graders, and the two error rules.
"""
import hashlib
import itertools
import json
import random
import re
from fractions import Fraction

from harness import core
from harness.core import qlit, zlit, listlit, strlit, boollit, natlit

ID = 'C07'
PROPS = 'Props/C07.v'
try:
    from translate import singlelist as tr_singlelist
    TRANSLATORS = [('Gen/SingleList.v', tr_singlelist.generate)]
except ImportError:          # translator not present: tie (B) only
    TRANSLATORS = []
MIRRORED = [('mitxgraders/listgrader.py', 'SingleListGrader.check_response'),
            ('mitxgraders/listgrader.py', 'SingleListGrader.process_grade_list'),
            ('mitxgraders/listgrader.py', 'SingleListGrader.infer_from_expect'),
            ('mitxgraders/listgrader.py', 'SingleListGrader.post_schema_ans_val'),
            ('mitxgraders/listgrader.py', 'find_optimal_order'),
            ('mitxgraders/listgrader.py', 'get_padded_lists'),
            ('mitxgraders/listgrader.py', 'padded_check'),
            ('mitxgraders/listgrader.py', 'consolidate_grades'),
            ('mitxgraders/listgrader.py', 'consolidate_single_return'),
            ('mitxgraders/listgrader.py', 'demand_no_empty'),
            ('mitxgraders/baseclasses.py', 'ItemGrader.check'),
            ('mitxgraders/baseclasses.py', 'ItemGrader.__call__'),
            ('mitxgraders/baseclasses.py', 'AbstractGrader.__call__'),
            ('mitxgraders/baseclasses.py', 'AbstractGrader.format_messages'),
            ('mitxgraders/helpers/munkres.py', 'make_cost_matrix')]
REFUTED = []
TRUSTED = [
    'correspondence harness harness/props/c07.py: run-time wrappers around SingleListGrader.check / check_response and the '
    'subgrader\'s check (results snapshotted at return); answers identified by object identity inside one call; floats enter Coq '
    'as exact rationals; grades compared within 1e-12, messages / all_awarded / errors exactly whenever every number that reaches '
    'the solver is a small dyadic rational (exact stream), otherwise grades and errors only, with decision boundaries guard-banded',
    'translator translate/singlelist.py (Python ast -> Gallina) for the straight-line helpers of listgrader.py',
    'the assignment solver: NOT assumed -- the model calls Munkres.computeZ (C06\'s model) on the costs D*(1-grade) scaled to integers by a '
    'common denominator D, and its optimality is C06\'s theorem munkres_partial_correct (Proofs/MunkresCorrect.v), carried over to '
    'rational costs by a proved scaling argument (solveZ_optimal); that the implementation\'s FLOAT run on 1 - grade makes the same '
    'decisions as this integer run (scale invariance of the algorithm, exactness of float arithmetic on small dyadic costs) is validated '
    'by the correspondence on the implementation\'s own runs, not proved',
    'modelled, not verified: Python str.split / str.strip (split proved to invert join; the whitespace table is compared with '
    'Python over every code point on each run), list/dict mechanics, IEEE rounding of sum()/n and of the credit product',
]
ASSUMPTIONS = ['the subgrader\'s check is a function of (answer, item) returning a grade in [0,1] or raising: an arbitrary oracle in every theorem',
               'answer credits lie in [0,1] (schema); the delimiter is non-empty',
               'statements about the grade are of the form "if the model returns a grade"; that the executable model always does when no '
               'input error is due and the subgrader answers is proved without any bound (C07_returns, from C06\'s munkres_terminates)',
               'debug=False and no attempt-based credit on the observed graders (both act after check)']

HEADER = ('From Coq Require Import ZArith QArith List Bool.\n'
          'From Verif.Lib Require Import QRound.\n'
          'From Verif.Model Require Import Result SingleList SingleListAgree.\n'
          'Import ListNotations.\nOpen Scope Q_scope.\n')

TOL = Fraction(1, 10**9)


# ------------------------------------------------------------------------------------------------
# the table-driven subgrader (author-defined ItemGrader: item credits are arbitrary)
# ------------------------------------------------------------------------------------------------
_TG = {}


def table_grader_class():
    if 'cls' in _TG:
        return _TG['cls']
    from voluptuous import Required
    from mitxgraders.baseclasses import ItemGrader
    from mitxgraders.exceptions import InvalidInput

    class TableGrader(ItemGrader):
        """check_response looks (expect, item), both stripped, up in a table: (fraction, message) or 'raise'"""
        @property
        def schema_config(self):
            return super(TableGrader, self).schema_config.extend({Required('table', default={}): dict})

        def check_response(self, answer, student_input, **kwargs):
            v = self.config['table'].get(answer['expect'].strip() + '|' + student_input.strip())
            if v == 'raise':
                raise InvalidInput('boom:7')
            f, m = v if v else (0, '')
            g = f * answer['grade_decimal']
            msg = m if m else (answer['msg'] if f else '')
            return {'ok': self.grade_decimal_to_ok(g), 'grade_decimal': g, 'msg': msg}
    _TG['cls'] = TableGrader
    return TableGrader


# ------------------------------------------------------------------------------------------------
# case specifications (JSON-able) and the graders built from them
# ------------------------------------------------------------------------------------------------
ITEM_NAMES = ['x', 'y', 'z', 'w', 'v', 'u', 't', 'q']
LEAF_NAMES = ['A', 'B', 'C', 'D', 'E', 'F', 'G', 'H', 'J', 'K']
EXACT_CREDITS = [0, 0, 0, 1, 1, 1, 0.5, 0.5, 0.25, 0.75, 0.125]
ROUNDED_CREDITS = [0, 0, 1, 1, 0.5, 0.1, 0.3, 1.0 / 3, 0.7, 0.9, 0.2, 0.6]
FLAT_DELIMS = [',', ',', ',', ';', '|', ' ', '--', ', ', '::', 'ab', '<>', '\t', 'aa']
OUTER_DELIMS = [';', '|', '//', ';;']
INNER_DELIMS = [',', ' ', '--', ',']


def cfg_kwargs(c):
    return {'delimiter': c['delimiter'], 'ordered': c['ordered'], 'length_error': c['length_error'],
            'missing_error': c['missing_error'], 'partial_credit': c['partial_credit'], 'wrong_msg': c['wrong_msg']}


def leaf_obj(spec, name):
    alts = spec['leaves'][name]
    if len(alts) == 1 and alts[0]['credit'] == 1 and alts[0]['msg'] == '' and alts[0].get('bare', True):
        return alts[0]['expect']
    return tuple({'expect': a['expect'], 'grade_decimal': a['credit'], 'msg': a['msg']} for a in alts)


def answer_obj(a, item_obj):
    """one entry of `answers`: a dict (or, when plain, just the list)"""
    lists = [[item_obj(it) for it in lst] for lst in a['lists']]
    expect = lists[0] if len(lists) == 1 and not a.get('tuple') else tuple(lists)
    if a['credit'] == 1 and a['msg'] == '' and a.get('bare'):
        return expect
    return {'expect': expect, 'grade_decimal': a['credit'], 'msg': a['msg']}


def answers_obj(spec):
    if spec['form'] in ('string', 'infer'):
        return spec['answers_string']
    if spec['nested']:
        def inner_obj(inner_answers):
            objs = [answer_obj(a, lambda n: leaf_obj(spec, n)) for a in inner_answers]
            return objs[0] if len(objs) == 1 and isinstance(objs[0], list) else tuple(objs)
        objs = [answer_obj(a, inner_obj) for a in spec['answers']]
    else:
        objs = [answer_obj(a, lambda n: leaf_obj(spec, n)) for a in spec['answers']]
    if len(objs) == 1 and isinstance(objs[0], (list, dict)) and spec.get('single'):
        return objs[0]
    return tuple(objs)


def build(spec):
    """returns (grader, leaf, inner-or-None); raises whatever construction raises"""
    from mitxgraders import SingleListGrader
    leaf = table_grader_class()(table=dict(spec['table']))
    inner = None
    sub = leaf
    if spec['nested']:
        inner = SingleListGrader(subgrader=leaf, **cfg_kwargs(spec['inner_cfg']))
        sub = inner
    kw = cfg_kwargs(spec['cfg'])
    if spec['form'] != 'infer':
        kw['answers'] = answers_obj(spec)
    g = SingleListGrader(subgrader=sub, **kw)
    return g, leaf, inner


def call_args(spec, inp):
    return (spec['answers_string'] if spec['form'] == 'infer' else None, inp)


# ------------------------------------------------------------------------------------------------
# recording (tie B)
# ------------------------------------------------------------------------------------------------
def snap_sub(r):
    return {'grade': r['grade_decimal'], 'msg': r['msg'], 'all': bool(r.get('all_awarded', False))}


class Recorder:
    """wraps, on instances: g.check, g.check_response for every SingleListGrader level, and leaf.check"""
    def __init__(self, levels, leaf):
        self.frames, self.stack, self.leaf_calls = [], [], []
        for g in levels:
            self._wrap_slg(g)
        self._wrap_sub(leaf, True)

    def _wrap_sub(self, sub, is_leaf):
        rec = self
        orig = sub.check

        def check(answers, student_input, **kw):
            entry = {'ans': answers, 'item': student_input}
            if rec.stack:
                rec.stack[-1]['table'].append(entry)
            if is_leaf:
                rec.leaf_calls.append(entry)
            try:
                out = orig(answers, student_input, **kw)
            except Exception as e:      # noqa
                entry['exc'] = e
                raise
            entry['res'] = snap_sub(out)
            return out
        sub.__dict__['check'] = check

    def _wrap_slg(self, g):
        rec = self
        orig_check = g.check
        orig_cr = g.check_response

        def check_response(answer, student_input, **kw):
            fr = rec.stack[-1]
            try:
                out = orig_cr(answer, student_input, **kw)
            except Exception as e:      # noqa
                fr['trace'].append({'exc': e})
                raise
            fr['trace'].append({'res': snap_sub(out)})
            return out

        def check(answers, student_input, **kw):
            eff = g.config['answers'] if answers is None else answers
            fr = {'grader': g, 'answers': eff, 'input': student_input, 'table': [], 'trace': [], 'depth': len(rec.stack)}
            rec.stack.append(fr)
            try:
                out = orig_check(answers, student_input, **kw)
                fr['out'] = {'res': snap_sub(out)}
                return out
            except Exception as e:      # noqa
                fr['out'] = {'exc': e}
                raise
            finally:
                rec.stack.pop()
                rec.frames.append(fr)
        g.__dict__['check_response'] = check_response
        g.__dict__['check'] = check
        # an SLG used as a subgrader also feeds its parent's table
        self_check = g.__dict__['check']

        def check_as_sub(answers, student_input, **kw):
            entry = {'ans': answers, 'item': student_input}
            if rec.stack:
                rec.stack[-1]['table'].append(entry)
            try:
                out = self_check(answers, student_input, **kw)
            except Exception as e:      # noqa
                entry['exc'] = e
                raise
            entry['res'] = snap_sub(out)
            return out
        g.__dict__['check'] = check_as_sub


# ------------------------------------------------------------------------------------------------
# Coq terms
# ------------------------------------------------------------------------------------------------
class Unterm(Exception):
    pass


def is_small_dyadic(x):
    fr = Fraction(x)
    d = fr.denominator
    return d & (d - 1) == 0 and d <= 2**20


LEN_RE = re.compile(r'^List length error: Expected (\d+) terms in the list, but received (\d+)\. '
                    r'Separate items with character "(.*)"$', re.S)
MISS_RE = re.compile(r'^List error: Empty (entry|entries) detected in position(s?) (\d+(?:, \d+)*)$')


def err_term(e, delim=None):
    """an exception as a Model.SingleList.err term; anything unexpected becomes a value no model error equals"""
    from mitxgraders.exceptions import MissingInput, ConfigError, InvalidInput
    msg = str(e)
    if isinstance(e, MissingInput):
        m = LEN_RE.match(msg)
        if m and (delim is None or m.group(3) == delim):
            return '(ErrLength %s %s)' % (natlit(m.group(1)), natlit(m.group(2)))
        m = MISS_RE.match(msg)
        if m:
            pos = [int(p) for p in m.group(3).split(', ')]
            plural = len(pos) > 1
            if (m.group(1) == 'entries') == plural and (m.group(2) == 's') == plural:
                return '(ErrMissing %s)' % listlit([natlit(p) for p in pos])
    if type(e) is InvalidInput and msg == 'boom:7':
        return '(ErrSub 7%Z)'
    if type(e) is ConfigError and 'Empty entry detected in answer list' in msg:
        return 'ErrConfig'
    if type(e) is ConfigError and 'Expected at least one answer in answers' in msg:
        return 'ErrNoAnswers'
    return '(ErrSub (-2)%Z)'


def cfg_term(c, nested):
    return '(mkCfg %s %s %s %s %s %s %s)' % (strlit(c['delimiter']), boollit(c['ordered']), boollit(c['length_error']),
                                           boollit(c['missing_error']), boollit(c['partial_credit']), boollit(nested),
                                           strlit(c['wrong_msg']))


def cfg_of_grader(g):
    from mitxgraders import SingleListGrader
    c = {k: g.config[k] for k in ('delimiter', 'ordered', 'length_error', 'missing_error', 'partial_credit', 'wrong_msg')}
    return c, isinstance(g.config['subgrader'], SingleListGrader)


def sres_term(r):
    return '(mkSres %s %s %s)' % (qlit(r['grade']), strlit(r['msg']), boollit(r['all']))


def res_term(entry, delim=None):
    if 'res' in entry:
        return '(inl %s)' % sres_term(entry['res'])
    return '(inr %s)' % err_term(entry['exc'], delim)


def frame_term(fr):
    """one SingleListGrader.check invocation -> (term, exact)"""
    g = fr['grader']
    c, nested = cfg_of_grader(g)
    ids = {}
    ans_terms = []
    credits = []
    for a in fr['answers']:
        lists = []
        for lst in a['expect']:
            row = []
            for obj in lst:
                ids.setdefault(id(obj), len(ids) + 1)
                row.append(zlit(ids[id(obj)]))
            lists.append(listlit(row))
        credits.append(a['grade_decimal'])
        ans_terms.append('(mkAnswer %s %s %s)' % (listlit(lists), qlit(a['grade_decimal']), strlit(a['msg'])))
    table, seen = [], set()
    grades = list(credits)
    for t in fr['table']:
        k = ids.get(id(t['ans']))
        if k is None:
            raise Unterm('subgrader called with an answer that is not in the configuration')
        key = (k, t['item'])
        if key in seen:
            continue
        seen.add(key)
        table.append('((%s, %s), %s)' % (zlit(k), strlit(t['item']), res_term(t)))
        if 'res' in t:
            grades.append(t['res']['grade'])
    exact = all(is_small_dyadic(x) for x in grades)
    scale_ok = True      # the solver no longer starts its minimum search from sys.maxsize: any common denominator is faithful
    trace = [res_term(t, None if nested else c['delimiter']) for t in fr['trace']]
    out = res_term(fr['out'], None if nested else c['delimiter'])
    term = ('CFrame (mkFrame %s %s %s %s %s %s %s)' %
            (cfg_term(c, nested), listlit(ans_terms), listlit(table), boollit(exact), strlit(fr['input']), listlit(trace), out))
    return term, exact, scale_ok


def leaf_key(ans):
    return ans[0]['expect'][0]


def canon_flat_term(answers):
    out = []
    for a in answers:
        lists = [listlit([strlit(leaf_key(obj)) for obj in lst]) for lst in a['expect']]
        out.append('(mkAnswer %s %s %s)' % (listlit(lists), qlit(a['grade_decimal']), strlit(a['msg'])))
    return listlit(out)


def canon_nested_term(answers):
    out = []
    for a in answers:
        lists = [listlit([canon_flat_term(inner) for inner in lst]) for lst in a['expect']]
        out.append('(mkAnswer %s %s %s)' % (listlit(lists), qlit(a['grade_decimal']), strlit(a['msg'])))
    return listlit(out)


def all_credits(answers, nested):
    out = []
    for a in answers:
        out.append(a['grade_decimal'])
        if nested:
            for lst in a['expect']:
                for inner in lst:
                    out += all_credits(inner, False)
    return out


def obs_term(st, out, delim):
    if st == 'ret':
        ok = {True: 'OkTrue', False: 'OkFalse', 'partial': 'OkPartial'}.get(out.get('ok'))
        if ok is None or set(out) != {'ok', 'grade_decimal', 'msg'}:
            raise Unterm('unexpected result %r' % (out,))
        return '(ORet %s %s %s)' % (ok, qlit(out['grade_decimal']), strlit(out['msg']))
    return '(OErr %s)' % err_term(out, delim)


def top_term(spec, g, rec, inp, st, out, frames_exact, tie_risk):
    """the end-to-end case of one grader(expect, input) call -> term or None"""
    nested = spec['nested']
    answers = g.config['answers']
    table, seen, grades = [], set(), []
    for t in rec.leaf_calls:
        key = (leaf_key(t['ans']), t['item'])
        if key in seen:
            continue
        seen.add(key)
        table.append('((%s, %s), %s)' % (strlit(key[0]), strlit(key[1]), res_term(t)))
        if 'res' in t:
            grades.append(t['res']['grade'])
    grades += all_credits(answers, nested) if isinstance(answers, tuple) else []
    exact = all(is_small_dyadic(x) for x in grades) and frames_exact and not tie_risk
    if nested and not exact:
        return None, exact
    canon = canon_nested_term if nested else canon_flat_term
    if spec['form'] in ('string', 'infer'):
        form = '(FString %s (Some %s))' % (strlit(spec['answers_string']), canon(answers))
    else:
        form = '(FExplicit %s)' % canon(answers)
    o = obs_term(st, out, spec['cfg']['delimiter'] if not nested else None)
    if nested:
        return ('CNested (mkTopNested %s %s %s %s %s %s %s)' %
                (cfg_term(spec['cfg'], True), cfg_term(spec['inner_cfg'], False), form, listlit(table), boollit(exact),
                 strlit(inp), o)), exact
    return ('CFlat (mkTopFlat %s %s %s %s %s %s)' %
            (cfg_term(spec['cfg'], False), form, listlit(table), boollit(exact), strlit(inp), o)), exact


def config_error_term(spec, e):
    """construction / inference refused: the model must refuse the same string"""
    form = '(FString %s None)' % strlit(spec['answers_string'])
    o = '(OErr %s)' % err_term(e)
    if spec['nested']:
        return ('CNested (mkTopNested %s %s %s [] true %s %s)' %
                (cfg_term(spec['cfg'], True), cfg_term(spec['inner_cfg'], False), form, strlit(''), o))
    return 'CFlat (mkTopFlat %s %s [] true %s %s)' % (cfg_term(spec['cfg'], False), form, strlit(''), o)


# ------------------------------------------------------------------------------------------------
# the property oracle (independent of the model; credits come from the case's own table)
# ------------------------------------------------------------------------------------------------
def my_split(s, d):
    out, i = [], 0
    while True:
        j = s.find(d, i)
        if j < 0:
            out.append(s[i:])
            return out
        out.append(s[i:j])
        i = j + len(d)


def is_blank(s):
    return all(ch.isspace() for ch in s)


class Raises(Exception):
    """the property demands a student-facing error"""


class NoDemand(Exception):
    """the subgrader itself raises on an evaluated pair: the property is silent"""


def leaf_credit(spec, name, item):
    alts = spec['leaves'].get(name) or [{'expect': name, 'credit': 1, 'msg': ''}]
    best = Fraction(0)
    for a in alts:
        v = spec['table'].get(a['expect'].strip() + '|' + item.strip())
        if v == 'raise':
            raise NoDemand()
        if v:
            best = max(best, Fraction(v[0]) * Fraction(a['credit']))
    return best


def best_assignment(M, ns, ne, positive_only=False):
    """maximum total of a one-to-one assignment of items (rows) to answers (columns); DP over column subsets.
    positive_only: perfect assignments (ns == ne) using only pairs with positive credit; None if there is none"""
    NEG = None
    cur = {0: Fraction(0)}
    for i in range(ns):
        nxt = {}
        for mask, tot in cur.items():
            if not positive_only:
                if nxt.get(mask, NEG) is None or nxt[mask] < tot:
                    nxt[mask] = tot
            for j in range(ne):
                if mask & (1 << j):
                    continue
                if positive_only and not M[i][j] > 0:
                    continue
                m2, t2 = mask | (1 << j), tot + M[i][j]
                if nxt.get(m2, NEG) is None or nxt[m2] < t2:
                    nxt[m2] = t2
        cur = nxt
    if positive_only:
        return cur.get((1 << ne) - 1)
    return max(cur.values())


def alt_expect(c, names, credit, items, pair_credit, pair_earned=None):
    """what the property says about ONE list of expected items: (score, answer-level message allowed).
    pair_earned (nesting only): the second reading of "earned credit" for an inner list, see expected()"""
    ne, ns = len(names), len(items)
    if c['length_error'] and ne != ns:
        raise Raises('a length error is due: %d items for %d expected, split on %r with length_error=True' % (ns, ne, c['delimiter']))
    if c['missing_error'] and any(is_blank(it) for it in items):
        raise Raises('a missing-input error is due: items %r (split on %r) contain a blank one, the count is %s, missing_error=True, '
                     'length_error=%r' % (items, c['delimiter'], 'right' if ne == ns else 'not checked', c['length_error']))

    def ok_pair(j, i, cr):
        return cr > 0 or (pair_earned is not None and pair_earned(names[j], items[i]))
    if c['ordered']:
        creds = [pair_credit(names[i], items[i]) for i in range(min(ne, ns))]
        best = sum(creds, Fraction(0))
        earned = ne == ns and all(ok_pair(i, i, cr) for i, cr in enumerate(creds))
    else:
        mat = [[pair_credit(names[j], items[i]) for j in range(ne)] for i in range(ns)]
        best = best_assignment(mat, ns, ne)
        earned = False
        if ne == ns and pair_earned is None:
            # some OPTIMAL one-to-one assignment in which every pair earned credit
            pos = best_assignment(mat, ns, ne, positive_only=True)
            earned = pos is not None and pos == best
        elif ne == ns:
            okm = [[Fraction(1) if ok_pair(j, i, mat[i][j]) else Fraction(0) for j in range(ne)] for i in range(ns)]
            earned = best_assignment(okm, ns, ne, positive_only=True) is not None
    surplus = max(0, ns - ne)
    x = max(Fraction(0), (best - surplus) / ne)
    if not c['partial_credit']:
        x = Fraction(1) if x == 1 else Fraction(0)
    return Fraction(credit) * x, earned


def expected(spec, inp):
    """(grade, {answer index: message allowed}) demanded by the property, or raises Raises / NoDemand"""
    c = spec['cfg']
    items = my_split(inp, c['delimiter'])
    if spec['form'] in ('string', 'infer'):
        if spec['nested']:
            parts = [my_split(p, spec['inner_cfg']['delimiter']) for p in my_split(spec['answers_string'], c['delimiter'])]
            answers = [{'lists': [[[{'lists': [p], 'credit': 1, 'msg': ''}] for p in parts]], 'credit': 1, 'msg': ''}]
        else:
            answers = [{'lists': [my_split(spec['answers_string'], c['delimiter'])], 'credit': 1, 'msg': ''}]
    else:
        answers = spec['answers']
    if not spec['nested']:
        def pair_credit(name, it):
            return leaf_credit(spec, name, it)
        pair_earned = None
    else:
        ci = spec['inner_cfg']

        def inner_eval(inner_answers, it):
            its = my_split(it, ci['delimiter'])
            best, earned = None, False
            for a in inner_answers:
                for lst in a['lists']:
                    sc, ea = alt_expect(ci, lst, a['credit'], its, lambda n, x: leaf_credit(spec, n, x))
                    best = sc if best is None or sc > best else best
                    earned = earned or ea
            return best, earned
        cache = {}

        def pair_credit(ia, it):
            k = (json.dumps(ia, sort_keys=True), it)
            if k not in cache:
                cache[k] = inner_eval(ia, it)
            return cache[k][0]

        def pair_earned(ia, it):
            pair_credit(ia, it)
            return cache[(json.dumps(ia, sort_keys=True), it)][1]
    best, allowed = None, {}
    for k, a in enumerate(answers):
        for lst in a['lists']:
            sc, ea = alt_expect(c, lst, a['credit'], items, pair_credit, pair_earned)
            best = sc if best is None or sc > best else best
            allowed[k] = allowed.get(k, False) or ea
    return best, allowed


def judge(spec, inp, st, out):
    """None or a description of how the observed outcome violates the property"""
    from mitxgraders.exceptions import StudentFacingError, ConfigError
    if spec['form'] == 'infer' and st == 'exc' and isinstance(out, ConfigError) and 'Empty entry detected in answer list' in str(out):
        return None            # the author's expect string has a blank entry: outside the property
    try:
        grade, allowed = expected(spec, inp)
    except NoDemand:
        return None
    except Raises as r:
        if st == 'exc' and isinstance(out, StudentFacingError):
            return None
        return '%s; but the call returned %r' % (r, out)
    if st != 'ret':
        return 'no grade returned (%s: %s) although nothing calls for an error; the formula gives %s' % (type(out).__name__, out, grade)
    g = Fraction(out['grade_decimal'])
    if abs(g - grade) > TOL:
        return 'grade %r, but credit x max(0, (best - surplus)/n_expect) = %s' % (out['grade_decimal'], grade)
    lines = out['msg'].split('<br/>\n')
    for k, a in enumerate(spec['answers'] if spec['form'] not in ('string', 'infer') else []):
        if a['msg'] and a['msg'] in lines and not allowed.get(k, False):
            return ('answer-level message %r shown although not every submitted and expected item earned credit' % (a['msg'],))
    return None


def permutation_inputs(rng, spec, inp, budget):
    d = spec['cfg']['delimiter']
    items = my_split(inp, d)
    if len(items) < 2:
        return []
    if len(items) <= 4:
        perms = [p for p in itertools.permutations(range(len(items))) if list(p) != list(range(len(items)))]
        if len(perms) > budget:
            perms = rng.sample(perms, budget)
    else:
        perms = []
        for _ in range(budget):
            p = list(range(len(items)))
            rng.shuffle(p)
            perms.append(tuple(p))
        perms.append(tuple(reversed(range(len(items)))))
    out = []
    for p in perms:
        pinp = d.join(items[i] for i in p)
        if my_split(pinp, d) == [items[i] for i in p]:      # joining must not create new delimiter occurrences
            out.append((list(p), pinp))
    return out


# ------------------------------------------------------------------------------------------------
# generators
# ------------------------------------------------------------------------------------------------
def gen_cfg(rng, delim):
    # the four (length_error, missing_error) combinations carry equal weight
    le, me = rng.choice([(False, False), (False, True), (True, False), (True, True)])
    return {'delimiter': delim, 'ordered': rng.random() < 0.4, 'length_error': le,
            'missing_error': me, 'partial_credit': rng.random() < 0.7,
            'wrong_msg': rng.choice(['', '', 'WRONG'])}


BLANKS = ['', ' ', '  ', '\t', ' \t ']


def blank_family(rng, ne, delim, positions=None, blanks=None):
    """submissions with EXACTLY ne items of which one (first / middle / last) is empty or whitespace-only, the others being
    the favourite items; the blank falls back to '' where whitespace would interact with the delimiter"""
    out = []
    for pos in (positions if positions is not None else sorted({0, ne // 2, ne - 1})):
        for b in (blanks if blanks is not None else [rng.choice(BLANKS)]):
            items = [ITEM_NAMES[j % len(ITEM_NAMES)] for j in range(ne)]
            items[pos] = b
            s = delim.join(items)
            got = my_split(s, delim)
            if len(got) != ne or not is_blank(got[pos]):
                items[pos] = ''
                s = delim.join(items)
            out.append(s)
    return out


def gen_leaves(rng, spec, names, credits):
    """leaf definitions (alternatives with partial credit) and a credit table over the item names"""
    for n in names:
        if n in spec['leaves']:
            continue
        alts = [{'expect': n, 'credit': 1, 'msg': '', 'bare': rng.random() < 0.7}]
        if rng.random() < 0.35:
            alts = [{'expect': n, 'credit': rng.choice([1, 1, 0.5]), 'msg': rng.choice(['', 'm:' + n])},
                    {'expect': n + '2', 'credit': rng.choice([0.5, 0.25, 1, 0]), 'msg': rng.choice(['', 'm:' + n + '2'])}]
        spec['leaves'][n] = alts
        for a in alts:
            for it in ITEM_NAMES:
                r = rng.random()
                if r < 0.45:
                    continue
                f = rng.choice(credits)
                spec['table'][a['expect'] + '|' + it] = [f, rng.choice(['', '', 'i:%s%s' % (a['expect'], it)]) if f else '']
    # a favourite item per leaf so that full credit is reachable
    for k, n in enumerate(names):
        if rng.random() < 0.8:
            spec['table'][n + '|' + ITEM_NAMES[k % len(ITEM_NAMES)]] = [1, '']


def gen_flat_answers(rng, spec, credits, names_pool, n_answers=None, tag='ANS', ne=None):
    ne = ne or rng.choice([1, 2, 2, 3, 3, 3, 4, 4, 5])
    n_answers = n_answers or rng.choice([1, 1, 1, 2, 2, 3])
    answers = []
    for k in range(n_answers):
        nl = rng.choice([1, 1, 1, 2])
        lists = [[rng.choice(names_pool) for _ in range(ne)] for _ in range(nl)]
        if rng.random() < 0.6:
            lists[0] = rng.sample(names_pool, ne) if ne <= len(names_pool) else lists[0]
        a = {'lists': lists, 'credit': rng.choice([1, 1, 1, 0.5, 0.25, 0.75, 0] if credits is EXACT_CREDITS else [1, 1, 0.5, 0.7, 0.9, 0.3]),
             'msg': rng.choice(['', '%s%d' % (tag, k), '%s%d' % (tag, k)]), 'tuple': nl > 1 or rng.random() < 0.2,
             'bare': rng.random() < 0.5}
        answers.append(a)
    return answers, ne


def vary_item(rng, it):
    r = rng.random()
    if r < 0.6:
        return it
    if r < 0.8:
        return ' ' + it
    if r < 0.9:
        return it + ' '
    return '\t' + it + '  '


def gen_inputs_for(rng, ne, delim, n_inputs, missing_bias=0.08, item_gen=None, right_count=0.55):
    item_gen = item_gen or (lambda: vary_item(rng, rng.choice(ITEM_NAMES[:6])))
    out = []
    for _ in range(n_inputs):
        r = rng.random()
        ns = ne if r < right_count else rng.randint(1, 7)
        base = ITEM_NAMES[:]
        rng.shuffle(base)
        items = []
        for k in range(ns):
            if rng.random() < 0.7 and k < len(base):
                items.append(vary_item(rng, ITEM_NAMES[k % len(ITEM_NAMES)]) if rng.random() < 0.6 else vary_item(rng, base[k]))
            else:
                items.append(item_gen())
        if rng.random() < 0.5:
            rng.shuffle(items)
        if rng.random() < missing_bias:
            items[rng.randrange(len(items))] = rng.choice(['', ' ', '  ', '\t'])
            if rng.random() < 0.3:
                items[rng.randrange(len(items))] = rng.choice(['', ' '])
        out.append(delim.join(items))
    return out


def gen_flat(rng, stream):
    credits = EXACT_CREDITS if stream == 'exact' else ROUNDED_CREDITS
    delim = rng.choice(FLAT_DELIMS)
    spec = {'nested': False, 'cfg': gen_cfg(rng, delim), 'inner_cfg': None, 'leaves': {}, 'table': {}, 'single': rng.random() < 0.5,
            'stream': stream}
    form = rng.choice(['explicit'] * 6 + ['string', 'infer'])
    spec['form'] = form
    pool = rng.sample(LEAF_NAMES, rng.randint(2, 6))
    if form == 'explicit':
        spec['answers'], ne = gen_flat_answers(rng, spec, credits, pool)
        gen_leaves(rng, spec, sorted({n for a in spec['answers'] for l in a['lists'] for n in l}), credits)
    else:
        ne = rng.choice([1, 2, 3, 3, 4, 5])
        names = [rng.choice(pool) for _ in range(ne)]
        parts = [vary_item(rng, n) if rng.random() < 0.5 else n for n in names]
        if rng.random() < 0.08:
            parts[rng.randrange(ne)] = rng.choice(['', ' '])
        spec['answers_string'] = delim.join(parts)
        spec['answers'] = []
        for n in sorted(set(names)):
            for it in ITEM_NAMES:
                if rng.random() < 0.5:
                    f = rng.choice(credits)
                    spec['table'][n + '|' + it] = [f, rng.choice(['', 'i:%s%s' % (n, it)]) if f else '']
        for k, n in enumerate(names):
            spec['table'][n + '|' + ITEM_NAMES[k % len(ITEM_NAMES)]] = [1, '']
    if rng.random() < 0.04:
        k = rng.choice(sorted(spec['table'])) if spec['table'] else None
        if k:
            spec['table'][k] = 'raise'
    spec['inputs'] = gen_inputs_for(rng, ne, delim, rng.randint(3, 4), right_count=0.85 if spec['cfg']['length_error'] else 0.55)
    # the right number of items, one of them blank: first / middle / last
    fam = blank_family(rng, ne, delim)
    spec['inputs'] += rng.sample(fam, min(2, len(fam)))
    return spec


def gen_nested(rng, stream):
    credits = EXACT_CREDITS if stream == 'exact' else ROUNDED_CREDITS
    do = rng.choice(OUTER_DELIMS)
    di = rng.choice([d for d in INNER_DELIMS if d != do])
    co, ci = gen_cfg(rng, do), gen_cfg(rng, di)
    fixed_inner = rng.choice([2, 2, 3]) if ci['length_error'] else None     # a wrong inner count is an error: keep inner lists alike
    spec = {'nested': True, 'cfg': co, 'inner_cfg': ci, 'leaves': {}, 'table': {}, 'single': rng.random() < 0.5, 'stream': stream}
    form = rng.choice(['explicit'] * 5 + ['string', 'infer'])
    spec['form'] = form
    pool = rng.sample(LEAF_NAMES, rng.randint(2, 5))
    if form == 'explicit':
        ne = rng.choice([1, 2, 2, 3])
        n_answers = rng.choice([1, 1, 2])
        answers = []
        inner_lens = []
        for k in range(n_answers):
            nl = rng.choice([1, 1, 2])
            lists = []
            for _ in range(nl):
                lst = []
                for _ in range(ne):
                    ia, n_in = gen_flat_answers(rng, spec, credits, pool, n_answers=rng.choice([1, 1, 2]), tag='IN', ne=fixed_inner)
                    for a in ia:
                        a['lists'] = a['lists'][:1] if rng.random() < 0.7 else a['lists']
                    lst.append(ia)
                    inner_lens.append(n_in)
                lists.append(lst)
            answers.append({'lists': lists, 'credit': rng.choice([1, 1, 0.5, 0.75] if stream == 'exact' else [1, 0.7, 0.9]),
                            'msg': rng.choice(['', 'ANS%d' % k, 'ANS%d' % k]), 'tuple': nl > 1, 'bare': rng.random() < 0.5})
        spec['answers'] = answers
        names = sorted({n for a in answers for l in a['lists'] for ia in l for b in ia for ll in b['lists'] for n in ll})
        gen_leaves(rng, spec, names, credits)
        typical = max(1, min(inner_lens))
        first_lens = inner_lens[:ne]
    else:
        ne = rng.choice([1, 2, 3])
        parts = []
        first_lens = []
        for _ in range(ne):
            k = fixed_inner or rng.choice([1, 2, 2, 3])
            first_lens.append(k)
            parts.append(di.join(rng.choice(pool) for _ in range(k)))
        spec['answers_string'] = do.join(parts)
        spec['answers'] = []
        for n in pool:
            for it in ITEM_NAMES:
                if rng.random() < 0.5:
                    f = rng.choice(credits)
                    spec['table'][n + '|' + it] = [f, rng.choice(['', 'i:%s%s' % (n, it)]) if f else '']
        for k, n in enumerate(pool):
            spec['table'][n + '|' + ITEM_NAMES[k]] = [1, '']
        typical = 2

    def inner_item(n=None):
        return gen_inputs_for(rng, n or typical, di, 1, missing_bias=0.05, right_count=0.9 if (ci['length_error'] or n) else 0.55)[0]
    outs = []
    for _ in range(rng.randint(3, 4)):
        ns = ne if rng.random() < (0.85 if co['length_error'] else 0.6) else rng.randint(1, 4)
        items = [inner_item() for _ in range(ns)]
        if rng.random() < 0.06:
            items[rng.randrange(ns)] = rng.choice(['', ' '])
        outs.append(do.join(items))
    # right counts at both levels, a blank piece inside one inner list (first / middle / last) ...
    good = [di.join(ITEM_NAMES[j % len(ITEM_NAMES)] for j in range(first_lens[k])) for k in range(ne)]
    pos = rng.randrange(ne)
    items = list(good)
    items[pos] = rng.choice(blank_family(rng, first_lens[pos], di))
    if len(my_split(do.join(items), do)) == ne:
        outs.append(do.join(items))
    # ... and a blank item at the outer level
    items = list(good)
    items[rng.randrange(ne)] = rng.choice(BLANKS)
    if len(my_split(do.join(items), do)) == ne:
        outs.append(do.join(items))
    spec['inputs'] = outs
    return spec


def corpus():
    """hand-written cases that run first on every seed"""
    def flat(cfg, answers, leaves, table, inputs, **kw):
        c = {'delimiter': ',', 'ordered': False, 'length_error': False, 'missing_error': True, 'partial_credit': True, 'wrong_msg': ''}
        c.update(cfg)
        s = {'nested': False, 'cfg': c, 'inner_cfg': None, 'form': 'explicit', 'answers': answers, 'leaves': leaves, 'table': table,
             'inputs': inputs, 'single': False, 'stream': 'exact'}
        s.update(kw)
        return s
    plain = {n: [{'expect': n, 'credit': 1, 'msg': ''}] for n in 'ABCDE'}
    ident = {'A|x': [1, ''], 'B|y': [1, ''], 'C|z': [1, ''], 'D|w': [1, ''], 'E|v': [1, '']}
    tie = {'A|x': [1, ''], 'B|y': [0, ''], 'A|y': [0.5, ''], 'B|x': [0.5, '']}
    ans = lambda names, credit=1, msg='', **kw: dict({'lists': [list(names)], 'credit': credit, 'msg': msg}, **kw)
    out = []
    ins = ['x,y,z', 'z,y,x', 'x,y', 'x', 'x,y,z,w', 'x,q,y,z,q,q,q', 'x,,z', ' x , y,z ', 'q,q,q', '', ' ', 'x,y,z,', 'y,x,z,w,v,u,t']
    for ordered in (False, True):
        for partial in (True, False):
            out.append(flat({'ordered': ordered, 'partial_credit': partial}, [ans('ABC', 1, 'ANS0')], plain, ident, ins))
            out.append(flat({'ordered': ordered, 'partial_credit': partial, 'length_error': True, 'missing_error': False},
                            [ans('ABC', 0.5, 'ANS0')], plain, ident, ins))
    # two optimal assignments, one of which leaves an item without credit (answer-level message rule)
    out.append(flat({}, [ans('AB', 1, 'ANS0')], plain, tie, ['x,y', 'y,x', 'x,x', 'y,y']))
    out.append(flat({'partial_credit': False}, [ans('AB', 1, 'ANS0')], plain, tie, ['x,y', 'y,x']))
    # several alternative lists, answer-level credit, item alternatives
    lv = dict(plain)
    lv['A'] = [{'expect': 'A', 'credit': 1, 'msg': ''}, {'expect': 'A2', 'credit': 0.5, 'msg': 'm:A2'}]
    tb = dict(ident)
    tb['A2|u'] = [1, '']
    out.append(flat({}, [dict(ans('AB', 1, 'ANS0'), lists=[['A', 'B'], ['C', 'D']], tuple=True), ans('EA', 0.5, 'ANS1')], lv, tb,
                    ['x,y', 'z,w', 'x,w', 'v,u', 'u,v', 'u,y', 'x,y,z', 'v']))
    # multi-character and awkward delimiters
    out.append(flat({'delimiter': '--'}, [ans('ABC')], plain, ident, ['x--y--z', 'x---y--z', 'x--y', '--x--y--z', 'x-y--z--w']))
    out.append(flat({'delimiter': 'aa', 'missing_error': False}, [ans('AB')], plain, ident, ['xaay', 'xaaay', 'aaaa', 'xaayaa']))
    out.append(flat({'delimiter': ' '}, [ans('AB')], plain, ident, ['x y', 'x  y', ' x y', 'y x']))
    # string-form and inferred answers
    out.append(flat({}, [], {}, ident, ['x,y,z', 'z,x', 'x, y ,z'], form='string', answers_string='A, B,C'))
    out.append(flat({'ordered': True}, [], {}, ident, ['x,y,z', 'z,x', 'x,y,z,w'], form='infer', answers_string='A,B,C'))
    out.append(flat({}, [], {}, ident, ['x,y'], form='string', answers_string='A,,B'))
    out.append(flat({'missing_error': False}, [], {}, ident, ['x,,y', 'x,y'], form='infer', answers_string='A,,B'))
    # nesting
    cin = {'delimiter': ',', 'ordered': False, 'length_error': False, 'missing_error': True, 'partial_credit': True, 'wrong_msg': ''}
    cout = dict(cin, delimiter=';')
    inner = lambda names, credit=1, msg='': [{'lists': [list(names)], 'credit': credit, 'msg': msg, 'bare': credit == 1 and msg == ''}]
    nest_ins = ['x,y;z,w', 'z,w;x,y', 'y,x;w,z', 'x,z;y,w', 'x,y', 'x,y;z,w;v', 'x,y;z', 'x,y;;z,w', 'x,;z,w', 'x,y;z,w,v']
    for ordered in (False, True):
        for ipartial in (True, False):
            out.append({'nested': True, 'cfg': dict(cout, ordered=ordered), 'inner_cfg': dict(cin, partial_credit=ipartial),
                        'form': 'explicit',
                        'answers': [{'lists': [[inner('AB'), inner('CD', 1, 'IN1')]], 'credit': 1, 'msg': 'ANS0'}],
                        'leaves': plain, 'table': dict(ident, **{'A|z': [0.5, ''], 'B|w': [0.5, '']}), 'inputs': nest_ins,
                        'single': False, 'stream': 'exact'})
    out.append({'nested': True, 'cfg': cout, 'inner_cfg': cin, 'form': 'infer', 'answers': [], 'answers_string': 'A,B;C,D',
                'leaves': {}, 'table': ident, 'inputs': ['x,y;z,w', 'w,z;y,x', 'x,y;z'], 'single': False, 'stream': 'exact'})
    out.append({'nested': True, 'cfg': cout, 'inner_cfg': dict(cin, missing_error=False), 'form': 'string', 'answers': [],
                'answers_string': 'A,B;C,', 'leaves': {}, 'table': ident, 'inputs': ['x,y;z,w'], 'single': False, 'stream': 'exact'})
    # right item count, one item blank or whitespace-only (first / middle / last), under each (length_error, missing_error)
    for le in (False, True):
        for me in (False, True):
            for ordered in (False, True):
                out.append(flat({'length_error': le, 'missing_error': me, 'ordered': ordered}, [ans('ABC', 1, 'ANS0')], plain, ident,
                                blank_family(None, 3, ',', blanks=['', ' ', '\t ']) + ['x,y,z', ' , , ', 'x, ,z,w', ' ']))
            out.append(flat({'length_error': le, 'missing_error': me, 'delimiter': '&&'}, [ans('AB', 1, 'ANS0')], plain, ident,
                            blank_family(None, 2, '&&', blanks=['', ' ']) + ['x&&y', 'x && ', ' && y', 'x&& &&y']))
            out.append(flat({'length_error': le, 'missing_error': me}, [ans('A', 1, 'ANS0')], plain, ident, ['', ' ', 'x', '\t']))
            for ile in (False, True):
                for ime in (False, True):
                    out.append({'nested': True, 'cfg': dict(cout, length_error=le, missing_error=me),
                                'inner_cfg': dict(cin, length_error=ile, missing_error=ime), 'form': 'explicit',
                                'answers': [{'lists': [[inner('AB'), inner('CD')]], 'credit': 1, 'msg': 'ANS0'}],
                                'leaves': plain, 'table': ident,
                                'inputs': ['x,y;z, ', 'x,y; ,w', ' ,y;z,w', 'x,;z,w', 'x,y; ', ' ;z,w', 'x,y;z,w', 'x, y ;z,w,'],
                                'single': False, 'stream': 'exact'})
    return out


# ------------------------------------------------------------------------------------------------
# running one specification
# ------------------------------------------------------------------------------------------------
def witness(spec, inp, what, kind, extra=None):
    blob = json.dumps([spec, inp, kind, extra], sort_keys=True, default=repr)
    w = {'key': 'C07:%s:%s' % (kind, hashlib.sha256(blob.encode()).hexdigest()[:12]), 'kind': kind, 'spec': spec, 'input': inp,
         'what': what}
    if extra:
        w.update(extra)
    return w


def run_spec(spec, rng, res, stats, terms, perm_budget, emit=True):
    from mitxgraders.exceptions import ConfigError
    st, built = core.guarded(build, spec)
    if st != 'ret':
        stats['construction_refused'] += 1
        if spec['form'] == 'string' and isinstance(built, ConfigError) and emit:
            terms.append((config_error_term(spec, built), spec, None))
        elif not (spec['form'] == 'string' and isinstance(built, ConfigError)):
            res.witnesses.append(witness(spec, None, 'the grader cannot be built: %r' % (built,), 'construct'))
        return
    plain = None
    for inp in spec['inputs']:
        st, built = core.guarded(build, spec)
        g, leaf, inner = built
        rec = Recorder([g] + ([inner] if inner else []), leaf)
        st, out = core.guarded(g, *call_args(spec, inp))
        res.oracle_evals += 1
        stats['calls'] += 1
        if st == 'timeout':
            res.witnesses.append(witness(spec, inp, 'the call did not return within 10 s', 'timeout'))
            continue
        stats['ret' if st == 'ret' else 'raised:' + type(out).__name__] += 1
        # ---- property oracle on the implementation
        bad = judge(spec, inp, st, out)
        if bad:
            res.witnesses.append(witness(spec, inp, bad, 'formula'))
        if st == 'ret':
            ident = (json.dumps([spec['cfg'], spec['inner_cfg'], spec.get('answers'), spec.get('answers_string'), spec['table']],
                                sort_keys=True), inp)
            res.nontrivial.add(hashlib.sha256(repr(ident).encode()).hexdigest()[:16])
            stats['grade_%s' % ('0' if out['grade_decimal'] == 0 else '1' if out['grade_decimal'] == 1 else 'partial')] += 1
        # ---- permutation invariance (unordered): fresh, un-instrumented grader
        if st == 'ret' and not spec['cfg']['ordered'] and perm_budget:
            for perm, pinp in permutation_inputs(rng, spec, inp, perm_budget):
                if plain is None or spec['form'] == 'infer':
                    plain = core.guarded(build, spec)[1][0]
                st2, out2 = core.guarded(plain, *call_args(spec, pinp))
                res.oracle_evals += 1
                stats['perm_calls'] += 1
                if st2 != 'ret' or abs(Fraction(out2['grade_decimal']) - Fraction(out['grade_decimal'])) > TOL:
                    res.witnesses.append(witness(spec, inp, 'unordered list: %r scores %r but its permutation %r gives %r'
                                                 % (inp, out['grade_decimal'], pinp, out2 if st2 != 'ret' else out2['grade_decimal']),
                                                 'permutation', {'permuted': pinp}))
        # ---- correspondence terms
        if not emit:
            continue
        frames_exact, tie_risk = True, False
        for fr in rec.frames:
            try:
                t, exact, scale_ok = frame_term(fr)
            except Exception as e:      # noqa - foreign objects in recorded answers must not stop the run
                res.corr_errors.append(('c07-frame', '%s: %s' % (type(e).__name__, e)))
                continue
            frames_exact = frames_exact and exact
            gs = sorted(Fraction(x['res']['grade']) for x in fr['trace'] if 'res' in x)
            tie_risk = tie_risk or any(0 < b - a < TOL for a, b in zip(gs, gs[1:]))
            if not scale_ok:
                stats['frames_skipped_scale'] += 1
                continue
            stats['frames_exact' if exact else 'frames_rounded'] += 1
            stats['frames_depth_%d' % fr['depth']] += 1
            terms.append((t, spec, inp))
        if spec['form'] == 'infer' and st == 'exc' and isinstance(out, ConfigError) and not rec.frames:
            terms.append((config_error_term(spec, out), spec, inp))
            continue
        try:
            t, exact = top_term(spec, g, rec, inp, st, out, frames_exact, tie_risk)
        except Exception as e:      # noqa
            res.corr_errors.append(('c07-top', '%s: %s' % (type(e).__name__, e)))
            continue
        if t:
            stats['top_exact' if exact else 'top_rounded'] += 1
            terms.append((t, spec, inp))
        else:
            stats['top_skipped_rounded_nested'] += 1


def exhaustive_small(res, stats):
    """thorough tier: every credit matrix over {0, 1/2, 1} for up to 2x3 / 3x2 items and over {0, 1} for 3x3, ordered and
    unordered, partial_credit on and off; judged by the property oracle (no Coq terms: volume)"""
    names, items = ['A', 'B', 'C'], ['x', 'y', 'z']
    plain = {n: [{'expect': n, 'credit': 1, 'msg': ''}] for n in names}
    for ne in (1, 2, 3):
        for ns in (1, 2, 3):
            palette = [0, 0.5, 1] if ne * ns <= 6 else [0, 1]
            for cells in itertools.product(palette, repeat=ne * ns):
                table = {}
                for i in range(ns):
                    for j in range(ne):
                        if cells[i * ne + j]:
                            table['%s|%s' % (names[j], items[i])] = [cells[i * ne + j], '']
                for ordered in (False, True):
                    for partial in (True, False):
                        spec = {'nested': False, 'inner_cfg': None, 'form': 'explicit', 'leaves': plain, 'table': table, 'single': False,
                                'stream': 'exact', 'inputs': [','.join(items[:ns])],
                                'cfg': {'delimiter': ',', 'ordered': ordered, 'length_error': False, 'missing_error': True,
                                        'partial_credit': partial, 'wrong_msg': ''},
                                'answers': [{'lists': [names[:ne]], 'credit': 1, 'msg': 'ANS0'}]}
                        st, built = core.guarded(build, spec)
                        if st != 'ret':
                            res.witnesses.append(witness(spec, None, 'the grader cannot be built: %r' % (built,), 'construct'))
                            continue
                        st, out = core.guarded(built[0], None, spec['inputs'][0])
                        res.oracle_evals += 1
                        stats['exhaustive_small'] += 1
                        bad = judge(spec, spec['inputs'][0], st, out)
                        if bad:
                            res.witnesses.append(witness(spec, spec['inputs'][0], bad, 'formula'))


# ------------------------------------------------------------------------------------------------
# one grader OBJECT reused over a sequence of submissions (over-long ones followed by exact ones, errors in between):
# every call is judged by the formula, and the configured answers must be left exactly as they were
# ------------------------------------------------------------------------------------------------
def config_snapshot(obj):
    """a comparable deep image of config['answers']; foreign objects show up by their type name"""
    if isinstance(obj, dict):
        return ['dict'] + [[repr(k), config_snapshot(v)] for k, v in sorted(obj.items(), key=lambda kv: repr(kv[0]))]
    if isinstance(obj, (list, tuple)):
        return [type(obj).__name__] + [config_snapshot(x) for x in obj]
    if isinstance(obj, (str, int, float, bool)) or obj is None:
        return repr(obj)
    return '<%s>' % type(obj).__name__


def reuse_sequence(rng, spec):
    d = spec['cfg']['delimiter']
    seq = []
    inputs = list(spec['inputs'])
    rng.shuffle(inputs)
    for inp in inputs[:4]:
        items = my_split(inp, d)
        extra = [rng.choice(items) if items and rng.random() < 0.5 else rng.choice(ITEM_NAMES) for _ in range(rng.randint(1, 3))]
        longer = d.join(items + extra)
        seq += [longer, inp] if rng.random() < 0.7 else [inp, longer, inp]
    return seq


def run_reuse(spec, seq):
    """returns [(outcome, judgement or None, config changed?)] for the calls of seq on ONE grader object"""
    st, built = core.guarded(build, spec)
    if st != 'ret':
        return None
    g = built[0]
    out = []
    for inp in seq:
        before = config_snapshot(g.config['answers'])
        st, r = core.guarded(g, *call_args(spec, inp))
        after = config_snapshot(g.config['answers'])
        changed = spec['form'] != 'infer' and before != after
        out.append((canon_outcome(st, r), judge(spec, inp, st, r), changed))
    return out


def reuse_pass(spec, rng, res, stats):
    seq = reuse_sequence(rng, spec)
    results = run_reuse(spec, seq)
    if results is None:
        return
    first_change = next((k for k, r in enumerate(results) if r[2]), None)
    if first_change is not None and not any(r[1] for r in results):
        # the configured answers were modified: grade every submission of the case once more on the same object
        seq = seq + list(spec['inputs'])
        results = run_reuse(spec, seq)
    res.oracle_evals += len(results)
    stats['reuse_calls'] += len(results)
    for k, (outcome, bad, changed) in enumerate(results):
        if bad:
            note = ''
            if first_change is not None and first_change < k:
                note = ' [the call on %r had modified config[\'answers\']]' % (seq[first_change],)
            res.witnesses.append(witness(spec, seq[k], 'call %d on the same grader object (earlier submissions: %r)%s: %s'
                                         % (k + 1, seq[:k], note, bad), 'reuse', {'calls': seq[:k + 1]}))
            return
    if first_change is not None:
        stats['reuse_config_modified_without_misgrading'] += 1
        res.notes.append('config[\'answers\'] modified by the call on %r without any later misgrading observed' % (seq[first_change],))


# ------------------------------------------------------------------------------------------------
# inferred-expect history stream (perturb-then-probe): several graders WITHOUT configured answers that differ in
# delimiter / ordered / nesting / options / subgrader table are called in varying order with the same expect strings;
# every call is judged by the formula computed from THAT grader's own configuration, and a sample of the calls is
# repeated in a fresh interpreter
# ------------------------------------------------------------------------------------------------
HIST_DELIMS = [',', ';', '/', '--']


def hist_leaves(g, expect):
    """the leaf expect strings of `expect` under grader g's own delimiters, as nested lists"""
    parts = my_split(expect, g['cfg']['delimiter'])
    if g['nested']:
        return [my_split(p, g['inner_cfg']['delimiter']) for p in parts]
    return parts


def gen_world(rng):
    names = rng.sample(LEAF_NAMES, 4)
    expects = []
    for _ in range(rng.randint(3, 4)):
        d1, d2 = rng.sample(HIST_DELIMS, 2)
        parts = [d2.join(rng.choice(names) for _ in range(rng.choice([1, 2, 2, 3]))) for _ in range(rng.choice([2, 2, 3]))]
        expects.append(d1.join(parts))
    expects.append(rng.choice(HIST_DELIMS).join(rng.sample(names, 2)))
    used = sorted({d for e in expects for d in HIST_DELIMS if d in e}) or [',']
    graders = []

    def opts(d):
        c = gen_cfg(rng, d)
        c['length_error'] = rng.random() < 0.25
        c['wrong_msg'] = ''
        return c
    for d in used:
        for ordered in rng.sample([False, True], rng.choice([1, 2])):
            graders.append({'nested': False, 'cfg': dict(opts(d), ordered=ordered), 'inner_cfg': None, 'tbl': rng.randrange(2)})
    pairs = [(a, b) for a in used for b in used if a != b]
    for do, di in rng.sample(pairs, min(len(pairs), rng.choice([2, 3]))):
        graders.append({'nested': True, 'cfg': opts(do), 'inner_cfg': opts(di), 'tbl': rng.randrange(2)})
    other = [d for d in HIST_DELIMS if d not in used]
    if other:
        graders.append({'nested': False, 'cfg': opts(other[0]), 'inner_cfg': None, 'tbl': 0})
    # two subgrader tables over every leaf string any grader can infer from any expect
    leaves = set()
    for g in graders:
        for e in expects:
            for x in hist_leaves(g, e):
                leaves.update(x if isinstance(x, list) else [x])
    fav = {}
    tables = [{}, {}]
    for L in sorted(leaves):
        fav[L] = rng.choice(ITEM_NAMES)
        tables[0][L.strip() + '|' + fav[L]] = [1, '']
        tables[1][L.strip() + '|' + fav[L]] = [rng.choice([1, 0.5]), '']
        for it in rng.sample(ITEM_NAMES, 2):
            if it != fav[L]:
                tables[rng.randrange(2)][L.strip() + '|' + it] = [rng.choice([0.5, 0.25]), '']
    return {'graders': graders, 'expects': expects, 'tables': tables, 'fav': fav}


def hist_spec(world, gi, expect):
    g = world['graders'][gi]
    return {'nested': g['nested'], 'cfg': g['cfg'], 'inner_cfg': g['inner_cfg'], 'form': 'infer', 'answers_string': expect,
            'answers': [], 'leaves': {}, 'table': world['tables'][g['tbl']], 'single': False, 'stream': 'exact'}


def hist_input(rng, world, gi, expect):
    g = world['graders'][gi]
    fav = world['fav']
    tree = hist_leaves(g, expect)

    def vary(items):
        items = list(items)
        r = rng.random()
        if r < 0.3 and len(items) > 1:
            rng.shuffle(items)
        elif r < 0.45:
            items[rng.randrange(len(items))] = rng.choice(ITEM_NAMES)
        elif r < 0.55 and len(items) > 1:
            items.pop(rng.randrange(len(items)))
        elif r < 0.62:
            items.append(rng.choice(ITEM_NAMES))
        elif r < 0.67:
            items[rng.randrange(len(items))] = rng.choice(['', ' '])
        return items
    if g['nested']:
        outer = [g['inner_cfg']['delimiter'].join(vary([fav[L] for L in inner])) for inner in tree]
        if rng.random() < 0.3 and len(outer) > 1:
            rng.shuffle(outer)
        return g['cfg']['delimiter'].join(outer)
    return g['cfg']['delimiter'].join(vary([fav[L] for L in tree]))


def canon_outcome(st, out):
    if st == 'ret':
        return ['ret', repr(out.get('grade_decimal')), repr(out.get('ok')), out.get('msg')]
    return [st, type(out).__name__, str(out)]


def run_history(world, calls, judge_each=True):
    """calls: [(grader index, expect, input, fresh instance?)]; returns [(outcome, judgement)] in call order"""
    inst = {}
    results = []
    for gi, expect, inp, fresh in calls:
        if gi < 0:                      # a perturber of another class of the family, called with the same expect
            from mitxgraders import StringGrader
            core.guarded(StringGrader() if gi == -1 else table_grader_class()(table=dict(world['tables'][0])), expect, inp)
            results.append((None, None))
            continue
        spec = hist_spec(world, gi, expect)
        if fresh or gi not in inst:
            st, built = core.guarded(build, dict(spec, answers_string=''))
            if st != 'ret':
                results.append((canon_outcome(st, built), 'the grader cannot be built: %r' % (built,)))
                continue
            g = built[0]
            if not fresh:
                inst[gi] = g
        else:
            g = inst[gi]
        st, out = core.guarded(g, expect, inp)
        results.append((canon_outcome(st, out), judge(spec, inp, st, out) if judge_each else None))
    return results


def probe_main():
    """entry point of the fresh interpreter: stdin = JSON [(world, call)], stdout = JSON outcomes of each single call"""
    import sys
    data = json.load(sys.stdin)
    out = []
    for world, call in data:
        out.append(run_history(world, [tuple(call)], judge_each=False)[0][0])
    json.dump(out, sys.stdout)


def fresh_outcomes(probes):
    import os
    import subprocess
    env = dict(os.environ, PYTHONPATH='%s:%s' % (core.REPO, core.VERIF), PYTHONHASHSEED='0')
    p = subprocess.run([sys_executable(), '-B', '-c', 'from harness.props import c07; c07.probe_main()'],
                       input=json.dumps(probes), stdout=subprocess.PIPE, stderr=subprocess.PIPE, text=True, env=env, timeout=300)
    if p.returncode != 0:
        raise RuntimeError('fresh interpreter failed: ' + p.stderr[-500:])
    return json.loads(p.stdout)


def sys_executable():
    import sys
    return sys.executable


def history_stream(rng, res, stats, n_worlds, n_calls, n_probes):
    probes, probe_meta = [], []
    for _ in range(n_worlds):
        world = gen_world(rng)
        calls = []
        # every expect goes to several different graders in varying order, interleaved with perturbers
        for _ in range(n_calls):
            expect = rng.choice(world['expects'])
            r = rng.random()
            if r < 0.06:
                calls.append((-1 if rng.random() < 0.5 else -2, expect, rng.choice(ITEM_NAMES), False))
                continue
            gi = rng.randrange(len(world['graders']))
            calls.append((gi, expect, hist_input(rng, world, gi, expect), rng.random() < 0.2))
        results = run_history(world, calls)
        stats['history_calls'] += len(calls)
        res.oracle_evals += len(calls)
        for k, ((outcome, bad), call) in enumerate(zip(results, calls)):
            if bad:
                res.witnesses.append({'key': 'C07:history:%s' % hashlib.sha256(json.dumps([world, calls[:k + 1]], sort_keys=True).encode()).hexdigest()[:12],
                                      'kind': 'history', 'world': world, 'calls': [list(c) for c in calls[:k + 1]],
                                      'spec': hist_spec(world, call[0], call[1]), 'input': call[2],
                                      'what': ('after %d earlier calls on graders without configured answers (same expect strings, other '
                                               'delimiters / nesting / options), expect %r: %s' % (k, call[1], bad))})
                stats['history_witnesses'] += 1
                break
        idx = [k for k, c in enumerate(calls) if c[0] >= 0]
        for k in rng.sample(idx, min(n_probes, len(idx))):
            probes.append((world, list(calls[k])))
            probe_meta.append((world, calls, k, results[k][0]))
    if not probes:
        return
    try:
        fresh = fresh_outcomes(probes)
    except Exception as e:      # noqa
        res.corr_errors.append(('c07-fresh-interpreter', str(e)))
        return
    stats['history_fresh_probes'] += len(fresh)
    for (world, calls, k, seen), want in zip(probe_meta, fresh):
        if seen != want:
            res.witnesses.append({'key': 'C07:history-fresh:%s' % hashlib.sha256(json.dumps([world, calls[:k + 1]], sort_keys=True).encode()).hexdigest()[:12],
                                  'kind': 'history-fresh', 'world': world, 'calls': [list(c) for c in calls[:k + 1]],
                                  'spec': hist_spec(world, calls[k][0], calls[k][1]), 'input': calls[k][2], 'fresh': want,
                                  'what': ('call %r with expect %r returned %r after %d earlier calls, but %r in a fresh interpreter'
                                           % (calls[k][2], calls[k][1], seen, k, want))})


def split_terms(rng, n):
    out = []
    alphabet = 'ab-, x'
    for d, s in [('aa', 'aaaa'), ('aa', 'aaa'), ('--', 'a---b'), (',', ''), (',', ','), ('ab', 'abab'), ('aba', 'ababa'), (', ', 'a, b,c , d')]:
        out.append('CSplit %s %s %s' % (strlit(d), strlit(s), listlit([strlit(x) for x in s.split(d)])))
    for _ in range(n):
        d = ''.join(rng.choice(alphabet) for _ in range(rng.choice([1, 1, 2, 2, 3])))
        s = ''.join(rng.choice(alphabet) for _ in range(rng.randint(0, 14)))
        out.append('CSplit %s %s %s' % (strlit(d), strlit(s), listlit([strlit(x) for x in s.split(d)])))
    return out


WS_LIMIT = 12289      # Proofs/SingleList.v, is_space_bounded: the model's table is empty from here on


def whitespace_term():
    """every code point str.strip() removes, as ranges; those below WS_LIMIT are compared with the model inside Coq,
    and Python must have none at or above it (the model provably has none)"""
    ranges, start = [], None
    for c in range(0x110000 + 1):
        sp = c < 0x110000 and chr(c).strip() == ''
        if sp and start is None:
            start = c
        if not sp and start is not None:
            ranges.append((start, c - 1))
            start = None
    if any(b >= WS_LIMIT for _, b in ranges):
        ranges.append((-5, -5))          # makes the case fail: Python strips a character the model cannot know
    return 'CWs %s' % listlit(['(%s, %s)' % (zlit(a), zlit(b)) for a, b in ranges])


def new_stats():
    import collections
    return collections.defaultdict(int)


def run(ctx):
    res = core.Result()
    seed = ctx['seed']
    rng = random.Random(1000003 * seed + 7)
    thorough = ctx['tier'] == 'thorough'
    res.rule = ('one case = (configuration [delimiter, ordered, partial_credit, length_error, missing_error, wrong_msg; nested: the same '
                'for the inner grader], answers [1-3 answers x 1-2 lists of 1-5 items with item alternatives, credits and messages | '
                'string-form | inferred from expect], credit table, submission of 1-7 items); non-trivial = distinct '
                '(configuration, answers, table, submission) on which a grade was returned')
    stats = new_stats()
    plan = [('flat', 'exact', 90), ('flat', 'rounded', 24), ('nested', 'exact', 30), ('nested', 'rounded', 10)]
    perm_budget = 5
    if ctx['escalate'] and not thorough:
        plan = [(k, s, int(n * 1.4)) for k, s, n in plan]
    if thorough:
        plan = [('flat', 'exact', 1800), ('flat', 'rounded', 450), ('nested', 'exact', 550), ('nested', 'rounded', 150)]
        perm_budget = 23
    terms = []
    specs = [(s, True) for s in corpus()]
    for kind, stream, n in plan:
        for _ in range(n):
            specs.append(((gen_flat if kind == 'flat' else gen_nested)(rng, stream), False))
    for spec, is_corpus in specs:
        stats['specs_%s_%s' % ('nested' if spec['nested'] else 'flat', spec.get('stream', 'exact'))] += 1
        stats['form_' + spec['form']] += 1
        try:
            run_spec(spec, rng, res, stats, terms, perm_budget if not is_corpus else 23)
        except Exception as e:      # noqa - a crash on one case is reported, the other cases and the oracles still run
            import traceback
            res.corr_errors.append(('c07-case', traceback.format_exc()[-1500:]))
        try:
            reuse_pass(spec, rng, res, stats)
        except Exception as e:      # noqa
            import traceback
            res.corr_errors.append(('c07-reuse', traceback.format_exc()[-1500:]))
    if thorough:
        exhaustive_small(res, stats)
    history_stream(rng, res, stats, n_worlds=4 if not thorough else 60, n_calls=45, n_probes=8)
    # identical terms (the same inner check on the same item, repeated across alternatives) are evaluated once
    seen, uniq = set(), []
    for t, sp, inp in terms:
        if t not in seen:
            seen.add(t)
            uniq.append((t, sp, inp))
    stats['terms_total'], stats['terms_distinct'] = len(terms), len(uniq)
    extra = split_terms(rng, 300 if not thorough else 3000) + [whitespace_term()]
    coq_terms = [t for t, _, _ in uniq] + extra
    metas = [(s, i) for _, s, i in uniq] + [(None, None)] * len(extra)
    res.distribution = dict(sorted(stats.items()))
    res.distribution['coq_cases'] = len(coq_terms)
    if coq_terms:
        res.samples.append({'coq_case': coq_terms[len(coq_terms) // 3][:1500]})
    if specs:
        s0 = specs[0][0]
        res.samples.append({'case': {'cfg': s0['cfg'], 'answers': s0['answers'], 'table': s0['table'], 'inputs': s0['inputs'][:4]}})
    n, failing, n_boundary, errors = evaluate(coq_terms)
    res.programs += n
    res.corr_errors += errors
    res.boundary += n_boundary
    for i in failing:
        spec, inp = metas[i]
        res.disagreements.append({'kind': 'correspondence', 'input': inp, 'spec': spec, 'term': coq_terms[i][:3000]})
    return res


def evaluate(case_terms):
    """agree / boundary for every case, decided inside Coq; returns (n, failing indices, #boundary-guarded, errors)"""
    shard = min(400, max(40, -(-len(case_terms) // 16)))
    files = []
    for k in range(0, len(case_terms), shard):
        chunk = case_terms[k:k + shard]
        text = (HEADER + 'Definition verif_cases : list case :=\n  [ %s ].\n' % '\n  ; '.join(chunk) +
                'Fixpoint verif_failing {A} (f : A -> bool) (l : list A) (i : nat) : list nat :=\n'
                '  match l with nil => nil | x :: r => if f x then verif_failing f r (S i) else i :: verif_failing f r (S i) end.\n'
                'Eval vm_compute in (verif_failing agree verif_cases 0).\n'
                'Eval vm_compute in (verif_failing (fun c => negb (boundary c)) verif_cases 0).\n')
        files.append(('c07_%04d' % (k // shard), text))
    out = core.run_case_files(files)
    failing, errors, n_boundary = [], [], 0
    for (name, rc, text), k in zip(out, range(0, len(case_terms), shard)):
        lists = re.findall(r'=\s*(\[.*?\]|nil)\s*:\s*list\s+nat', text, re.S) if rc == 0 else []
        if len(lists) != 2:
            errors.append((name, text[-2000:]))
            continue
        failing += [k + int(x) for x in re.findall(r'\d+', lists[0].replace('%nat', ''))]
        n_boundary += len(re.findall(r'\d+', lists[1].replace('%nat', '')))
    return len(case_terms), failing, n_boundary, errors


# ------------------------------------------------------------------------------------------------
def replay(w):
    if w.get('kind') in ('history', 'history-fresh'):
        calls = [tuple(c) for c in w['calls']]
        results = run_history(w['world'], calls)
        outcome, bad = results[-1]
        desc = ('%d calls on %d graders without configured answers; last: expect %r, input %r -> %r'
                % (len(calls), len(w['world']['graders']), calls[-1][1], calls[-1][2], outcome))
        if w['kind'] == 'history':
            return bad is not None, desc + ': ' + (bad or 'satisfies the property')
        want = fresh_outcomes([(w['world'], list(calls[-1]))])[0]
        return outcome != want, desc + '; fresh interpreter: %r' % (want,)
    spec, inp = w.get('spec'), w.get('input')
    if spec is None:
        return False, 'witness carries no case'
    if w.get('kind') == 'reuse':
        results = run_reuse(spec, w['calls'])
        if results is None:
            return False, 'the grader cannot be built'
        outcome, bad, changed = results[-1]
        desc = 'one SingleListGrader object, submissions %r in this order; last -> %r' % (w['calls'], outcome)
        return bool(bad), desc + ': ' + (bad or 'satisfies the property') + ('; config[\'answers\'] was modified by the last call' if changed else '')
    st, built = core.guarded(build, spec)
    if st != 'ret':
        return w.get('kind') == 'construct', 'construction: %r' % (built,)
    if inp is None:
        return False, 'the grader can be built on the current tree'
    g = built[0]
    st, out = core.guarded(g, *call_args(spec, inp))
    desc = 'SingleListGrader(%r%s, answers=%r) on %r -> %r' % (
        spec['cfg'], (', inner=%r' % (spec['inner_cfg'],)) if spec['nested'] else '',
        spec.get('answers_string') if spec['form'] in ('string', 'infer') else spec['answers'], inp, out)
    if w.get('kind') == 'permutation':
        st2, out2 = core.guarded(core.guarded(build, spec)[1][0], *call_args(spec, w['permuted']))
        bad = st != 'ret' or st2 != 'ret' or abs(Fraction(out2['grade_decimal']) - Fraction(out['grade_decimal'])) > TOL
        return bad, desc + '; permuted %r -> %r' % (w['permuted'], out2)
    bad = judge(spec, inp, st, out)
    return bad is not None, desc + ': ' + (bad or 'satisfies the property')


LEVEL_TEXT = ('Theorems for an arbitrary subgrader (item credits are an oracle), expected lists and submissions of ANY length and any '
              'non-empty delimiter: the grade is the answer\'s credit times max(0, (best - surplus)/n_expect) with best the positional '
              'sum (ordered) or the maximum total over ALL one-to-one assignments of items to answers (unordered; the solver hypothesis is '
              'discharged by C06\'s theorem for the model\'s integer-scaled solver), missing items counting zero; '
              'partial_credit=False zeroes anything short of full credit; the answer-level message appears exactly when every padded '
              'pair earned credit (recursively for one level of nesting), which forces equal counts; the unordered grade is invariant '
              'under every permutation of the submitted items; length and blank-item errors are raised exactly when enabled and '
              'applicable, length first, and otherwise the model always returns a grade (no bound on list lengths or credits); across alternative '
              'lists the best-scoring one is reported. split is proved to invert join. '
              'The model is tied to listgrader.py by a regenerating translator for the straight-line helpers and by trace-level '
              'differential correspondence for the rest.')
LEVEL_NOTE = ('Exact rational arithmetic; the model always returns a grade when no input error is due (proved, no bound on list lengths or '
              'credits); no axioms, no solver assumption; the float run of the implementation is tied to the exact model by correspondence '
              '(grades within 1e-12, decision boundaries guard-banded); trusted: Coq kernel, translate/singlelist.py, harness/props/c07.py.')
TECHNIQUE = ('Coq proof (lists, NoDup/Permutation, Q arithmetic; matching-extension and scaling arguments on top of the Munkres '
             'statement) + source-to-Gallina translator + vm_compute trace correspondence')
DESIGN_REF = 'DESIGN.md section 3, C07'
