"""C06 -- the assignment solver (mitxgraders/helpers/munkres.py).  Tie B: trace-level correspondence."""
import copy
import itertools
import random
from fractions import Fraction

from harness import core
from harness.core import zlit, listlit, natlit

ID = 'C06'
PROPS = 'Props/C06.v'
MIRRORED = [('mitxgraders/helpers/munkres.py', 'Munkres')]
REFUTED = []
TRUSTED = [
    'hand-written model coq/Model/Munkres.v tied to munkres.py by trace-level correspondence (result, sequence of steps, final reduced '
    'matrix and final marks) decided inside Coq by vm_compute; harness/props/c06.py wraps the six private steps at run time',
    'PrimFloat instance (Coq primitive floats = IEEE binary64, as the kernel implements them) for bit-exact replay of float runs; '
    'float optimality "up to rounding" is checked by the exact oracle, it is not a theorem',
    'modelled, not verified: Python list aliasing (caller\'s matrix untouched is checked by the harness), sys.maxsize as 2^63 in the float instance',
]
ASSUMPTIONS = ['costs are finite numbers (no DISALLOWED entries, no NaN), matrix rectangular with r, c >= 1']

HEADER = '''From Coq Require Import ZArith List Bool Arith PrimFloat.
From Verif.Model Require Import Munkres MunkresFloat MunkresAgree.
Import ListNotations.
'''


# ------------------------------------------------------------------------------------------------
def run_impl(solver, M):
    """returns (status, result, trace, final C, final marks, input unmodified?)"""
    from mitxgraders.helpers import munkres as mk
    trace = []
    orig = {}
    for k in range(1, 7):
        name = '_Munkres__step%d' % k
        orig[k] = getattr(mk.Munkres, name)

        def wrap(self, k=k):
            trace.append(k)
            return orig[k](self)
        setattr(solver, name, wrap.__get__(solver, type(solver)))
    before = copy.deepcopy(M)
    st, out = core.guarded(solver.compute, M, seconds=10)
    for k in range(1, 7):
        try:
            delattr(solver, '_Munkres__step%d' % k)
        except AttributeError:
            pass
    same = (M == before) and all(type(a) is type(b) for ra, rb in zip(M, before) for a, b in zip(ra, rb))
    if st != 'ret':
        return st, out, trace, None, None, same

    def grid(m):
        # the final working state as the instance exposes it; anything else (None, other types) counts as "not available"
        try:
            return [[x for x in row] for row in m]
        except TypeError:
            return []
    return st, out, trace, grid(getattr(solver, 'C', None)), grid(getattr(solver, 'marked', None)), same


def optimum(M):
    """exact minimum cost of a matching of size min(r, c): DP over column subsets, Fractions"""
    r, c = len(M), len(M[0])
    A = [[Fraction(x) for x in row] for row in M]
    if r > c:
        A = [list(col) for col in zip(*A)]
        r, c = c, r
    best = {0: Fraction(0)}
    for i in range(r):
        nxt = {}
        for mask, v in best.items():
            for j in range(c):
                if not mask & (1 << j):
                    m2 = mask | (1 << j)
                    w = v + A[i][j]
                    if m2 not in nxt or w < nxt[m2]:
                        nxt[m2] = w
        best = nxt
    return min(best.values())


def oracle(M, out):
    r, c = len(M), len(M[0])
    if not isinstance(out, list) or len(out) != min(r, c):
        return 'returned %r: not min(rows, columns) = %d pairs' % (out, min(r, c))
    rows = [p[0] for p in out]
    cols = [p[1] for p in out]
    if len(set(rows)) != len(rows) or len(set(cols)) != len(cols):
        return 'a row or column is used twice: %r' % (out,)
    if any(not (0 <= i < r and 0 <= j < c) for i, j in out):
        return 'index out of range: %r' % (out,)
    total = sum(Fraction(M[i][j]) for i, j in out)
    opt = optimum(M)
    isfloat = any(isinstance(x, float) for row in M for x in row)
    scale = max([abs(Fraction(x)) for row in M for x in row] + [Fraction(1)])
    tol = Fraction(1, 10**9) * scale * max(r, c) if isfloat else 0
    if total - opt > tol:
        return 'total cost %s exceeds the optimum %s' % (float(total), float(opt))
    return None


# ------------------------------------------------------------------------------------------------
PALETTE = [0.1, 1.0 / 3, 0.7, 0.5, 0.25, 1.0, 0.0, 0.9, 2.0 / 3, 0.2]


def gen_matrix(rng, maxn):
    r = rng.randint(1, maxn)
    c = r if rng.random() < 0.5 else rng.randint(1, maxn)
    kind = rng.choice(['tie', 'small', 'int', 'big', 'grade', 'grade', 'ufloat', 'dyadic', 'huge'])
    if kind == 'tie':
        f = lambda: rng.randint(0, 2)
    elif kind == 'small':
        f = lambda: rng.randint(0, 9)
    elif kind == 'int':
        f = lambda: rng.randint(0, 100)
    elif kind == 'big':
        f = lambda: rng.randint(0, 10**12)
    elif kind == 'huge':
        # costs far beyond sys.maxsize (finite, non-negative): integers up to 10^40 or floats up to 1e300
        if rng.random() < 0.5:
            e = rng.randint(19, 40)
            f = lambda: rng.randint(0, 9) * 10 ** e + rng.randint(0, 5)
        else:
            e = rng.choice([19, 22, 30, 100, 300])
            f = lambda: float(rng.randint(0, 9)) * 10.0 ** e
    elif kind == 'grade':
        f = lambda: 1 - rng.choice(PALETTE)
    elif kind == 'ufloat':
        f = lambda: rng.random()
    else:
        f = lambda: rng.randint(0, 16) / 8.0
    return kind, [[f() for _ in range(c)] for _ in range(r)]


def structured_matrices(maxn):
    """Monge-like families on which the solver needs (close to) its largest number of steps: rank-one products,
    grade-like complements of products, squares of index sums, strictly ordered rows - square, tall and wide."""
    out = []
    fams = [lambda i, j, n: (i + 1) * (j + 1),
            lambda i, j, n: float((i + 1) * (j + 1)),
            lambda i, j, n: 1 - (n - i) * (n - j) / float(n * n),
            lambda i, j, n: (i + j) ** 2,
            lambda i, j, n: (n - i) * (n - j),
            lambda i, j, n: i * n + j]
    for n in range(2, maxn + 1):
        for f in fams:
            for r, c in ((n, n), (n, n - 1), (n - 1, n)):
                out.append([[f(i, j, n) for j in range(c)] for i in range(r)])
    return out


def exhaustive_scopes(tier):
    out = []
    shapes = [(1, 1), (1, 2), (2, 1), (2, 2), (1, 3), (3, 1), (2, 3), (3, 2)]
    if tier == 'thorough':
        shapes.append((3, 3))
    for r, c in shapes:
        for vals in itertools.product([0, 1, 2], repeat=r * c):
            out.append([list(vals[i * c:(i + 1) * c]) for i in range(r)])
    if tier == 'thorough':
        for vals in itertools.product([0, 1], repeat=16):
            out.append([list(vals[i * 4:(i + 1) * 4]) for i in range(4)])
    return out


def is_float_matrix(M):
    return any(isinstance(x, float) for row in M for x in row)


def flit(x):
    x = float(x)
    if x == 0:
        return '0x0p+0%float'
    h = x.hex()            # e.g. 0x1.8000000000000p+1
    return ('(%s)%%float' % h) if h.startswith('-') else h + '%float'


def mat_term(M, lit):
    return listlit([listlit([lit(x) for x in row]) for row in M])


def case_term(M, st, out, trace, C, marks):
    isf = is_float_matrix(M)
    lit = flit if isf else zlit
    ctor = 'CaseF' if isf else 'CaseZ'
    if st != 'ret' or not isinstance(out, list) or any(not (isinstance(p, tuple) and len(p) == 2) for p in out):
        obs = 'None'
    else:
        obs = '(Some (%s, %s, %s, %s))' % (
            listlit(['(%s, %s)' % (natlit(i), natlit(j)) for i, j in out]),
            listlit([natlit(k) for k in trace]),
            mat_term(C, lit),
            listlit([listlit([natlit(v if isinstance(v, int) and 0 <= v < 1000 else 999) for v in row]) for row in marks]))
    return '(%s %s %s)' % (ctor, mat_term(M, lit), obs)


def run(ctx):
    from mitxgraders.helpers.munkres import Munkres
    res = core.Result()
    tier = ctx['tier']
    rng = random.Random(7919 * ctx['seed'] + 6)
    maxn = 8 if tier == 'quick' else 10
    n_random = 3000 if tier == 'quick' else 60000
    if ctx['escalate'] and tier == 'quick':
        n_random = 12000
    mats = [('exhaustive', M) for M in exhaustive_scopes(tier)]
    n_exh = len(mats)
    corpus = [[[4, 1, 3], [2, 0, 5], [3, 2, 2]], [[0.9, 0.30000000000000004, 0.7], [0.5, 0.9, 1.0]],
              [[1, 1], [1, 1], [0, 1]], [[5]], [[0.0, 1 - 1.0 / 3], [1 - 0.7, 0.0], [0.5, 0.5]],
              [[10**15, 1], [1, 10**15]], [[0.1 + 0.2, 0.3], [0.3, 0.1 + 0.2]],
              [[10**30, 2 * 10**30], [3 * 10**30, 5 * 10**30]], [[1e30, 2e30], [3e30, 5e30]], [[1e300, 0.0], [5e299, 1e300]]]
    mats += [('corpus', M) for M in corpus]
    mats += [('structured', M) for M in structured_matrices(10)]
    for _ in range(n_random):
        mats.append(gen_matrix(rng, maxn))
    solver = Munkres()
    terms, metas = [], []
    kinds = {}
    sizes = {}
    for idx, (kind, M) in enumerate(mats):
        if rng.random() < 0.02:
            solver = Munkres()          # mostly one instance reused across shapes; sometimes a fresh one
        st, out, trace, C, marks, same = run_impl(solver, M)
        res.oracle_evals += 1
        what = None
        if st == 'timeout':
            what = 'compute did not terminate within 10 s'
        elif st == 'exc':
            what = 'compute raised %r' % (out,)
        else:
            what = oracle(M, out)
        if what is None and not same:
            what = "the caller's matrix was modified"
        if what:
            res.witnesses.append({'key': 'matrix:%r' % (M,), 'kind': 'matrix', 'matrix': M, 'what': what})
        terms.append(case_term(M, st, out, trace, C, marks))
        metas.append(M)
        kinds[kind] = kinds.get(kind, 0) + 1
        sz = '%dx%d' % (len(M), len(M[0]))
        sizes[sz] = sizes.get(sz, 0) + 1
        if len(M) > 1 and len(M[0]) > 1:
            res.nontrivial.add(repr(M))
    # a fresh solver must give the same answer as the reused one (history independence, impl level)
    for M in [m for _, m in mats[n_exh:n_exh + 300]]:
        a = core.guarded(Munkres().compute, copy.deepcopy(M))
        b = core.guarded(solver.compute, copy.deepcopy(M))
        res.oracle_evals += 1
        if a != b and a[0] == 'ret':
            res.witnesses.append({'key': 'reuse:%r' % (M,), 'kind': 'reuse', 'matrix': M,
                                  'what': 'reused solver returned %r, fresh solver %r' % (b[1], a[1])})
    res.rule = ('matrices: exhaustive small scopes over {0,1,2} (quick: up to 2x3/3x2; thorough: all r,c<=3 and all 4x4 over {0,1}), '
                'a corpus, and random integer / tie-heavy / grade-like (1-g) / uniform-float / dyadic matrices up to %dx%d, solved on a reused '
                'solver instance; non-trivial = at least 2 rows and 2 columns, distinct by content' % (maxn, maxn))
    res.samples = [{'matrix': m} for m in (metas[n_exh], metas[n_exh + 1], metas[-1])]
    res.distribution = {'kinds': kinds, 'sizes_top': dict(sorted(sizes.items(), key=lambda kv: -kv[1])[:12]),
                        'float_matrices': sum(1 for m in metas if is_float_matrix(m))}
    res.exhaustive = False
    n, failing, errors = core.eval_agreement('c06', HEADER, 'agree_case', terms, shard=400)
    res.programs = n
    res.corr_errors = errors
    for i in failing:
        res.disagreements.append({'kind': 'trace', 'matrix': metas[i],
                                  'what': 'model and implementation differ in result, step trace, final reduced matrix or final marks'})
    return res


def replay(w):
    from mitxgraders.helpers.munkres import Munkres
    M = w['matrix']
    st, out = core.guarded(Munkres().compute, copy.deepcopy(M))
    if st != 'ret':
        return True, 'compute(%r): %s %r' % (M, st, out)
    what = oracle(M, out)
    return what is not None, 'compute(%r) = %r: %s' % (M, out, what or 'satisfies the property')


LEVEL_TEXT = ('Machine-checked for ALL rectangular integer cost matrices of every size and magnitude (no bound on the entries, even '
              'negative ones): the step-by-step model of Munkres.compute terminates (no fuel exhaustion, no error branch) and returns '
              'min(r,c) pairs that use each row and column at most once and have minimum total cost over all such matchings (potential '
              'invariants of the Hungarian method + weak duality), listed by increasing row; a solve on a reused instance equals a solve '
              'on a fresh one for every history. The model is tied to munkres.py at trace level (result, sequence of steps, final reduced '
              'matrix, final marks) on exhaustive small scopes and thousands of random matrices incl. costs far beyond sys.maxsize; float '
              'runs are replayed bit-exactly.')
LEVEL_NOTE = ('Exact integer costs in the theorems; float runs are replayed with Coq primitive floats and optimality up to rounding is '
              'checked by an exact subset-DP oracle (not a theorem). Trusted: Coq kernel incl. primitive floats, the harness.')
TECHNIQUE = 'Coq proof (invariants of the Hungarian method, weak duality) + trace-level vm_compute correspondence incl. PrimFloat replay'
DESIGN_REF = 'DESIGN.md section 3, C06 and Appendix C'
