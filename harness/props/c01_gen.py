"""C01 helper: the generated configuration space.

A grader is described by a JSON-able SPEC (so that witnesses replay):
   {'cls': <class name>, 'opts': {...}}       values inside opts are encoded:
   {'t': [...]} tuple, {'g': spec} a grader, {'fn': name} a registered function, {'cmp': name} a registered comparer,
   {'credit': [kind, params]} an attempt-credit schedule.
`build(spec)` returns a FRESH grader.  All credits are dyadic (exactly representable) unless `rounded` is asked for.
"""
import zlib

DYADIC = [1, 1, 1, 0.5, 0.25, 0.75, 0, 0.125]
ROUNDED = [1, 1, 0.1, 0.3, 0.7, 1.0 / 3, 0.9, 0, 0.45]
MSGS = ['', '', '', 'msg A', 'line one\nline two', 'snowman ☃ ü', '<b>bold</b> & co', 'x\n\ny']
WRONG = ['', '', 'Try again.', 'wrong\nanswer']
GARBAGE = ['', ' ', '\t', ' ', 'á', '\U0001f600', '‮​x', ',,', ';', '((', '[1,', ']', '\x00', "'\"\\",
           '9' * 30, 'éè 中文', 'None', '<pre>x</pre>', '\n', 'a\nb']


# ------------------------------------------------------------------------------------------------
# registry of author-side functions (named, so that specs stay JSON-able)
# ------------------------------------------------------------------------------------------------
def cmp_partial(params, student, utils):
    """author comparer: True if equal, 'partial' if twice the expected value, a dictionary for thrice, else False"""
    exp = params[0]
    if utils.within_tolerance(exp, student):
        return True
    if utils.within_tolerance(2 * exp, student):
        return 'partial'
    if utils.within_tolerance(3 * exp, student):
        return {'grade_decimal': 0.25, 'msg': 'thrice'}
    if utils.within_tolerance(4 * exp, student):
        return {'grade_decimal': 1, 'msg': 'four is fine'}
    return False


def cmp_dict(params, student, utils):
    exp = params[0]
    if utils.within_tolerance(exp, student):
        return {'grade_decimal': 1.0}
    if utils.within_tolerance(-exp, student):
        return {'grade_decimal': 0.5, 'msg': 'sign\nerror'}
    return {'grade_decimal': 0, 'msg': 'nope'}


VERDICTS = [True, False, 'partial', {'grade_decimal': 0}, {'grade_decimal': 0.25, 'msg': 'quarter'}, {'grade_decimal': 1},
            {'grade_decimal': 1, 'msg': 'well done'}, {'grade_decimal': 1, 'ok': True, 'msg': 'spot on'},
            {'grade_decimal': 0.5, 'ok': 'partial', 'msg': 'half way'}]


def _const_comparer(v):
    def cmp_const(params, student, utils):
        return dict(v) if isinstance(v, dict) else v
    return cmp_const


def cmp_msg(params, student, utils):
    """author comparer that explains itself also when the comparison SUCCEEDS"""
    exp = params[0]
    if utils.within_tolerance(exp, student):
        return {'grade_decimal': 1, 'ok': True, 'msg': 'spot on'}
    if utils.within_tolerance(2 * exp, student):
        return {'grade_decimal': 0.5, 'ok': 'partial', 'msg': 'half way'}
    return {'grade_decimal': 0, 'ok': False, 'msg': 'not it'}


FUNCS = {'cmp_partial': cmp_partial, 'cmp_dict': cmp_dict, 'cmp_msg': cmp_msg}
for _i, _v in enumerate(VERDICTS):
    FUNCS['cmp_const_%d' % _i] = _const_comparer(_v)


def make_credit(kind, params):
    from mitxgraders import LinearCredit, GeometricCredit, ReciprocalCredit
    if kind == 'const':
        v = params[0]
        return lambda n: v
    if kind == 'lin':
        return LinearCredit(decrease_credit_after=params[0], decrease_credit_steps=params[1], minimum_credit=params[2])
    if kind == 'geo':
        return GeometricCredit(factor=params[0])
    if kind == 'rec':
        return ReciprocalCredit()
    raise ValueError(kind)


_TABLE = []


def table_grader_class():
    """author-defined ItemGrader with an arbitrary (hash-driven) credit table: the model's opaque leaf"""
    if _TABLE:
        return _TABLE[0]
    from voluptuous import Required
    from mitxgraders.baseclasses import ItemGrader

    class TableGrader(ItemGrader):
        @property
        def schema_config(self):
            return super(TableGrader, self).schema_config.extend({
                Required('salt', default=0): int,
                Required('palette', default=(0, 1)): tuple,
            })

        def check_response(self, answer, student_input, **kwargs):
            h = zlib.crc32(('%d|%s|%s' % (self.config['salt'], answer['expect'], student_input)).encode('utf-8', 'replace'))
            if answer['expect'] == student_input:
                c = 1
            else:
                c = self.config['palette'][h % len(self.config['palette'])]
            grade = c * answer['grade_decimal']
            msg = answer['msg'] if grade > 0 else ('w%d' % (h % 3) if h % 5 == 0 else '')
            return {'ok': self.grade_decimal_to_ok(grade), 'grade_decimal': grade, 'msg': msg}

    _TABLE.append(TableGrader)
    return TableGrader


def decode(v):
    if isinstance(v, dict):
        if set(v) == {'t'}:
            return tuple(decode(x) for x in v['t'])
        if set(v) == {'g'}:
            return build(v['g'])
        if set(v) == {'fn'}:
            return FUNCS[v['fn']]
        if set(v) == {'cmp'}:
            from mitxgraders import LinearComparer
            name, kw = v['cmp']
            if name == 'linear':
                return LinearComparer(**kw)
            raise ValueError(name)
        if set(v) == {'credit'}:
            return make_credit(*v['credit'])
        return {k: decode(x) for k, x in v.items()}
    if isinstance(v, list):
        return [decode(x) for x in v]
    return v


def build(spec):
    import mitxgraders
    cls = table_grader_class() if spec['cls'] == 'TableGrader' else getattr(mitxgraders, spec['cls'])
    return cls(**decode(spec['opts']))


def with_root(spec, **extra):
    s = {'cls': spec['cls'], 'opts': dict(spec['opts'])}
    s['opts'].update(extra)
    return s


# ------------------------------------------------------------------------------------------------
# random specs
# ------------------------------------------------------------------------------------------------
class Gen(object):
    def __init__(self, rng, rounded=False):
        self.r = rng
        self.credits = ROUNDED if rounded else DYADIC

    # -- answers ----------------------------------------------------------------------------------
    def adict(self, expect, force_full=False):
        """one answer alternative: bare value or dictionary (credit, msg, pinned ok)"""
        r = self.r
        if r.random() < 0.3 and not force_full:
            return expect
        d = {'expect': expect}
        if not force_full or r.random() < 0.5:
            c = 1 if force_full else r.choice(self.credits)
            if c != 1 or r.random() < 0.5:
                d['grade_decimal'] = c
        if r.random() < 0.5:
            d['msg'] = r.choice(MSGS)
        if r.random() < 0.2:
            d['ok'] = r.choice([True, False, 'partial', 'computed'])
        return d

    def alternatives(self, values, kmax=3):
        """config['answers'] for an item grader out of candidate expect values"""
        r = self.r
        k = r.randint(1, min(kmax, len(values)))
        vals = r.sample(values, k)
        alts = []
        for i, v in enumerate(vals):
            if r.random() < 0.15 and len(values) > k:
                other = r.choice([x for x in values if x not in vals] or values)
                v = {'t': [v, other]}
            alts.append(self.adict(v, force_full=(i == 0 and r.random() < 0.6)))
        if len(alts) == 1 and r.random() < 0.6:
            return alts[0]
        return {'t': alts}

    # -- leaves -----------------------------------------------------------------------------------
    WORDS = ['cat', 'dog', 'fish', 'a', 'b', 'c', 'Cat', 'x y', 'hello world']

    def string_spec(self, with_answers=True):
        r = self.r
        o = {}
        if r.random() < 0.3:
            o['case_sensitive'] = False
        if r.random() < 0.15:
            o['strip_all'] = True
        mode = r.random()
        if mode < 0.12:
            o['accept_any'] = True
            o['min_length'] = r.choice([0, 3, 6])
            o['explain_minimums'] = r.choice(['msg', None, 'err'])
        elif mode < 0.24:
            o['validation_pattern'] = r.choice([r'[a-zA-Z ]+', r'\w+', r'[a-c]'])
            o['explain_validation'] = r.choice(['msg', None, 'err'])
            if r.random() < 0.5:
                o['invalid_msg'] = 'bad\nformat'
        if r.random() < 0.4:
            o['wrong_msg'] = r.choice(WRONG)
        pool = self.WORDS if 'validation_pattern' not in o else ['a', 'b', 'c']
        if with_answers:
            o['answers'] = self.alternatives(pool)
        return {'cls': 'StringGrader', 'opts': o}, pool

    FORMULAS = ['x+1', '2*x', 'x*y', 'x^2', '1', 'x', 'y-x', '3*x']

    def formula_spec(self, with_answers=True):
        r = self.r
        o = {'variables': ['x', 'y'], 'samples': r.choice([1, 1, 3])}
        if r.random() < 0.4:
            o['failable_evals'] = r.choice([1, 2])
        if r.random() < 0.4:
            o['wrong_msg'] = r.choice(WRONG)
        mode = r.random()
        pool = list(self.FORMULAS)
        if mode < 0.15:
            wrap = lambda e: {'comparer': {'fn': 'cmp_partial'}, 'comparer_params': [e]}
        elif mode < 0.25:
            wrap = lambda e: {'comparer': {'fn': 'cmp_dict'}, 'comparer_params': [e]}
        elif mode < 0.4:
            wrap = lambda e: {'comparer': {'fn': 'cmp_msg'}, 'comparer_params': [e]}
        elif mode < 0.58:
            kw = {'proportional': r.choice([0.5, 0.25]), 'offset': r.choice([None, 0.25, 0.5])}
            if r.random() < 0.6:
                kw['equals_msg'] = 'exactly right'
            o['samples'] = 3            # LinearComparer needs three samples; it is correlated: ONE comparer result
            wrap = lambda e: {'comparer': {'cmp': ['linear', kw]}, 'comparer_params': [e]}
            pool = ['x+1', '2*x', 'x*y', 'x^2', 'x', '3*x']
        else:
            wrap = lambda e: e
        if with_answers:
            a = self.alternatives(pool)
            o['answers'] = self._map_expects(a, wrap)
        return {'cls': 'FormulaGrader', 'opts': o}, pool, wrap

    def _map_expects(self, a, wrap):
        """apply wrap to every expect value in an answers structure produced by alternatives()"""
        if isinstance(a, dict) and set(a) == {'t'}:
            return {'t': [self._map_expects(x, wrap) for x in a['t']]}
        if isinstance(a, dict) and 'expect' in a:
            d = dict(a)
            e = d['expect']
            if isinstance(e, dict) and set(e) == {'t'}:
                d['expect'] = {'t': [wrap(x) for x in e['t']]}
            else:
                d['expect'] = wrap(e)
            return d
        return wrap(a)

    NUMBERS = ['3.5', '2', '0', '-1', '1e3', '7/2']

    def numerical_spec(self, with_answers=True):
        r = self.r
        o = {}
        if r.random() < 0.4:
            o['wrong_msg'] = r.choice(WRONG)
        if r.random() < 0.3:
            o['tolerance'] = r.choice([0, '1%', 0.01])
        wrap = self.author_wrap(0.4)
        if with_answers:
            o['answers'] = self._map_expects(self.alternatives(self.NUMBERS), wrap)
        return {'cls': 'NumericalGrader', 'opts': o}, self.NUMBERS, wrap

    def author_wrap(self, p):
        """with probability p an author comparer (messages also on success / partial success), else the default one"""
        r = self.r
        if r.random() < p:
            name = r.choice(['cmp_msg', 'cmp_msg', 'cmp_partial', 'cmp_dict'])
            return lambda e: {'comparer': {'fn': name}, 'comparer_params': [e]}
        return lambda e: e

    MATRICES = ['[1,2]', '[[1,2],[3,4]]', '[x,2*x]', '[1,2,3,4]']

    def matrix_spec(self, with_answers=True):
        r = self.r
        o = {'variables': ['x'], 'samples': r.choice([1, 2])}
        wrap = lambda e: e
        if r.random() < 0.3:
            wrap = self.author_wrap(1.0)
        elif r.random() < 0.5:
            o['entry_partial_credit'] = r.choice(['proportional', 0.5, 0.25])
            if r.random() < 0.3:
                o['entry_partial_msg'] = r.choice(['partly', 'see:\n{error_locations}'])
        if r.random() < 0.35:
            o['shape_errors'] = False
        if r.random() < 0.35:
            o['answer_shape_mismatch'] = {'is_raised': False, 'msg_detail': r.choice([None, 'type', 'shape'])}
        if r.random() < 0.25:
            o['suppress_matrix_messages'] = True
        if r.random() < 0.3:
            o['failable_evals'] = 1
        if r.random() < 0.4:
            o['wrong_msg'] = r.choice(WRONG)
        if with_answers:
            o['answers'] = self._map_expects(self.alternatives(self.MATRICES), wrap)
        return {'cls': 'MatrixGrader', 'opts': o}, self.MATRICES, wrap

    def table_spec(self, with_answers=True):
        r = self.r
        pal = r.choice([[0, 1], [0, 0.5, 1], [0, 0, 0.25, 0.5, 1], [0]])
        if self.credits is ROUNDED:
            pal = r.choice([[0, 0.3, 1], [0.1, 0.7], [0, 1.0 / 3]])
        o = {'salt': r.randint(0, 99), 'palette': {'t': pal}}
        if r.random() < 0.4:
            o['wrong_msg'] = r.choice(WRONG)
        pool = ['u%d' % i for i in range(6)]
        if with_answers:
            o['answers'] = self.alternatives(pool)
        return {'cls': 'TableGrader', 'opts': o}, pool

    def leaf(self, with_answers=True, kinds=('s', 's', 't', 't', 'f', 'n', 'm')):
        k = self.r.choice(kinds)
        if k == 's':
            s, pool = self.string_spec(with_answers)
            return s, pool, (lambda e: e)
        if k == 't':
            s, pool = self.table_spec(with_answers)
            return s, pool, (lambda e: e)
        if k == 'n':
            return self.numerical_spec(with_answers)
        if k == 'm':
            return self.matrix_spec(with_answers)
        return self.formula_spec(with_answers)

    def leaf_inputs(self, pool, answers_hint=()):
        r = self.r
        x = r.random()
        if x < 0.55:
            return r.choice(list(answers_hint) or pool)
        if x < 0.8:
            v = r.choice(pool)
            return r.choice([v + ' ', ' ' + v, v.upper(), v + '+0', '2*(' + v + ')', '3*' + v, '4*(' + v + ')', '-(' + v + ')',
                             v + '+1', v[:-1], v + v, '[' + v + ']'])
        return r.choice(GARBAGE)

    # -- SingleListGrader -------------------------------------------------------------------------
    def slist_spec(self, depth=0, with_answers=True, delims=(',', ';', '::', '|')):
        r = self.r
        delim = r.choice(delims)
        rest = tuple(d for d in delims if d != delim)
        if depth == 0 and r.random() < 0.2 and len(rest) >= 1:
            sub, subgen = self.slist_spec(depth + 1, with_answers=False, delims=rest)
        else:
            ls, pool, wrap = self.leaf(with_answers=False, kinds=('s', 's', 't', 't', 'n', 'f'))
            sub = ls

            def subgen(pool=pool, wrap=wrap):
                # one sub-answer for the leaf (alternatives allowed) and the student text that matches it
                v = r.choice(pool)
                if r.random() < 0.2:
                    a = self._map_expects(self.alternatives(pool, kmax=2), wrap)
                    return a, v
                if r.random() < 0.25:
                    return self._map_expects(self.adict(v), wrap), v
                return wrap(v), v
        o = {'subgrader': {'g': sub}, 'delimiter': delim}
        if r.random() < 0.4:
            o['ordered'] = True
        if r.random() < 0.3:
            o['partial_credit'] = False
        if r.random() < 0.25:
            o['length_error'] = True
        if r.random() < 0.4:
            o['missing_error'] = False
        if r.random() < 0.3:
            o['wrong_msg'] = r.choice(WRONG)
        n = r.choice([1, 2, 2, 3, 4])

        def one_list():
            items = [subgen() for _ in range(n)]
            return [i[0] for i in items], delim.join(i[1] for i in items)

        def gen_answer():
            # returns (answer value for this grader, matching student text)
            lists = [one_list() for _ in range(r.choice([1, 1, 2]))]
            texts = [t for _, t in lists]
            alts = []
            for i, (lst, _) in enumerate(lists):
                alts.append(self.adict(lst, force_full=(i == 0)))
            a = alts[0] if len(alts) == 1 and r.random() < 0.6 else {'t': alts}
            return a, r.choice(texts)
        if with_answers:
            a, text = gen_answer()
            o['answers'] = a
            spec = {'cls': 'SingleListGrader', 'opts': o}
            return spec, text
        return {'cls': 'SingleListGrader', 'opts': o}, gen_answer

    def slist_input(self, text, delim):
        r = self.r
        items = text.split(delim)
        x = r.random()
        if x < 0.25:
            pass
        elif x < 0.45:
            r.shuffle(items)
        elif x < 0.6 and len(items) > 1:
            items.pop(r.randrange(len(items)))
        elif x < 0.75:
            items.insert(r.randrange(len(items) + 1), r.choice(['zz', 'u1', 'cat', '2', 'x']))
        elif x < 0.85:
            items[r.randrange(len(items))] = r.choice(['', ' ', 'q', ' '])
        elif x < 0.93:
            items = [' ' + i + ' ' for i in items]
        else:
            return r.choice(GARBAGE)
        return delim.join(items)

    # -- IntervalGrader ---------------------------------------------------------------------------
    def interval_spec(self):
        r = self.r
        o = {}
        lo, hi = r.choice([('1', '2'), ('0', '5'), ('-1', '3.5'), ('2', 'infty')])
        ob, cb = r.choice('[('), r.choice('])')
        if r.random() < 0.5:
            ans = ob + lo + ',' + hi + cb
            if r.random() < 0.4:
                ans = self.adict(ans, force_full=True)
        else:
            def bracket(b, other):
                if r.random() < 0.5:
                    return b
                return {'t': [{'expect': b}, {'expect': other, 'grade_decimal': r.choice([0.5, 0.25, 0]),
                                              'msg': r.choice(MSGS)}]}
            oo = '(' if ob == '[' else '['
            co = ')' if cb == ']' else ']'
            lst = [bracket(ob, oo), self.adict(lo) if r.random() < 0.3 else lo, hi, bracket(cb, co)]
            ans = self.adict(lst, force_full=True) if r.random() < 0.5 else lst
        o['answers'] = ans
        if r.random() < 0.3:
            o['partial_credit'] = False
        if r.random() < 0.3:
            o['wrong_msg'] = r.choice(WRONG)
        if r.random() < 0.2:
            o['delimiter'] = ';'
        d = o.get('delimiter', ',')
        inputs = [ob + lo + d + hi + cb, '(' + lo + d + hi + ')', '[' + lo + d + hi + ']', ob + lo + d + '7' + cb,
                  ob + '9' + d + hi + cb, ' ' + ob + ' ' + lo + ' ' + d + hi + cb + ' ', lo + d + hi, ob + lo + d + hi + d + hi + cb,
                  '{' + lo + d + hi + cb, ob + d + hi + cb, ob + lo + hi + cb, ob + 'x+' + d + hi + cb, ob + cb, '']
        return {'cls': 'IntervalGrader', 'opts': o}, inputs

    # -- ListGrader -------------------------------------------------------------------------------
    def item_for_list(self):
        """an item-level subgrader spec (no answers) + a generator of (answer, matching text)"""
        r = self.r
        if r.random() < 0.25:
            spec, gen_answer = self.slist_spec(depth=0, with_answers=False)
            return spec, gen_answer
        ls, pool, wrap = self.leaf(with_answers=False, kinds=('s', 's', 't', 't', 'n', 'f', 'm'))

        def gen_answer(pool=pool, wrap=wrap):
            v = r.choice(pool)
            if r.random() < 0.25:
                return self._map_expects(self.alternatives(pool, kmax=2), wrap), v
            if r.random() < 0.3:
                return self._map_expects(self.adict(v), wrap), v
            return wrap(v), v
        return ls, gen_answer

    def list_spec(self):
        """returns (spec, list of matching texts)"""
        r = self.r
        o = {}
        shape = r.random()
        if shape < 0.45:
            # one subgrader for every input
            sub, ga = self.item_for_list()
            n = r.choice([2, 2, 3, 4])
            o['subgraders'] = {'g': sub}
            o['ordered'] = r.random() < 0.4
            lists, texts = [], None
            for _ in range(r.choice([1, 1, 1, 2, 3])):
                items = [ga() for _ in range(n)]
                lists.append([i[0] for i in items])
                texts = texts or [i[1] for i in items]
            o['answers'] = lists[0] if len(lists) == 1 else {'t': lists}
        elif shape < 0.7:
            # a list of subgraders (ordered)
            n = r.choice([2, 3])
            subs = [self.item_for_list() for _ in range(n)]
            o['subgraders'] = [{'g': s} for s, _ in subs]
            o['ordered'] = True
            lists, texts = [], None
            for _ in range(r.choice([1, 1, 2])):
                items = [ga() for _, ga in subs]
                lists.append([i[0] for i in items])
                texts = texts or [i[1] for i in items]
            o['answers'] = lists[0] if len(lists) == 1 else {'t': lists}
        else:
            # grouping with nested ListGraders
            gsize = r.choice([2, 2, 3])
            ngroups = r.choice([2, 2, 3])
            ordered = r.random() < 0.5
            leafsub, ga = self.item_for_list()
            inner_opts = {'subgraders': {'g': leafsub}, 'ordered': r.random() < 0.5}
            if r.random() < 0.3:
                inner_opts['partial_credit'] = False
            inner = {'cls': 'ListGrader', 'opts': inner_opts}
            layout = [g + 1 for g in range(ngroups) for _ in range(gsize)]
            extra = None
            if ordered and r.random() < 0.5:
                # a list of subgraders: nested list graders for the groups plus one single-input grader
                single, sga = self.item_for_list()
                o['subgraders'] = [{'g': inner} for _ in range(ngroups)] + [{'g': single}]
                layout.append(ngroups + 1)
                extra = sga
            else:
                o['subgraders'] = {'g': inner}
            r.shuffle(layout)
            o['grouping'] = layout
            o['ordered'] = ordered
            lists, texts = [], None
            for _ in range(r.choice([1, 1, 2])):
                groups = [[ga() for _ in range(gsize)] for _ in range(ngroups)]
                al = [[i[0] for i in grp] for grp in groups]
                flat_texts = {}
                for gi, grp in enumerate(groups):
                    idxs = [k for k, gnum in enumerate(layout) if gnum == gi + 1]
                    for k, it in zip(idxs, grp):
                        flat_texts[k] = it[1]
                if extra:
                    a, t = extra()
                    al.append(a)
                    flat_texts[layout.index(ngroups + 1)] = t
                lists.append(al)
                texts = texts or [flat_texts[k] for k in range(len(layout))]
            o['answers'] = lists[0] if len(lists) == 1 else {'t': lists}
        if r.random() < 0.3:
            o['partial_credit'] = False
        return {'cls': 'ListGrader', 'opts': o}, texts

    SENTINEL = '§no§match§'

    def list_inputs(self, texts):
        r = self.r
        xs = list(texts)
        x = r.random()
        if x < 0.18:
            xs[r.randrange(len(xs))] = self.SENTINEL      # exactly one input that no answer can match
        elif x < 0.3:
            pass
        elif x < 0.55:
            r.shuffle(xs)
        elif x < 0.8:
            for _ in range(r.choice([1, 1, 2])):
                xs[r.randrange(len(xs))] = r.choice(['zz', 'u1', 'cat', '2', 'x+1', '', ' ', '1,2', 'a;b'] + GARBAGE[:6])
        elif x < 0.9:
            xs = xs[:-1] if r.random() < 0.5 else xs + ['extra']
        else:
            xs = [r.choice(GARBAGE) for _ in xs]
        return xs

    # -- SumGrader --------------------------------------------------------------------------------
    def sum_spec(self):
        r = self.r
        ans = r.choice([{'lower': '1', 'upper': '4', 'summand': 'n', 'summation_variable': 'n'},
                        {'lower': '0', 'upper': '3', 'summand': '2^k', 'summation_variable': 'k'},
                        {'lower': '1', 'upper': '5', 'summand': 'x*n', 'summation_variable': 'n'}])
        o = {'answers': ans, 'variables': ['x']}
        pos = r.choice([None, {'summand': 1}, {'lower': 1, 'upper': 2, 'summand': 3}, {'summand': 1, 'summation_variable': 2}])
        if pos:
            o['input_positions'] = pos
        if r.random() < 0.3:
            o['failable_evals'] = 1
        full = {'lower': ans['lower'], 'upper': ans['upper'], 'summand': ans['summand'], 'summation_variable': ans['summation_variable']}
        order = pos or {'lower': 1, 'upper': 2, 'summand': 3, 'summation_variable': 4}
        keys = sorted(order, key=lambda k: order[k])
        good = [full[k] for k in keys]
        return {'cls': 'SumGrader', 'opts': o}, good, keys

    def sum_inputs(self, good, keys):
        r = self.r
        xs = list(good)
        x = r.random()
        if x < 0.35:
            pass
        elif x < 0.7:
            i = r.randrange(len(xs))
            xs[i] = r.choice(['n+1', '2', '0', 'm', '2*n', 'x', '', 'k', '1/0', 'n+'] + GARBAGE[:4])
        elif x < 0.8:
            xs = xs[:-1] if len(xs) > 1 else xs + ['1']
        else:
            xs = [r.choice(GARBAGE) for _ in xs]
        if len(keys) == 1 and r.random() < 0.7:
            return xs[0]
        return xs

    # -- root options -----------------------------------------------------------------------------
    CREDITS = [['const', [0.5]], ['const', [1]], ['const', [0]], ['const', [0.75]], ['const', [0.3333]], ['const', [0.25]],
               ['lin', [1, 4, 0.2]], ['lin', [2, 3, 0.5]], ['geo', [0.5]], ['geo', [0.75]], ['rec', []], ['const', [1.0]],
               # very small maximum credits: scaled grades next to 0 (and author schedules below the 4-decimal resolution)
               ['const', [0.0001]], ['const', [0.0002]], ['const', [0.001]], ['const', [0.00001]], ['const', [0.0004]],
               ['geo', [0.1]], ['geo', [0.75]], ['lin', [1, 3, 0.0001]], ['lin', [1, 2, 0.001]], ['rec', []]]
    ATTEMPTS = [None, 0, -2, 1, 1, 2, 2, 3, 4, 5, 5, 9, 12, 30, 33, 35, 60, 200]

    def root_options(self):
        r = self.r
        extra = {}
        if r.random() < 0.2:
            extra['debug'] = True
        attempt = None
        if r.random() < 0.4:
            extra['attempt_based_credit'] = {'credit': r.choice(self.CREDITS)}
            if r.random() < 0.3:
                extra['attempt_based_credit_msg'] = False
            attempt = r.choice(self.ATTEMPTS)
        elif r.random() < 0.2:
            attempt = r.choice([1, 2, 7])
        return extra, attempt


# ------------------------------------------------------------------------------------------------
# grouped ListGraders with per-box distinguishable answers and messages ("tagged" stream)
# ------------------------------------------------------------------------------------------------
TAG = 'matched '


def surjective_layouts(n, g):
    """every grouping list of length n that uses exactly the group numbers 1..g (any layout order)"""
    import itertools
    return [list(t) for t in itertools.product(range(1, g + 1), repeat=n) if set(t) == set(range(1, g + 1))]


def grouping_layouts(rng, tier):
    """all valid grouping shapes for up to 4 inputs, a seeded sample of the 5- and 6-input ones"""
    out = []
    for n in (2, 3, 4):
        for g in range(2, n + 1):
            out += surjective_layouts(n, g)
    big = []
    for n, g in ((5, 2), (5, 3), (6, 2), (6, 3)):
        big += surjective_layouts(n, g)
    rng.shuffle(big)
    out += big[:(40 if tier == 'quick' else 400)]
    return out


def tagged_group_spec(rng, layout):
    """a ListGrader for this grouping whose every box has its own answer text and its own message.
    Returns (spec, correct inputs)."""
    g = max(layout)
    idxs = {k: [i for i, x in enumerate(layout) if x == k] for k in range(1, g + 1)}
    sizes = [len(idxs[k]) for k in range(1, g + 1)]

    def leaf_answer(k, q):
        v = 'g%dq%d' % (k, q)
        d = {'expect': v, 'msg': TAG + v}
        if rng.random() < 0.25:
            d['grade_decimal'] = rng.choice([0.5, 0.25])
        return d, v
    string = {'g': {'cls': 'StringGrader', 'opts': {}}}
    equal = len(set(sizes)) == 1 and sizes[0] >= 2
    unordered = equal and rng.random() < 0.5
    answers, correct = [], [None] * len(layout)
    for k in range(1, g + 1):
        items = [leaf_answer(k, q) for q in range(sizes[k - 1])]
        for i, (_, v) in zip(idxs[k], items):
            correct[i] = v
        answers.append(items[0][0] if sizes[k - 1] == 1 else [a for a, _ in items])
    o = {'grouping': list(layout), 'ordered': not unordered, 'answers': answers}

    def inner():
        io = {'subgraders': string, 'ordered': rng.random() < 0.5}
        return {'g': {'cls': 'ListGrader', 'opts': io}}
    if unordered or (min(sizes) >= 2 and rng.random() < 0.4):
        o['subgraders'] = inner()
    else:
        o['subgraders'] = [string if sz == 1 else inner() for sz in sizes]
    if rng.random() < 0.2:
        o['partial_credit'] = False
    return {'cls': 'ListGrader', 'opts': o}, correct
