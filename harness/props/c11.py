"""C11 -- a grader's verdict depends only on its configuration and the current call.

Tie A: translate/protocol.py regenerates the call-protocol programs (ItemGrader.__call__, AbstractGrader.__call__,
       create_debuglog, MathArray.enable_negative_powers) and the write-site inventory of mitxgraders/ into
       coq/Gen/Protocol.v on every run; Bridge/Protocol.v + the finite theorems of Proofs/ProtocolEffects.v re-check.
Tie B: every call sequence of the sweep is run on real grader instances; the events, the oracle tables (validation
       stage of every expect value, text check, self.check per stored answers -- all measured on fresh instances) and
       the observed outcome AND instance state after every call are written into coq/Cases/c11_*.v, where the
       regenerated program is executed by vm_compute and compared call by call.
Oracle: the n-th call of a reused grader against a freshly constructed grader given only the last successfully
       supplied expect value; snapshots of author configuration objects, evaluator scopes, other graders and
       process-wide settings before/after.
"""
import copy
import itertools
import zlib
import json
import multiprocessing
import os
import random
import re
import time
from fractions import Fraction

from harness import core
from harness.core import zlit, qlit, boollit, listlit, strlit, optlit, natlit
from translate import protocol as tr_protocol

ID = 'C11'
PROPS = 'Props/C11.v'
TRANSLATORS = [('Gen/Protocol.v', tr_protocol.generate)]
MIRRORED = [('mitxgraders/baseclasses.py', 'ItemGrader.__call__'),
            ('mitxgraders/baseclasses.py', 'AbstractGrader.__call__'),
            ('mitxgraders/baseclasses.py', 'AbstractGrader.create_debuglog'),
            ('mitxgraders/baseclasses.py', 'ItemGrader.__init__'),
            ('mitxgraders/baseclasses.py', 'ObjectWithSchema.__init__'),
            ('mitxgraders/baseclasses.py', 'ObjectWithSchema.coerce2unicode'),
            ('mitxgraders/baseclasses.py', 'ObjectWithSchema.apply_registered_defaults'),
            ('mitxgraders/baseclasses.py', 'DefaultValuesMeta'),
            ('mitxgraders/stringgrader.py', 'StringGrader.__call__'),
            ('mitxgraders/listgrader.py', 'SingleListGrader.post_schema_ans_val'),
            ('mitxgraders/listgrader.py', 'SingleListGrader.infer_from_expect'),
            ('mitxgraders/listgrader.py', 'ListGrader.check'),
            ('mitxgraders/formulagrader/intervalgrader.py', 'IntervalGrader.__init__'),
            ('mitxgraders/formulagrader/intervalgrader.py', 'IntervalGrader.post_schema_ans_val'),
            ('mitxgraders/formulagrader/matrixgrader.py', 'MatrixGrader.check_response'),
            ('mitxgraders/helpers/calc/math_array.py', 'MathArray.enable_negative_powers'),
            ('mitxgraders/helpers/calc/expressions.py', 'MathExpression.eval_variable'),
            ('mitxgraders/helpers/calc/expressions.py', 'MathExpression.eval'),
            ('mitxgraders/helpers/calc/expressions.py', 'MathExpression.__init__'),
            ('mitxgraders/helpers/calc/expressions.py', 'MathParser.parse'),
            ('mitxgraders/helpers/math_helpers.py', 'MathMixin.validate_math_config')]
REFUTED = []
TRUSTED = [
    'translator translate/protocol.py (Python ast -> command programs of Lib/ProtocolSyntax.v; the tail of '
    'AbstractGrader.__call__ and two log-formatting statements are pinned by AST digest; write-site inventory by '
    'flow-insensitive alias analysis)',
    'correspondence harness harness/props/c11.py: oracle tables are measured on fresh instances through the public '
    'methods infer_from_expect / schema_answers / post_schema_ans_val / ensure_text_inputs / check; outcomes are '
    'canonicalised to (exception class, message) or (ok, grade, message, debug-log entries)',
    'the review table coq/Model/ProtocolEffects.v (reasons attached to write sites are human judgement)',
    'modelled, not verified: voluptuous, json.dumps, the content of self.check (an oracle), Python object identity/aliasing '
    '(no heap model: frame conditions are a static inventory + run-time snapshots)',
]
ASSUMPTIONS = [
    'self.check(None, s) is a function of the stored answers, the input and the (fixed) configuration -- measured, and '
    're-measured on every run, by the correspondence',
    'attempt-based credit is off in the C11 sweeps (C17 covers it); expect values are JSON-serialisable',
    'a call given no expect value is compared with a fresh grader given the last successfully supplied one, its debug '
    'log taken without the "Expect value inferred" entry',
    'an expect value counts as successfully supplied when inference, schema validation and post-validation accept it '
    '(whether or not grading the accompanying input then raises)',
]
LEVEL_TEXT = ('Call protocol (ItemGrader/AbstractGrader.__call__, create_debuglog) as programs regenerated from the source on every '
              'run: the full history-independence statement is proved for histories of any length, all oracle assignments, '
              'answers configured or inferred, debug on or off; the instance state after any history is proved to be a function '
              'of the last successfully supplied expect value, a rejected expect value leaves no trace, and the debug log handed '
              'back speaks of the current call only. The negative-power switch is proved restored on every exit and '
              'history-independent. Frame conditions: finite theorems over a regenerated inventory of every write site of '
              'mitxgraders/ (none writes into an author-supplied object; process-wide settings have designated writers only), '
              'backed by run-time snapshots.')
LEVEL_NOTE = ('Protocol theorems: induction over histories with state invariants, oracles universally quantified, no axioms. '
              'Frame part is partial: static inventory + review table + snapshots, no heap model. Trusted: Coq kernel, '
              'translate/protocol.py, harness/props/c11.py.')
TECHNIQUE = ('Coq proof (small-step interpreter of regenerated command programs, invariants, induction on histories) + '
             'source-to-program translator + write-site inventory + vm_compute trace correspondence + fresh-instance oracle')
DESIGN_REF = 'DESIGN.md section 3, C11'

# No defect is currently known for C11.  The four that the machinery found on the original tree were repaired in /repo
# (6d40b94, a320343: ItemGrader.__call__ validates into a local and clears log_created on every exit; ff4d9d4:
# IntervalGrader.__init__ works on a copy; c45f4c9: SingleListGrader hands its debuglog to the subgrader).  Their
# witnesses stay in the regression corpus below as ordinary cases that must pass; a recurrence is a plain VIOLATION.
HISTORY_CORPUS = [
    # (grader, configured, debug, events [(expect index | None, input index)])  -- indices as in class_specs()
    ('SingleListGrader', False, False, [(2, 0), (1, 1)]),          # ('a,,b','b,a') then ('c,d','c,d')
    ('SingleListGrader', False, False, [(1, 1), (2, 0), (None, 1)]),  # a rejected expect must not displace a valid one
    ('IntervalGrader', False, False, [(2, 0), (0, 0)]),
    ('IntervalGrader', False, False, [(3, 0), (None, 0)]),
    ('FormulaGrader', False, True, [(2, 0), (1, 1)]),              # (5,'3') then ('7','7'): no stale debug log
    ('FormulaGrader', False, True, [(0, 0), (2, 0), (None, 1)]),
    ('StringGrader', False, True, [(0, 3), (None, 0)]),            # ('cat', 5) then (None,'cat')
    ('SingleListGrader', False, True, [(0, 3), (0, 0)]),
    ('SingleListGrader', False, True, [(2, 0), (0, 0)]),
]


# ------------------------------------------------------------------------------------------------
# fingerprints of Python objects (identity-aware, used for snapshots)
# ------------------------------------------------------------------------------------------------
def fp(o, ident=True, _depth=0):
    import numpy as np
    from mitxgraders.baseclasses import ObjectWithSchema
    if _depth > 12:
        return ('deep',)
    if o is None or isinstance(o, (bool, int, float, complex, str, bytes)):
        return (type(o).__name__, repr(o))
    if isinstance(o, dict):
        items = [(fp(k, ident, _depth + 1), fp(v, ident, _depth + 1)) for k, v in o.items()]
        try:
            items.sort(key=lambda kv: kv[0])
        except TypeError:
            items.sort(key=repr)
        return ('dict', tuple(items))
    if isinstance(o, list):
        return ('list', tuple(fp(x, ident, _depth + 1) for x in o))
    if isinstance(o, tuple):
        return ('tuple', tuple(fp(x, ident, _depth + 1) for x in o))
    if isinstance(o, (set, frozenset)):
        return ('set', tuple(sorted((fp(x, ident, _depth + 1) for x in o), key=repr)))
    if isinstance(o, np.ndarray):
        return ('array', type(o).__name__, o.shape, o.dtype.str, o.tobytes())
    if hasattr(o, '_verif_inner'):
        return fp(o._verif_inner, ident, _depth)
    if isinstance(o, ObjectWithSchema):
        state = tuple((k, fp(v, ident, _depth + 1)) for k, v in sorted(vars(o).items())
                      if k not in ('debuglog', 'comparer_utils'))
        return ('obj', type(o).__name__, id(o) if ident else 0, state)
    if callable(o):
        return ('fn', id(o) if ident else 0, getattr(o, '__qualname__', type(o).__name__))
    return ('other', type(o).__name__, id(o) if ident else 0)


def all_schema_classes():
    from mitxgraders.baseclasses import ObjectWithSchema
    out, todo = [], [ObjectWithSchema]
    while todo:
        c = todo.pop()
        if c in out:
            continue
        out.append(c)
        todo += c.__subclasses__()
    return sorted(out, key=lambda c: (c.__module__, c.__qualname__))


def settings_snapshot():
    """process-wide settings named by the property"""
    import numpy as np
    from mitxgraders.helpers.calc import mathfuncs
    from mitxgraders.helpers.calc.math_array import MathArray
    snap = {}
    for name in dir(mathfuncs):
        v = getattr(mathfuncs, name)
        if name.isupper() and isinstance(v, dict):
            snap['mathfuncs.' + name] = fp(v)
    for c in all_schema_classes():
        d = vars(c)
        snap['%s.default_values' % c.__qualname__] = fp(d.get('default_values'))
    import mitxgraders.helpers.math_helpers as mh
    classes = all_schema_classes() + [mh.MathMixin]
    for c in classes:
        for attr in ('default_variables', 'default_functions', 'default_suffixes', 'default_comparer'):
            if attr in vars(c):
                snap['%s.%s' % (c.__qualname__, attr)] = fp(vars(c)[attr])
    for c in classes + [MathArray]:
        for attr, v in vars(c).items():
            if isinstance(v, (dict, list, set)) and not attr.startswith('__'):
                snap.setdefault('%s.%s' % (c.__qualname__, attr), fp(v))
    snap['MathArray._negative_powers'] = fp(MathArray._negative_powers)
    snap['MathArray._default_negative_powers'] = fp(MathArray._default_negative_powers)
    snap['np.geterr'] = fp(np.geterr())
    snap['np.geterrcall'] = fp(np.geterrcall())
    return snap


def describe_setting_change(a, b):
    """what changed between two fingerprints of a process-wide table"""
    if a is not None and b is not None and a[0] == 'dict' and b[0] == 'dict':
        return describe_change(a, b)
    return 'value changed'


def diff_snap(a, b):
    return sorted(k for k in set(a) | set(b) if a.get(k) != b.get(k))


# ------------------------------------------------------------------------------------------------
# the item-grader classes of the sweep
# ------------------------------------------------------------------------------------------------
NONTEXT = 5


def class_specs():
    """name -> dict(make(configured, debug) -> (cls, kwargs), expects=[(label, value)], inputs=[...])
    expects[0], expects[1] are valid and different; the rest are invalid (label says which stage rejects them);
    inputs: [matches expects[0], matches expects[1], malformed text, non-text]"""
    from mitxgraders import (StringGrader, FormulaGrader, NumericalGrader, MatrixGrader, SingleListGrader,
                             IntervalGrader)
    specs = {}

    def add(name, cls, base, expects, inputs, sub=None):
        def make(configured, debug, cls=cls, base=base, expects=expects, sub=sub):
            kw = dict(base)
            if sub is not None:
                kw['subgrader'] = sub()
            if configured:
                kw['answers'] = expects[0][1]
            if debug:
                kw['debug'] = True
            return cls, kw
        specs[name] = {'make': make, 'expects': expects, 'inputs': inputs}

    add('StringGrader', StringGrader, {'validation_pattern': r'[a-z]+', 'explain_validation': 'err'},
        [('valid', 'cat'), ('valid', 'dog'), ('schema', 5)], ['cat', 'dog', '123', NONTEXT])
    add('FormulaGrader', FormulaGrader, {},
        [('valid', '1+2'), ('valid', '7'), ('schema', 5)], ['3', '7', '1+', NONTEXT])
    add('NumericalGrader', NumericalGrader, {},
        [('valid', '1+2'), ('valid', '7'), ('schema', 5)], ['3', '7', '1+', NONTEXT])
    add('MatrixGrader', MatrixGrader, {},
        [('valid', '[1,2]'), ('valid', '[3,4]'), ('schema', 5)], ['[1,2]', '[3,4]', '[1,', NONTEXT])
    add('SingleListGrader', SingleListGrader, {},
        [('valid', 'a,b'), ('valid', 'c,d'), ('post', 'a,,b'), ('infer', 5)], ['b,a', 'c,d', 'a,,b', NONTEXT],
        sub=lambda: StringGrader())
    add('IntervalGrader', IntervalGrader, {},
        [('valid', '[1,2)'), ('valid', '(3,4]'), ('post', '[1,2,3]'), ('post', '{1,2}'), ('infer', 'x')],
        ['[1,2)', '(3,4]', '[1,', NONTEXT])
    return specs


def build(spec, configured, debug):
    cls, kw = spec['make'](configured, debug)
    return cls(**kw)


def exn_canon(e):
    from mitxgraders.exceptions import MITxError
    return (type(e).__name__, isinstance(e, MITxError), str(e))


def fmt(s):
    return s.replace('\n', '<br/>\n')


class Canon:
    """canonical forms shared by the correspondence and the oracle for one (class, configured, debug) combo"""

    def __init__(self, spec):
        self.spec = spec
        self.inputs = spec['inputs']
        self.expects = [v for _, v in spec['expects']]
        self.line_ids = {}
        self.inferred_json = {}

    def resp_text(self, s):
        if isinstance(s, list):
            return 'Student Responses:\n' + '\n'.join(map(str, s))
        return 'Student Response:\n' + str(s)

    def lines(self, entries):
        out, i = [], 0
        while i < len(entries):
            t = entries[i]
            if t.startswith('MITx Grading Library Version ') and i + 1 < len(entries) \
                    and entries[i + 1].startswith('Running on edX using python '):
                out.append(('V',))
                i += 2
                continue
            i += 1
            hit = None
            for k, s in enumerate(self.inputs):
                if t == self.resp_text(s):
                    hit = ('R', k)
                    break
            if hit is None and t.startswith('Using modified defaults: '):
                hit = ('D',)
            if hit is None:
                for k, js in self.inferred_json.items():
                    if t == 'Expect value inferred to be ' + js:
                        hit = ('I', k)
                        break
            if hit is None:
                hit = ('C', self.line_ids.setdefault(t, len(self.line_ids)))
            out.append(hit)
        return tuple(out)

    def outcome(self, status, value, grader, debug):
        if status == 'timeout':
            return ('timeout',)
        if status == 'exc':
            return ('raise', type(value).__name__, str(value))
        r = value
        if not isinstance(r, dict) or sorted(r) != ['grade_decimal', 'msg', 'ok']:
            return ('odd', repr(r)[:300])
        msg = r['msg']
        log = None
        if debug:
            entries = list(getattr(grader, 'debuglog', []))
            tail = fmt('<pre>' + '\n'.join(entries) + '</pre>')
            if not msg.endswith(tail):
                return ('unparsed', msg[:300])
            head = msg[:-len(tail)]
            if head.endswith('<br/>\n<br/>\n'):
                head = head[:-len('<br/>\n<br/>\n')]
            elif head:
                return ('unparsed', msg[:300])
            msg = head
            log = self.lines(entries)
        return ('ret', r['ok'], r['grade_decimal'], msg, log)


def strip_inferred(o):
    if o[0] == 'ret' and o[4] is not None:
        return o[:4] + (tuple(l for l in o[4] if l[0] != 'I'),)
    return o


# ------------------------------------------------------------------------------------------------
# oracle tables measured on fresh instances
# ------------------------------------------------------------------------------------------------
A_CFG = 5


def safe_copy(o):
    try:
        return copy.deepcopy(o)
    except Exception:       # noqa
        return o


def measure_tables(spec, configured, debug, canon):
    """stage of every expect value, text check of every input, check() per (answers, input)"""
    T = {'stage': {}, 'answers': {}, 'text': {}, 'check': {}, 'fp2id': {}, 'show': {}}
    for k, e in enumerate(canon.expects):
        h = build(spec, False, debug)
        st, inferred = core.guarded(h.infer_from_expect, e)
        if st != 'ret':
            T['stage'][k] = ('infer', exn_canon(inferred))
            continue
        try:
            canon.inferred_json[k] = json.dumps(inferred)
        except Exception:          # noqa
            canon.inferred_json[k] = None
        st, a0 = core.guarded(h.schema_answers, inferred)
        if st != 'ret':
            T['stage'][k] = ('schema', exn_canon(a0))
            continue
        st, a = core.guarded(h.post_schema_ans_val, a0)
        if st != 'ret':
            T['stage'][k] = ('post', exn_canon(a))
            T['answers'][20 + k] = a0               # left half-validated (mutated in place)
            T['fp2id'][fp(a0, ident=False)] = 20 + k
        else:
            T['stage'][k] = ('valid', None)
            T['answers'][10 + k] = a
            T['fp2id'][fp(a, ident=False)] = 10 + k
    if configured:
        g = build(spec, True, debug)
        T['answers'][A_CFG] = g.config['answers']
        T['fp2id'][fp(g.config['answers'], ident=False)] = A_CFG
    T['fp2id'][fp((), ident=False)] = None
    for k, s in enumerate(canon.inputs):
        h = build(spec, configured, debug)
        st, v = core.guarded(h.ensure_text_inputs, s)
        T['text'][k] = None if st == 'ret' else exn_canon(v)
        T['show'][k] = s if isinstance(s, str) else str(s)
    for aid in [None] + sorted(T['answers']):
        for k, s in enumerate(canon.inputs):
            if T['text'][k] is not None:
                continue
            h = build(spec, False, debug)
            h.config['answers'] = safe_copy(T['answers'][aid]) if aid is not None else ()
            h.create_debuglog(s)
            n0 = len(h.debuglog)
            st, r = core.guarded(h.check, None, s)
            lines = canon.lines(h.debuglog[n0:])
            if st == 'ret' and isinstance(r, dict) and all(x in r for x in ('ok', 'grade_decimal', 'msg')):
                T['check'][(aid, k)] = ('ret', (r['ok'], r['grade_decimal'], r['msg']), lines)
            elif st == 'exc':
                T['check'][(aid, k)] = ('raise', exn_canon(r), lines)
            else:
                T['check'][(aid, k)] = ('odd', repr(r)[:200], lines)
    return T


# ------------------------------------------------------------------------------------------------
# Coq terms
# ------------------------------------------------------------------------------------------------
def ok_term(ok):
    return {True: 'OkTrue', False: 'OkFalse', 'partial': 'OkPartial'}.get(ok, 'OkPartial')


def exn_term(x):
    return '(mkExn %s %s %s)' % (zs(x[0]), boollit(x[1]), zs(x[2]))


def entry_term(ok, grade, msg):
    return '(mkEntry %s %s %s)' % (ok_term(ok), qlit(grade), zs(msg))


def line_term(l):
    if l[0] == 'V':
        return 'LVersion'
    if l[0] == 'D':
        return 'LDefaults'
    if l[0] == 'R':
        return '(LResp %s)' % zlit(l[1])
    if l[0] == 'I':
        return '(LInferred %s)' % zlit(l[1])
    return '(LChk %s)' % zlit(l[1])


def outcome_term(o):
    if o[0] == 'raise':
        return '(ORaise (mkExn %s true %s))' % (zs(o[1]), zs(o[2]))
    if o[0] == 'ret':
        log = 'None' if o[4] is None else '(Some %s)' % listlit([line_term(l) for l in o[4]])
        return '(ORet %s %s)' % (entry_term(o[1], o[2], o[3]), log)
    # anything else cannot be produced by the model: a marker that compares unequal to every model outcome
    return '(ORaise (mkExn %s false %s))' % (zs('<' + o[0] + '>'), zs(repr(o[1:])[:200]))


def match_fn(name, args, ret_type, rows, default):
    """Definition name (args) : ret_type := match args with rows | _ => default end."""
    names = [a for a, _ in args]
    sig = ' '.join('(%s : %s)' % (a, t) for a, t in args)
    pats = ''.join('\n  | %s => %s' % (', '.join(p), v) for p, v in rows)
    und = ', '.join('_' for _ in names)
    return 'Definition %s %s : %s :=\n  match %s with%s\n  | %s => %s\n  end.\n' % (
        name, sig, ret_type, ', '.join(names), pats, und, default)


HEADER = ('From Coq Require Import ZArith QArith List Bool.\n'
          'From Verif.Lib Require Import ProtocolSyntax.\n'
          'From Verif.Model Require Import Result Protocol.\n'
          'From Verif.Gen Require Protocol.\n'
          'Import ListNotations.\nOpen Scope Z_scope.\n')


def tables_coq(T, canon, configured, debug, has_defaults, outcomes):
    out = [HEADER]
    rows = [((zlit(k),), '(Some %s)' % exn_term(v[1])) for k, v in sorted(T['stage'].items()) if v[0] == 'infer']
    out.append(match_fn('t_infer', [('e', 'Z')], 'option exn', rows, 'None'))
    rows = []
    for k, v in sorted(T['stage'].items()):
        if v[0] == 'schema':
            rows.append(((zlit(k),), '(inl %s)' % exn_term(v[1])))
    out.append(match_fn('t_schema', [('e', 'Z')], '(exn + Z)%type', rows, '(inr (30 + e))'))
    rows = []
    for k, v in sorted(T['stage'].items()):
        if v[0] == 'post':
            rows.append(((zlit(30 + k),), '(inl (%s, %s))' % (zlit(20 + k), exn_term(v[1]))))
    out.append(match_fn('t_post', [('a', 'Z')], '((Z * exn) + Z)%type', rows,
                        '(inr (if (30 <=? a) && (a <? 40) then a - 20 else a))'))
    rows = [((zlit(k),), '(Some %s)' % exn_term(v)) for k, v in sorted(T['text'].items()) if v is not None]
    out.append(match_fn('t_text', [('s', 'Z')], 'option exn', rows, 'None'))
    rows = []
    for (aid, k), v in sorted(T['check'].items(), key=lambda kv: (kv[0][0] is not None, kv[0][0] or 0, kv[0][1])):
        a = 'None' if aid is None else '(Some %s)' % zlit(aid)
        ls = listlit([zlit(l[1]) for l in v[2] if l[0] == 'C'])
        if v[0] == 'ret':
            rows.append(((a, zlit(k)), '(CRet %s %s)' % (entry_term(*v[1]), ls)))
        elif v[0] == 'raise':
            rows.append(((a, zlit(k)), '(CRaise %s %s)' % (exn_term(v[1]), ls)))
    out.append(match_fn('t_check', [('a', 'option Z'), ('s', 'Z')], 'cres Z', rows, '(CRaise none_exn [])'))
    rows = [((zlit(k),), zs(v)) for k, v in sorted(T['show'].items())]
    out.append(match_fn('t_show', [('s', 'Z')], 'str', rows, '[]'))
    out.append('Definition t_oracles : oracles Z Z Z Z := mkOracles t_infer t_schema t_post t_text t_check t_show.\n')
    out.append('Definition t_outcomes : list (outcome Z Z Z) :=\n  [ %s ].\n' % '\n  ; '.join(outcome_term(o) for o in outcomes))
    return ''.join(out)


def zs(s):
    """Python str -> list Z literal (Z_scope is open in the case files)"""
    return '[' + '; '.join(str(ord(c)) for c in s) + ']' if s else '[]'


COMPACT = """
(* compact constructors for the case terms *)
Definition V : line Z Z Z := LVersion.
Definition D : line Z Z Z := LDefaults.
Definition R (s : Z) : line Z Z Z := LResp s.
Definition I_ (e : Z) : line Z Z Z := LInferred e.
Definition C (l : Z) : line Z Z Z := LChk l.
Definition ob (i a inf crt : Z) (lg : list (line Z Z Z)) : ZI.observed :=
  ZI.mkObs (Z.to_nat i) (if a =? 99 then None else Some a) (0 <? inf) (0 <? crt) lg.
Inductive tr := Nd : Z -> Z -> Z -> ZI.observed -> list tr -> tr.     (* node id, expect (9 = absent), input, observed, children *)
Definition evt (e s : Z) : event Z Z := (if e =? 9 then None else Some e, s).
"""

AGREE = """
(* failing node ids: the regenerated program, run on the very events, must reproduce outcome and state at every node *)
Fixpoint failing (m : state Z Z Z Z) (t : tr) : list Z :=
  match t with
  | Nd id e s o kids =>
      let '(m', out) := call @COMMON@ m (fst (evt e s)) s in
      let here := ZI.outcome_eqb out (nth (ZI.ob_outcome o) t_outcomes (ORaise none_exn)) && ZI.state_agrees m' o in
      (if here then [] else [id]) ++
      (fix go (ks : list tr) : list Z := match ks with [] => [] | k :: ks' => failing m' k ++ go ks' end) kids
  end.
Definition failing_all (ts : list tr) : list Z := flat_map (failing (init_state @CFGD@)) ts.
(* model-side search: nodes at which the regenerated program itself departs from the property *)
Fixpoint departs (done : list (event Z Z)) (m : state Z Z Z Z) (t : tr) : list Z :=
  match t with
  | Nd id e s o kids =>
      let '(m', out) := call @COMMON@ m (fst (evt e s)) s in
      let here := ZI.outcome_eqb out (spec @COMMON@ @CFGD@ done (fst (evt e s)) s) in
      (if here then [] else [id]) ++
      (fix go (ks : list tr) : list Z := match ks with [] => [] | k :: ks' => departs (done ++ [evt e s]) m' k ++ go ks' end) kids
  end.
Definition departs_all (ts : list tr) : list Z := flat_map (departs [] (init_state @CFGD@)) ts.
"""


def agree_defs(configured, debug, has_defaults):
    cfgd = '(Some %s)' % zlit(A_CFG) if configured else 'None'
    common = ('%s (mkConfig %s) t_oracles Verif.Gen.Protocol.gen_create_prog Verif.Gen.Protocol.gen_call_prog'
              % (boollit(has_defaults), boollit(debug)))
    return AGREE.replace('@COMMON@', common).replace('@CFGD@', cfgd)


def line_c(l):
    return {'V': 'V', 'D': 'D'}.get(l[0]) or '%s %d' % ({'R': 'R', 'I': 'I_', 'C': 'C'}[l[0]], l[1])


def node_term(nid, ev, ob, kids):
    e, s = ev
    oi, aid, inf, crt, log = ob
    return 'Nd %d %d %d (ob %d %d %d %d [%s]) [%s]' % (
        nid, 9 if e is None else e, s, oi, 99 if aid is None else (98 if aid < 0 else aid), int(inf), int(crt),
        '; '.join(line_c(l) for l in log), '; '.join(kids))


# ------------------------------------------------------------------------------------------------
# the sweep of one (class, configured, debug) combination -- runs in a worker process
# ------------------------------------------------------------------------------------------------
def sequences_for(spec, tier, escalate, seed, combo_name, configured=False):
    n_e = len(spec['expects'])
    primary_invalid = 2
    core_events = [(e, s) for e in (None, 0, 1, primary_invalid) for s in (0, 1, 2)]
    full_events = [(e, s) for e in [None] + list(range(n_e)) for s in (0, 1, 2, 3)]
    seqs = []
    seqs += [list(t) for t in itertools.product(full_events, repeat=2)]
    if tier == 'thorough':
        seqs += [list(t) for t in itertools.product(core_events, repeat=3 if configured else 4)]
        seqs += [list(t) for t in itertools.product(full_events, repeat=3)]
    else:
        seqs += [list(t) for t in itertools.product(core_events, repeat=3)]
    rng = random.Random('%s/%s/%s' % (seed, combo_name, tier))
    n_rand = 60 if tier == 'quick' else 600
    if escalate and tier == 'quick':
        n_rand = 150
    for _ in range(n_rand):
        n = rng.randint(4, 12)
        seqs.append([rng.choice(full_events) for _ in range(n)])
    return seqs, len(core_events), len(full_events)


def observe(g, canon, T, debug, e, s):
    ev = None if e is None else canon.expects[e]
    st, v = core.guarded(g, ev, canon.inputs[s])
    o = canon.outcome(st, v, g, debug)
    aid = T['fp2id'].get(fp(g.config['answers'], ident=False), -1)
    return (o, aid, bool(g.inferring_answers), bool(g.log_created), canon.lines(list(getattr(g, 'debuglog', []))))


def run_sequence(spec, configured, debug, canon, T, events, start=None):
    """run one history on a real instance; returns per-call (outcome, answers id, inferring, log_created, log lines)"""
    g = build(spec, configured, debug) if start is None else copy.deepcopy(start)
    return [observe(g, canon, T, debug, e, s) for (e, s) in events], g


def fresh_reference(spec, configured, debug, canon, cache, eff, s):
    """what a freshly CONSTRUCTED grader returns for (eff, input s)"""
    key = (eff, s)
    if key not in cache:
        g = build(spec, configured, debug)
        ev = None if eff is None else canon.expects[eff]
        st, v = core.guarded(g, ev, canon.inputs[s])
        cache[key] = canon.outcome(st, v, g, debug)
    return cache[key]


def demanded(spec, configured, debug, canon, T, cache, events):
    """the outcome the property demands of the last call of `events`"""
    last = None
    for (e, s) in events[:-1]:
        if e is not None and T['stage'][e][0] == 'valid':
            last = e
    e, s = events[-1]
    if configured:
        return fresh_reference(spec, configured, debug, canon, cache, None, s)
    want = fresh_reference(spec, configured, debug, canon, cache, e if e is not None else last, s)
    return strip_inferred(want) if e is None else want


def sweep_combo(args):
    name, configured, debug, tier, escalate, seed = args
    t0 = time.time()
    spec = class_specs()[name]
    canon = Canon(spec)
    T = measure_tables(spec, configured, debug, canon)
    seqs, n_core, n_full = sequences_for(spec, tier, escalate, seed, '%s/%s/%s' % (name, configured, debug), configured)
    before_settings = settings_snapshot()
    pristine = build(spec, configured, debug)
    pristine_fp = fp(pristine, ident=False)
    cache = {}
    # ---- the prefix tree of all histories
    kids = {(): []}
    for sq in seqs:
        for i in range(len(sq)):
            pre, ev = tuple(sq[:i]), sq[i]
            lst = kids.setdefault(pre, [])
            if ev not in lst:
                lst.append(ev)
                kids.setdefault(pre + (ev,), [])
    nodes = {}            # path -> (obs, bad, want)
    calls = 0

    def visit(path, g):
        nonlocal calls
        for ev in kids[path]:
            g2 = copy.deepcopy(g)
            ob = observe(g2, canon, T, debug, ev[0], ev[1])
            calls += 1
            p2 = path + (ev,)
            want = demanded(spec, configured, debug, canon, T, cache, list(p2))
            # a call cut off by the harness alarm (machine overloaded) is not evidence either way
            nodes[p2] = (ob, ob[0] != want and 'timeout' not in (ob[0][0], want[0]), want)
            if kids[p2]:
                visit(p2, g2)
    visit((), pristine)
    notes = []
    if fp(pristine, ident=False) != pristine_fp:
        notes.append('the pristine instance changed although only copies of it were called')
    # ---- cloning is only a shortcut: re-run a sample of whole histories on CONSTRUCTED instances
    rng = random.Random('%s/%s/%s/%s/check' % (seed, name, configured, debug))
    leaves = [p for p in nodes if not kids[p]]
    recheck = 0
    clone_mismatch = []
    for p in rng.sample(leaves, min(len(leaves), 40 if tier == 'quick' else 200)):
        obs, _ = run_sequence(spec, configured, debug, canon, T, list(p))
        calls += len(p)
        recheck += 1
        for i in range(len(p)):
            if obs[i] != nodes[p[:i + 1]][0]:
                clone_mismatch.append([list(ev) for ev in p[:i + 1]])
                break
    # ---- witnesses: first violating call along each path, shrunk
    verdicts = {p: v[1] for p, v in nodes.items()}

    def fails(events):
        k = tuple(events)
        if k not in verdicts:
            obs, _ = run_sequence(spec, configured, debug, canon, T, list(events), start=pristine)
            verdicts[k] = obs[-1][0] != demanded(spec, configured, debug, canon, T, cache, list(events))
        return verdicts[k]
    witnesses, wit_seen = [], set()
    stage = T['stage']
    for p in sorted(nodes, key=lambda q: (len(q), repr(q))):
        if not nodes[p][1] or any(nodes[p[:i]][1] for i in range(1, len(p))):
            continue
        hist = shrink(list(p), fails)
        key = 'history:%s/%s/%s/%s' % (name, 'configured' if configured else 'inferring',
                                       'debug' if debug else 'nodebug', json.dumps(hist))
        if key in wit_seen:
            continue
        wit_seen.add(key)
        obs, _ = run_sequence(spec, configured, debug, canon, T, hist)          # on a constructed instance
        got = obs[-1][0]
        want = demanded(spec, configured, debug, canon, T, cache, hist)
        if got == want:
            notes.append('history %r violates on a cloned instance only' % (hist,))
            continue
        witnesses.append(history_witness(name, configured, debug, canon, T, hist, got, want, key))
    after_settings = settings_snapshot()
    hostile_perturbation()
    probes = probe_outcomes()       # perturb-then-probe: the sweep above (and the hostile inputs) were the perturbation
    for k in diff_snap(before_settings, after_settings):
        witnesses.append({'key': 'settings:%s/%s' % (name, k), 'kind': 'settings', 'grader': name, 'configured': configured,
                          'debug': debug, 'setting': k, 'what': 'process-wide setting %s changed during the sweep' % k})
    # ---- Coq terms
    outcomes, oidx = [], {}
    ids, paths = {}, []
    for p in nodes:
        ids[p] = len(paths)
        paths.append(p)

    def term(p):
        ob = nodes[p][0]
        if ob[0] not in oidx:
            oidx[ob[0]] = len(outcomes)
            outcomes.append(ob[0])
        return node_term(ids[p], p[-1], (oidx[ob[0]],) + ob[1:], [term(p + (ev,)) for ev in kids[p]])

    def size(p):
        return 1 + sum(size(p + (ev,)) for ev in kids[p])
    tops = [((ev,), size((ev,))) for ev in kids[()]]
    has_defaults = bool(getattr(pristine, 'modified_defaults', None))
    top_terms = [(term(p), n) for p, n in tops]
    header = tables_coq(T, canon, configured, debug, has_defaults, outcomes) + COMPACT + agree_defs(configured, debug, has_defaults)
    sweep_seconds = time.time() - t0
    # ---- let Coq run the regenerated program on the very same tree (one stand-alone file per shard)
    t1 = time.time()
    tag = 'c11_%s_%s_%s' % (name.lower(), 'cfg' if configured else 'inf', 'dbg' if debug else 'nod')
    limit = 1400 if tier == 'quick' else 2500
    shards, cur, n = [], [], 0
    for tm, sz in top_terms:
        if cur and n + sz > limit:
            shards.append(cur)
            cur, n = [], 0
        cur.append(tm)
        n += sz
    if cur:
        shards.append(cur)
    del top_terms
    failing_paths, corr_errors, departs = [], [], 0
    for k, sh in enumerate(shards):
        text = (header + 'Definition verif_trees : list tr :=\n  [ %s ].\n' % '\n  ; '.join(sh) +
                'Eval vm_compute in (failing_all verif_trees).\n'
                'Eval vm_compute in (List.length (departs_all verif_trees)).\n')
        (fname, rc, out), = core.run_case_files([('%s_%03d' % (tag, k), text)])
        m = re.search(r'=\s*(\[.*?\]|nil)\s*:\s*list\s+Z', out, re.S) if rc == 0 else None
        if m is None:
            corr_errors.append((fname, out[-1500:]))
            continue
        bad_ids = re.findall(r'-?\d+', m.group(1))
        failing_paths += [[list(ev) for ev in paths[int(x)]] for x in bad_ids]
        if not bad_ids:
            try:                    # keep only the case files that show a disagreement
                os.remove(os.path.join(core.CASES, fname + '.v'))
            except OSError:
                pass
        m2 = re.search(r'=\s*(\d+)%nat', out)
        departs += int(m2.group(1)) if m2 else 0
    coq_seconds = time.time() - t1
    dist = {'raise': 0, 'ret': 0, 'other': 0}
    for p, v in nodes.items():
        k = v[0][0][0]
        dist['raise' if k == 'raise' else 'ret' if k == 'ret' else 'other'] += 1
    mid = paths[len(paths) // 2]
    return {'name': name, 'configured': configured, 'debug': debug,
            'failing_paths': failing_paths[:8], 'n_failing': len(failing_paths), 'corr_errors': corr_errors,
            'probes': probes,
            'departs': departs, 'shards': len(shards),
            'witnesses': witnesses, 'calls': calls, 'nodes': len(nodes),
            'histories': len(seqs), 'leaves': len(leaves), 'rechecked': recheck, 'clone_mismatch': clone_mismatch,
            'dist': dist, 'seconds': sweep_seconds, 'coq_seconds': coq_seconds, 'n_core': n_core, 'n_full': n_full,
            'notes': notes, 'violating_nodes': sum(1 for v in nodes.values() if v[1]),
            'nontrivial': sum(1 for p in nodes if len(p) >= 2 and any(nodes[p[:i + 1]][0][0][0] == 'ret'
                                                                      for i in range(len(p)))),
            'stages': {repr(canon.expects[k]): v[0] for k, v in stage.items()},
            'sample': {'calls': [[None if e is None else repr(canon.expects[e]), repr(canon.inputs[s])] for e, s in mid],
                       'observed_last': repr(nodes[mid][0])[:300], 'demanded_last': repr(nodes[mid][2])[:300]}}


def history_witness(name, configured, debug, canon, T, hist, got, want, key):
    stage = T['stage']
    return {'key': key, 'kind': 'history', 'grader': name, 'configured': configured, 'debug': debug,
            'events': [list(ev) for ev in hist],
            'calls': [[None if ee is None else repr(canon.expects[ee]), repr(canon.inputs[ss])] for ee, ss in hist],
            'stages': [None if ee is None else stage[ee][0] for ee, ss in hist],
            'text_inputs': [T['text'][ss] is None for ee, ss in hist],
            'same_verdict': got[:4] == want[:4] if got[0] == 'ret' and want[0] == 'ret' else False,
            'observed_log': None if got[0] != 'ret' or got[4] is None else [list(l) for l in got[4]],
            'observed': repr(got)[:400], 'expected_by_oracle': repr(want)[:400],
            'what': 'call %d of the history returns %s; a freshly constructed grader returns %s'
                    % (len(hist), short(got), short(want))}


def shrink(events, fails):
    """drop history events (never the last call) while the last call still violates"""
    cur = list(events)
    changed = True
    while changed:
        changed = False
        for i in range(len(cur) - 1):
            cand = cur[:i] + cur[i + 1:]
            if fails(cand):
                cur = cand
                changed = True
                break
    return cur


def short(o):
    if o[0] == 'raise':
        return '%s(%r)' % (o[1], o[2][:90])
    if o[0] == 'ret':
        if o[4] is None:
            log = ''
        else:
            # check-time entries ('C', n) are collapsed; the entries about input / expect are what matters
            ents = [l for l in o[4] if l[0] != 'C']
            log = ' log=%s+%d check entries' % (ents, len(o[4]) - len(ents))
        return 'ok=%r grade=%r msg=%r%s' % (o[1], o[2], o[3][:60], log)
    return repr(o)[:160]


# ------------------------------------------------------------------------------------------------
# mixed graders: shared subgraders, negative powers, configuration reuse, evaluator scopes
# ------------------------------------------------------------------------------------------------
class ScopeWatch:
    """wraps `evaluator` wherever the library imported it; records calls that change a scope they were handed"""

    def __init__(self):
        self.hits = []
        self.patched = []
        self.calls = 0

    def __enter__(self):
        import sys
        from mitxgraders.helpers.calc import expressions
        orig = expressions.evaluator
        watch = self

        def wrapped(formula, variables=None, functions=None, suffixes=None, *a, **k):
            before = (fp(variables), fp(functions), fp(suffixes))
            try:
                return orig(formula, variables, functions, suffixes, *a, **k)
            finally:
                watch.calls += 1
                after = (fp(variables), fp(functions), fp(suffixes))
                if before != after:
                    which = [n for n, x, y in zip(('variables', 'functions', 'suffixes'), before, after) if x != y]
                    watch.hits.append({'formula': formula, 'changed': which})
        for mname, mod in list(sys.modules.items()):
            if mname.startswith('mitxgraders') and mod is not None and getattr(mod, 'evaluator', None) is orig:
                setattr(mod, 'evaluator', wrapped)
                self.patched.append((mod, orig))
        return self

    def __exit__(self, *a):
        for mod, orig in self.patched:
            setattr(mod, 'evaluator', orig)


class WithAttempt:
    """grader(expect, 'input@n') -> grader(expect, 'input', attempt=n); lets histories vary the attempt number"""

    def __init__(self, grader):
        self._verif_inner = grader
        self.config = grader.config

    def __getattr__(self, name):
        if name.startswith('__') or name in ('_verif_inner', 'config'):
            raise AttributeError(name)
        return getattr(self._verif_inner, name)

    def __call__(self, expect, student_input):
        if isinstance(student_input, str) and '@' in student_input:
            s, n = student_input.rsplit('@', 1)
            return self._verif_inner(expect, s, attempt=int(n))
        return self._verif_inner(expect, student_input)


def author_objects(g, acc=None, _depth=0):
    """objects the author handed to grader g that are not graders themselves: comparers, sampling sets, credit
    schedules, arrays ... (found by walking the configuration, through subgraders too)"""
    import numpy as np
    from mitxgraders.baseclasses import ObjectWithSchema, AbstractGrader
    acc = {} if acc is None else acc
    g = getattr(g, '_verif_inner', g)

    def walk(o, d):
        if d > 10 or id(o) in acc:
            return
        if isinstance(o, AbstractGrader):
            if o is not g:
                acc[id(o)] = None           # visited marker; graders are compared elsewhere
            walk(getattr(o, 'config', {}), d + 1)
        elif isinstance(o, ObjectWithSchema):
            acc[id(o)] = o
            walk(getattr(o, 'config', {}), d + 1)
        elif isinstance(o, np.ndarray):
            acc[id(o)] = o
        elif isinstance(o, dict):
            for v in o.values():
                walk(v, d + 1)
        elif isinstance(o, (list, tuple, set, frozenset)):
            for v in o:
                walk(v, d + 1)
    walk(g, 0)
    return [o for o in acc.values() if o is not None]


def world_factory(kind):
    """a function building a fresh set of graders sharing subgraders; returns dict name -> grader, and call menu"""
    from mitxgraders import (StringGrader, FormulaGrader, NumericalGrader, MatrixGrader, SingleListGrader, ListGrader,
                             IntervalGrader, RealInterval)
    import numpy as np

    def shared():
        sg = StringGrader()
        fg = FormulaGrader(variables=['x'], sample_from={'x': RealInterval([1, 2])}, samples=3)
        ng = NumericalGrader()
        graders = {
            'sg': sg, 'fg': fg, 'ng': ng,
            'list_s': ListGrader(answers=['cat', 'dog'], subgraders=sg),
            'list_d': ListGrader(answers=['cat', 'dog'], subgraders=StringGrader(), debug=True),
            'list_sf': ListGrader(answers=['cat', 'x+1'], subgraders=[sg, fg], ordered=True),
            'single_s': SingleListGrader(subgrader=sg, answers=['a', 'b']),
            'single_f': SingleListGrader(subgrader=fg),
            'single_n': SingleListGrader(subgrader=ng, answers=['1', '2'], delimiter=';'),
        }
        menu = {
            'sg': ([None, 'cat', 'dog', 5], ['cat', 'dog', 'fish', NONTEXT]),
            'fg': ([None, 'x+1', '2*x', 5], ['x+1', '2*x', 'x+', '1+x']),
            'ng': ([None, '3', '4'], ['3', '4', '1+2', '(']),
            'list_s': ([None, 'ignored'], [['cat', 'dog'], ['dog', 'cat'], ['cat', 'x'], 'cat', ['cat']]),
            'list_d': ([None, 'ignored'], [['cat', 'dog'], ['dog', 'cat'], ['cat', 'x'], 'cat', ['cat']]),
            'list_sf': ([None], [['cat', 'x+1'], ['cat', '1+x'], ['dog', 'x'], ['cat', 'x+']]),
            'single_s': ([None, 'z,w'], ['a,b', 'b,a', 'a', 'a,,b', 'a,c']),
            'single_f': ([None, 'x,2*x', 'x+1,1', 'x,,1'], ['x,2*x', '2*x,x', 'x+1,1', 'x', 'x,']),
            'single_n': ([None], ['1;2', '2;1', '1;3', '1;']),
        }
        return graders, menu

    def matrices():
        A = np.array([[2.0, 1.0], [1.0, 1.0]])
        from mitxgraders import MathArray
        consts = lambda: {'A': MathArray(A.copy())}      # noqa

        def wipe(v):
            v.fill(0)
            return v
        graders = {
            'm_off': MatrixGrader(answers='A^2', user_constants=consts(), negative_powers=False, max_array_dim=2),
            'm_on': MatrixGrader(answers='A^-1', user_constants=consts(), max_array_dim=2),
            'm_off_inf': MatrixGrader(user_constants=consts(), negative_powers=False, max_array_dim=2),
            'm_quiet': MatrixGrader(answers='A', user_constants=consts(), negative_powers=False,
                                    suppress_matrix_messages=True, max_array_dim=2),
            'single_m': SingleListGrader(subgrader=MatrixGrader(user_constants=consts(), negative_powers=False,
                                                                max_array_dim=2), answers=['A', 'A^2'], delimiter=';'),
            'f_plain': FormulaGrader(answers='2^-1'),
            # an author function that modifies its argument in place: harmless as long as eval_variable hands out copies
            'm_wipe': MatrixGrader(answers='[[2,1],[1,1]]', user_constants=consts(), user_functions={'wipe': wipe},
                                   max_array_dim=2),
        }
        menu = {
            'm_off': ([None], ['A^2', 'A*A', 'A^-1', 'A^-2*A^4', 'A^', 'A+1']),
            'm_on': ([None], ['A^-1', 'A^-2*A', 'A^2', '[[1,-1],[-1,2]]', 'A^(-1']),
            'm_off_inf': ([None, 'A^2', 'A^-1', 'A'], ['A^2', 'A^-1', 'A', 'A*A^-1*A']),
            'm_quiet': ([None], ['A', 'A^-1*A*A', 'A^-1']),
            'single_m': ([None], ['A;A^2', 'A^2;A', 'A^-1;A', 'A;']),
            'f_plain': ([None], ['2^-1', '1/2', '0.5', '2^']),
            'm_wipe': ([None], ['A', 'wipe(A)', 'A+wipe(A)', 'wipe(A)+A', 'A*']),
        }
        return graders, menu

    def debugsub():
        """mixed debug flags: subgraders with debug=True shared by list graders with and without debug, used directly
        and through the lists; nested lists where only the innermost grader has debug"""
        fgd, sgd = FormulaGrader(debug=True), StringGrader(debug=True)
        inner = ListGrader(subgraders=fgd)
        graders = {
            'fgd': fgd, 'sgd': sgd,
            'single_fd': SingleListGrader(subgrader=fgd, answers=['1', '2']),
            'single_fdd': SingleListGrader(subgrader=fgd, answers=['1', '2'], debug=True),
            'list_fd': ListGrader(answers=['1', '2'], subgraders=fgd),
            'list_fdd': ListGrader(answers=['1', '2'], subgraders=fgd, debug=True),
            'list_sd': ListGrader(answers=['cat', '1'], subgraders=[sgd, fgd], ordered=True),
            'list_nest': ListGrader(answers=[['1', '2'], ['3', '4']], grouping=[1, 1, 2, 2], subgraders=inner),
            'single_nest': SingleListGrader(answers=[['1', '2'], ['3', '4']], delimiter=';',
                                            subgrader=SingleListGrader(subgrader=fgd)),
        }
        menu = {'fgd': ([None, '1', '2'], ['1', '2', '1+']), 'sgd': ([None, 'cat'], ['cat', 'dog']),
                'single_fd': ([None], ['1,2', '2,1', '1,3']), 'single_fdd': ([None], ['1,2', '1,3']),
                'list_fd': ([None], [['1', '2'], ['2', '1'], ['1', '3'], ['1', '2+']]),
                'list_fdd': ([None], [['1', '2'], ['1', '3']]),
                'list_sd': ([None], [['cat', '1'], ['dog', '1'], ['cat', '2']]),
                'list_nest': ([None], [['1', '2', '3', '4'], ['3', '4', '1', '2'], ['1', '2', '3', '5']]),
                'single_nest': ([None], ['1,2;3,4', '3,4;1,2', '1,2;3'])}
        return graders, menu

    def hostile():
        """inputs that make the parser fail in unusual ways (very deep nesting of parentheses / brackets / function calls
        around names, at several depths), next to ordinary inputs"""
        deep = []
        for d in (50, 60, 120, 250, 400):
            nest = '(' * d + 'z' + ')' * d
            # names, functions and suffixes before, inside and after the deep part
            deep += ['(' * d + 'y' + ')' * d, 'sin(' * d + 'z' + ')' * d, '[' * d + 'y+w' + ']' * d,
                     'y+w*' + nest, nest + '+y*w', 'sin(y)+cos(' + nest + ')', '[y,w,' + '[' * d + 'z' + ']' * d + ']',
                     'y^' + nest, '2k+3%*' + nest, 'q(u)*' + nest]
        graders = {
            'h_f': FormulaGrader(answers='1', variables=['y', 'z']),
            'h_m': MatrixGrader(answers='[1,2]', variables=['y']),
            'h_n': NumericalGrader(answers='1'),
            'h_sl': SingleListGrader(answers=['1', '2'], subgrader=NumericalGrader()),
        }
        menu = {'h_f': ([None], deep + ['1', '1+0*y', 'z']), 'h_m': ([None], deep[3:17] + ['[1,2]', 'y*[1,2]/y']),
                'h_n': ([None], deep[13:30] + ['1', '2']), 'h_sl': ([None], [deep[3] + ',2', '1,' + deep[14], '1,2', '2,1'])}
        return graders, menu

    def literals():
        """purely literal inputs (no variables, functions or suffixes) handed to graders whose options give the same text
        different meanings: negative powers, infinities, array dimension, shape-error handling"""
        lit = ['[[2,0],[0,2]]^-1', '[[2,0],[0,2]]^-1*[1,1]', '[[0.5,0],[0,0.5]]', '[[1,2],[3,4]]*[1,1]', '[1,2]+[1,2,3]',
               '[1,2]*[3,4]', '10^400', '1/0', '2^-1', '[[1,2],[3,4]]^2', '[3,7]', '7', '0', '[[1,2],[3,4]]^-1*[[1,2],[3,4]]',
               '[3,7,1]', '[4,6]']
        graders = {
            'np_off': MatrixGrader(answers='[[0.5,0],[0,0.5]]', negative_powers=False, max_array_dim=2),
            'np_on': MatrixGrader(answers='[[0.5,0],[0,0.5]]', max_array_dim=2),
            'np_quiet': MatrixGrader(answers='[0.5,0.5]', negative_powers=False, max_array_dim=2, suppress_matrix_messages=True),
            'dim1': MatrixGrader(answers='[3,7]'),
            'dim2': MatrixGrader(answers='[3,7]', max_array_dim=2),
            'shape_q': MatrixGrader(answers='[4,6]', shape_errors=False, max_array_dim=2),
            'shape_m': MatrixGrader(answers='[4,6]', max_array_dim=2, answer_shape_mismatch={'is_raised': False, 'msg_detail': 'shape'}),
            # suppressed matrix errors x wrong_msg ('' / two different texts)
            'sup_0': MatrixGrader(answers='[4,6]', max_array_dim=2, suppress_matrix_messages=True),
            'sup_a': MatrixGrader(answers='[4,6]', max_array_dim=2, suppress_matrix_messages=True, wrong_msg='first text'),
            'sup_b': MatrixGrader(answers='[4,6]', max_array_dim=2, suppress_matrix_messages=True, wrong_msg='second text',
                                  negative_powers=False),
            'msg_c': MatrixGrader(answers='[4,6]', max_array_dim=2, shape_errors=False, wrong_msg='third text'),
            'inf_on': FormulaGrader(answers='infty', allow_inf=True),
            'inf_off': FormulaGrader(answers='7'),
            'num': NumericalGrader(answers='0.5'),
            'f_dim': FormulaGrader(answers='11', max_array_dim=1),
        }
        menu = {n: ([None], lit) for n in graders}
        return graders, menu

    def authorobjs():
        """graders whose answers / sampling / credit use stateful author objects, each shared by two graders"""
        from mitxgraders import (LinearComparer, MatrixEntryComparer, EqualityComparer, DiscreteSet, DependentSampler,
                                 RandomFunction, SpecificFunctions, LinearCredit, GeometricCredit, ReciprocalCredit,
                                 RealVectors)
        lin = LinearComparer(proportional=0.5, offset=0.25, linear=0.1)
        mec = MatrixEntryComparer(entry_partial_credit='proportional')
        eqc = EqualityComparer(transform=np.abs)
        ri, ds = RealInterval([1, 3]), DiscreteSet((2, 3, 5))
        dep = DependentSampler(depends=['x'], formula='x+1')
        rf, spf, rv = RandomFunction(), SpecificFunctions([np.sin, np.cos]), RealVectors(shape=2)
        lc = LinearCredit(decrease_credit_after=1, decrease_credit_steps=2, minimum_credit=0.5)
        gc, rc = GeometricCredit(factor=0.5), ReciprocalCredit()
        graders = {
            'lin1': FormulaGrader(answers={'comparer': lin, 'comparer_params': ['x^2']}, variables=['x'], sample_from={'x': ri}),
            'lin2': FormulaGrader(answers={'comparer': lin, 'comparer_params': ['3*x+y']}, variables=['x', 'y'],
                                  sample_from={'x': ri, 'y': dep}),
            'mec1': MatrixGrader(answers={'comparer': mec, 'comparer_params': ['[1,2,3]']}),
            'mec2': MatrixGrader(answers={'comparer': mec, 'comparer_params': ['[x,2*x]']}, variables=['x'], sample_from={'x': ds}),
            'eq1': FormulaGrader(answers={'comparer': eqc, 'comparer_params': ['x']}, variables=['x'], sample_from={'x': ri}),
            'eq2': NumericalGrader(answers={'comparer': eqc, 'comparer_params': ['-3']}),
            'fn1': FormulaGrader(answers='f(x)+g(x)', variables=['x'], user_functions={'f': rf, 'g': spf}, sample_from={'x': ds}),
            'fn2': FormulaGrader(answers='f(2)', user_functions={'f': rf}),
            'vec1': MatrixGrader(answers='2*v', variables=['v'], sample_from={'v': rv}),
            'vec2': MatrixGrader(answers='v+[1,1]', variables=['v'], sample_from={'v': rv}),
            'cr1': WithAttempt(StringGrader(answers='cat', attempt_based_credit=lc)),
            'cr2': WithAttempt(FormulaGrader(answers='1', attempt_based_credit=lc, attempt_based_credit_msg=False)),
            'cr3': WithAttempt(StringGrader(answers=({'expect': 'cat'}, {'expect': 'dog', 'grade_decimal': 0.5}),
                                            attempt_based_credit=gc)),
            'cr4': WithAttempt(NumericalGrader(answers='2', attempt_based_credit=gc)),
            'cr5': WithAttempt(NumericalGrader(answers='2', attempt_based_credit=rc)),
            'cr6': WithAttempt(StringGrader(answers='cat', attempt_based_credit=rc)),
        }
        menu = {
            'lin1': ([None], ['x^2', '2*x^2', '0', '0*x', 'x^2+1', '3*x^2+2', 'x^']),
            'lin2': ([None], ['3*x+y', '4*x+1', '2*(4*x+1)', '0', 'x-x', '4*x', 'y', '(']),
            'mec1': ([None], ['[1,2,3]', '[1,2,4]', '[0,0,0]', '[1,2]', '0', '[1,2,']),
            'mec2': ([None], ['[x,2*x]', '[x,x]', '[0,0]', 'x', '0*[x,x]']),
            'eq1': ([None], ['x', '-x', '0', '2*x', 'x+']),
            'eq2': ([None], ['3', '-3', '0', '3.5', '']),
            'fn1': ([None], ['f(x)+g(x)', 'g(x)+f(x)', 'f(x)', '0', 'f(']),
            'fn2': ([None], ['f(2)', 'f(1+1)', '0', 'f(3)']),
            'vec1': ([None], ['2*v', 'v+v', '[0,0]', '0', 'v']),
            'vec2': ([None], ['v+[1,1]', '[1,1]+v', 'v', '0*v']),
            'cr1': ([None], ['cat@1', 'cat@2', 'cat@3', 'dog@2', 'cat@0', 'cat']),
            'cr2': ([None], ['1@1', '1@2', '1@5', '2@2', '1+@2', '1']),
            'cr3': ([None], ['cat@1', 'dog@1', 'cat@3', 'dog@3', '@2']),
            'cr4': ([None], ['2@1', '2@2', '2@4', '3@2']),
            'cr5': ([None], ['2@1', '2@3', '0@2']),
            'cr6': ([None], ['cat@1', 'cat@4', '@1']),
        }
        return graders, menu

    def options():
        """rarely used options next to plain graders of the same family"""
        # no sampled variables; instructor_vars name constants the answers use
        n_ivar = NumericalGrader(answers='2*pi', instructor_vars=['pi'])
        f_ivar = FormulaGrader(answers='c*e', user_constants={'c': 3}, instructor_vars=['c', 'e', 'i'])
        graders = {
            'f_plain': FormulaGrader(answers='2000'),
            'n_plain': NumericalGrader(answers='2000'),
            'm_plain': MatrixGrader(answers='[2000,1]'),
            'f_metric': FormulaGrader(answers='2000', metric_suffixes=True),
            'n_metric': NumericalGrader(answers='2k', metric_suffixes=True),
            'f_inf': FormulaGrader(answers='infty', allow_inf=True),
            'f_lists': FormulaGrader(answers='sin(x)+a_{1}', variables=['x'], numbered_vars=['a'], whitelist=['sin', 'cos'],
                                     forbidden_strings=['cos'], required_functions=['sin'], tolerance='1%', samples=4,
                                     failable_evals=1),
            'f_black': FormulaGrader(answers='x+c', variables=['x'], instructor_vars=['c'], user_constants={'c': 2, 'pi': None},
                                     blacklist=['tan'], suppress_warnings=True),
            'f_over': FormulaGrader(answers='e+1', user_constants={'e': 5}, user_functions={'sin': np.cos},
                                    suppress_warnings=True),
            'n_ivar': n_ivar, 'f_ivar': f_ivar,
            'sl_ivar': SingleListGrader(answers=['2*pi', 'pi'], subgrader=n_ivar),
            'l_ivar': ListGrader(answers=['2*pi', 'pi'], subgraders=n_ivar),
            'l_ivar2': ListGrader(answers=['c*e', '2*pi'], subgraders=[f_ivar, n_ivar], ordered=True),
            's_opts': StringGrader(answers='Cat  Dog', case_sensitive=False, clean_spaces=False, strip=False, wrong_msg='no'),
            's_any': StringGrader(accept_any=True, min_length=3, min_words=2, explain_minimums='msg'),
            's_all': StringGrader(answers='catdog', strip_all=True, validation_pattern='[a-z ]+', invalid_msg='letters only'),
            's_plain': StringGrader(answers='Cat  Dog'),
            'sl_opts': SingleListGrader(answers=['a', 'b', 'c'], subgrader=StringGrader(), ordered=True, length_error=True,
                                        partial_credit=False, delimiter=';'),
            'sl_miss': SingleListGrader(answers=['a', ''], subgrader=StringGrader(), missing_error=False),
            'sl_nest': SingleListGrader(answers=[['a', 'b'], ['c', 'd']], delimiter=';',
                                        subgrader=SingleListGrader(subgrader=StringGrader())),
            'l_group': ListGrader(answers=[['1', '2'], ['3', '4']], grouping=[1, 1, 2, 2],
                                  subgraders=ListGrader(subgraders=NumericalGrader()), partial_credit=False),
            'iv_opts': IntervalGrader(answers='<1,2}', opening_brackets='<[', closing_brackets='}]', delimiter=',',
                                      partial_credit=False),
            'm_opts': MatrixGrader(answers='I*[1,2]', identity_dim=2, shape_errors=False, suppress_matrix_messages=False,
                                   answer_shape_mismatch={'is_raised': False, 'msg_detail': None}),
        }
        menu = {
            'f_plain': ([None], ['2000', '2k', '2*k', 'infty', 'sin(0)+2000', 'pi-pi+2000', 'e-e+2000', '2000%*100']),
            'n_plain': ([None], ['2000', '2k', '2e3', 'infty']),
            'm_plain': ([None], ['[2000,1]', '[2k,1]', '[2000,1]*I', '[2000,1']),
            'f_metric': ([None], ['2k', '2000', '2m*1000000', '2*k']),
            'n_metric': ([None], ['2k', '2000', '2M']),
            'f_inf': ([None], ['infty', '2*infty', '1']),
            'f_lists': ([None], ['sin(x)+a_{1}', 'a_{1}+sin(x)', 'sin(x)+a_{2}', 'cos(x)', 'tan(x)', 'x']),
            'f_black': ([None], ['x+c', 'x+2', 'x+pi', 'tan(x)']),
            'f_over': ([None], ['e+1', '6', 'sin(0)+5', 'cos(0)+5']),
            'n_ivar': ([None], ['6.283185307', '3.141592654', '2*pi', '6.2831853+']),
            'f_ivar': ([None], ['8.154845485', '3*e', '3', 'c']),
            'sl_ivar': ([None], ['6.283185307,3.141592654', '3.141592654,6.283185307', '6.283185307', 'pi,2']),
            'l_ivar': ([None], [['6.283185307', '3.141592654'], ['3.141592654', '6.283185307'], ['1', '2']]),
            'l_ivar2': ([None], [['8.154845485', '6.283185307'], ['6.283185307', '8.154845485'], ['e', 'pi']]),
            's_opts': ([None], ['cat  dog', 'Cat  Dog', 'cat dog', ' cat  dog']),
            's_any': ([None, 'x'], ['a b c', 'ab', 'abc', '']),
            's_all': ([None], ['cat dog', 'catdog', 'cat1', 'c a t d o g']),
            's_plain': ([None], ['Cat  Dog', 'cat  dog', 'Cat Dog']),
            'sl_opts': ([None], ['a;b;c', 'a;c;b', 'a;b', 'a;;c']),
            'sl_miss': ([None], ['a,', ',a', 'a,b', 'a']),
            'sl_nest': ([None], ['a,b;c,d', 'c,d;a,b', 'a,b;c', 'a;b']),
            'l_group': ([None], [['1', '2', '3', '4'], ['3', '4', '1', '2'], ['1', '2', '3', '5'], ['1', '2', '3']]),
            'iv_opts': ([None], ['<1,2}', '[1,2}', '<1,2]', '(1,2)', '<1}']),
            'm_opts': ([None], ['[1,2]', 'I*[1,2]', '[1,2,3]', '1']),
        }
        return graders, menu

    def plain():
        """every grader class with default options only (probed before anything else is constructed)"""
        graders = {
            'f': FormulaGrader(answers='2000'), 'n': NumericalGrader(answers='2000'), 'm': MatrixGrader(answers='[2000,1]'),
            's': StringGrader(answers='Cat  Dog'), 'sl': SingleListGrader(answers=['a', 'b'], subgrader=StringGrader()),
            'l': ListGrader(answers=['1', '2'], subgraders=NumericalGrader()), 'iv': IntervalGrader(answers='[1,2)'),
            'fx': FormulaGrader(answers='x*sin(x)+e^x', variables=['x']),
            'inf_f': FormulaGrader(), 'inf_s': StringGrader(),
        }
        menu = {
            'f': ([None], ['2000', '2k', '2M/1000', '2000%*100', 'infty', 'pi-pi+2000', 'e-e+2000', 'i*i+2001', 'sin(0)+2e3',
                           'fact(3)+1994', 'I', 'k']),
            'n': ([None], ['2000', '2k', '20c*10000', 'infty', '2e3']),
            'm': ([None], ['[2000,1]', '[2k,1]', '[2000,1]*I', 'trans([2000,1])', '[[1,0],[0,1]]^-1*[2000,1]']),
            's': ([None], ['Cat  Dog', 'cat dog', ' Cat Dog ', '']),
            'sl': ([None], ['a,b', 'b, a', 'a', 'a,,b']),
            'l': ([None], [['1', '2'], ['2', '1'], ['1', '3'], ['1']]),
            'iv': ([None], ['[1,2)', '(1,2)', '[1,3)', '{1,2}', '[1,2']),
            'fx': ([None], ['x*sin(x)+e^x', 'sin(x)*x+exp(x)', 'x', 'y', 'x*sin(x)+e^x+1m']),
            'inf_f': (['1+2'], ['3', '3k', '4']),
            'inf_s': (['cat'], ['cat', 'Cat', 'dog']),
        }
        return graders, menu

    return {'shared': shared, 'matrices': matrices, 'debugsub': debugsub, 'authorobjs': authorobjs, 'options': options,
            'plain': plain, 'literals': literals, 'hostile': hostile}[kind]


INFERRED_LINE = re.compile(r'<br/>\\nExpect value inferred to be .*?(?=<br/>\\n|</pre>)')


def strip_inferred_any(o):
    """the debug log of a call given no expect value carries no "Expect value inferred" entry"""
    if o[0] == 'ret':
        return ('ret', INFERRED_LINE.sub('', o[1]))
    return o


def canon_any(status, value):
    """canonical outcome for mixed graders (debug logs of composite graders are compared as text)"""
    if status == 'timeout':
        return ('timeout',)
    if status == 'exc':
        return ('raise', type(value).__name__, str(value))
    return ('ret', json.dumps(value, sort_keys=True, default=repr))


def expect_stage(kind, name, expect):
    """which validation stage of a fresh grader of that world rejects this expect value ('valid' if none)"""
    graders = fresh_world(kind)
    g = graders[name]
    if not hasattr(g, 'infer_from_expect') or g.config['answers']:
        return 'ignored'
    st, v = core.guarded(g.infer_from_expect, expect)
    if st != 'ret':
        return 'infer'
    st, a = core.guarded(g.schema_answers, v)
    if st != 'ret':
        return 'schema'
    st, a = core.guarded(g.post_schema_ans_val, a)
    return 'valid' if st == 'ret' else 'post'


def valid_expect(kind, name, expect):
    """is this expect value successfully supplied to a fresh grader of that world? (inference + validation succeed)"""
    return expect_stage(kind, name, expect) == 'valid'


def replay_mixed(kind, calls):
    """run a call list [(grader name, expect, input)] on one world; return outcomes and flag/settings observations"""
    from mitxgraders.helpers.calc.math_array import MathArray
    graders, _ = world_factory(kind)()
    outs, flags = [], []
    for (n, e, s) in calls:
        st, v = core.guarded(graders[n], e, s)
        outs.append(canon_any(st, v))
        flags.append(bool(MathArray._negative_powers))
    return outs, flags, graders


_MIXED_REF = {}


def mixed_reference(kind, name, last, e, s):
    key = (kind, name, repr(last), repr(e), repr(s))
    if key not in _MIXED_REF:
        _MIXED_REF[key] = _mixed_reference(kind, name, last, e, s)
    return _MIXED_REF[key]


_PRISTINE_WORLD = {}


def fresh_world(kind):
    """a set of graders nobody has called: built once per process, handed out as deep copies (sharing inside the
    world is preserved by the copy); falls back to building when copying fails"""
    if kind not in _PRISTINE_WORLD:
        _PRISTINE_WORLD[kind] = world_factory(kind)()[0]
    try:
        return copy.deepcopy(_PRISTINE_WORLD[kind])
    except Exception:       # noqa
        return world_factory(kind)()[0]


_COPY_CHECKS = {}
COPY_UNFAITHFUL = set()


def _mixed_reference(kind, name, last, e, s):
    eff = e if e is not None else last
    if kind in COPY_UNFAITHFUL:
        st, v = core.guarded(world_factory(kind)()[0][name], eff, s)
        return canon_any(st, v)
    st, v = core.guarded(fresh_world(kind)[name], eff, s)
    out = canon_any(st, v)
    if _COPY_CHECKS.get(kind, 0) < 12:
        # copies are a shortcut: the first references of every world are recomputed on constructed graders
        _COPY_CHECKS[kind] = _COPY_CHECKS.get(kind, 0) + 1
        st2, v2 = core.guarded(world_factory(kind)()[0][name], eff, s)
        if canon_any(st2, v2) != out:
            COPY_UNFAITHFUL.add(kind)
            return canon_any(st2, v2)
    return out


def mixed_violation(kind, calls):
    """oracle for the LAST call of a mixed history: (violates?, observed, expected)"""
    outs, flags, _ = replay_mixed(kind, calls)
    n, e, s = calls[-1]
    last = None
    for (n2, e2, s2) in calls[:-1]:
        if n2 == n and e2 is not None and valid_expect(kind, n, e2):
            last = e2
    want = mixed_reference(kind, n, last, e, s)
    got = outs[-1]
    if e is None:
        got, want = strip_inferred_any(got), strip_inferred_any(want)
    return got != want, got, want


MIXED_CORPUS = [
    ('literals', [('sup_a', None, '[1,2]+[1,2,3]'), ('sup_b', None, '[1,2]+[1,2,3]')]),
    ('literals', [('sup_b', None, '[3,7,1]'), ('sup_0', None, '[3,7,1]')]),
    ('options', [('n_ivar', None, '6.283185307'), ('n_ivar', None, '6.283185307')]),
    ('options', [('sl_ivar', None, '6.283185307,3.141592654')]),
    ('hostile', [('h_f', None, 'y+w*' + '(' * 120 + 'z' + ')' * 120), ('h_n', None, '1')]),
    ('debugsub', [('fgd', '1', '1'), ('list_fd', None, ['1', '2'])]),
    ('debugsub', [('list_fdd', None, ['1', '2']), ('list_fd', None, ['1', '2'])]),
    ('debugsub', [('fgd', '1', '1'), ('list_nest', None, ['1', '2', '3', '4'])]),
    ('literals', [('np_on', None, '[[2,0],[0,2]]^-1'), ('np_off', None, '[[2,0],[0,2]]^-1')]),
    ('authorobjs', [('lin1', None, '0'), ('lin1', None, '2*x^2')]),
    ('authorobjs', [('lin1', None, '0*x'), ('lin2', None, '2*(4*x+1)')]),
    ('authorobjs', [('mec1', None, '[0,0,0]'), ('mec2', None, '[x,x]')]),
    ('options', [('f_metric', None, '2k'), ('f_plain', None, '2k')]),
    ('shared', [('list_d', None, ['cat', 'dog']), ('list_d', None, ['dog', 'cat'])]),
    ('matrices', [('m_wipe', None, 'wipe(A)'), ('m_wipe', None, 'A')]),
    ('debugsub', [('fgd', '1', '1'), ('single_fd', None, '1,2')]),
    ('shared', [('single_f', 'x,,1', 'x'), ('single_f', 'x,2*x', 'x,2*x')]),
]


def random_mixed(ctx, res, rng):
    from mitxgraders.helpers.calc.math_array import MathArray
    n_hist = {'shared': 40, 'matrices': 40, 'debugsub': 15, 'authorobjs': 40, 'options': 20, 'literals': 15, 'hostile': 8} if ctx['tier'] == 'quick' else \
        {'shared': 500, 'matrices': 500, 'debugsub': 200, 'authorobjs': 600, 'options': 300, 'literals': 300, 'hostile': 60}
    total_calls = 0
    valid_cache = {}
    # corpus: minimised histories found earlier run first, on every run
    for kind, calls in MIXED_CORPUS:
        bad, got, want = mixed_violation(kind, calls)
        res.oracle_evals += len(calls)
        if bad:
            res.witnesses.append({'key': 'mixed:%s/%s' % (kind, json.dumps(calls, default=repr)), 'kind': 'mixed', 'world': kind,
                                  'calls': [list(c) for c in calls],
                                  'stages': [None if b is None else expect_stage(kind, a, b) for a, b, c in calls],
                                  'what': 'call returns %s; the same call on a freshly built set of graders returns %s'
                                          % (repr(got)[:200], repr(want)[:200])})
    ran = {}
    with ScopeWatch() as watch:
        for kind, count in n_hist.items():
            for _ in range(count):
                ran[kind] = ran.get(kind, 0) + 1
                before_settings = settings_snapshot()
                graders, menu = world_factory(kind)()
                names = sorted(graders)
                calls = []
                last = {}
                snap = None
                n_calls = rng.randint(3, 14)
                for i in range(n_calls):
                    n = rng.choice(names)
                    exps, inps = menu[n]
                    e = rng.choice(exps) if rng.random() < 0.6 else None
                    s = rng.choice(inps)
                    if snap is None:
                        snap = {m: fp(g) for m, g in graders.items()}
                    others_before = {m: snap[m] for m in graders if m != n and not shares(graders, n, m)}
                    authors = author_objects(graders[n])
                    authors_before = [fp(o) for o in authors]
                    st, v = core.guarded(graders[n], e, s)
                    total_calls += 1
                    res.oracle_evals += 1
                    got = canon_any(st, v)
                    calls.append((n, e, s))
                    want = mixed_reference(kind, n, last.get(n), e, s)
                    if e is None:
                        got, want = strip_inferred_any(got), strip_inferred_any(want)
                    bad = None
                    if got != want and 'timeout' not in (got[0], want[0]):
                        bad = 'call returns %s; the same call on a freshly built set of graders returns %s' % (
                            repr(got)[:200], repr(want)[:200])
                    if not MathArray._negative_powers:
                        bad = 'MathArray._negative_powers is left False after the call'
                        MathArray._negative_powers = MathArray._default_negative_powers
                    snap = {m: fp(g) for m, g in graders.items()}
                    others_after = {m: snap[m] for m in others_before}
                    ch = [m for m in others_before if others_before[m] != others_after[m]]
                    if ch and bad is None:
                        bad = 'calling %s changed the state of other grader(s) %s' % (n, ch)
                    if bad is None:
                        for o, b in zip(authors, authors_before):
                            if fp(o) != b:
                                bad = ('calling %s altered an object the author supplied in its configuration: %s'
                                       % (n, describe_object_change(o, b)))
                                break
                    if bad:
                        hist = list(calls)
                        if 'freshly built' in bad:
                            changed = True
                            while changed:
                                changed = False
                                for j in range(len(hist) - 1):
                                    cand = hist[:j] + hist[j + 1:]
                                    if mixed_violation(kind, cand)[0]:
                                        hist, changed = cand, True
                                        break
                        key = 'mixed:%s/%s' % (kind, json.dumps(hist, default=repr))
                        res.witnesses.append({'key': key, 'kind': 'mixed', 'world': kind,
                                              'calls': [[a, b, c] for a, b, c in hist],
                                              'stages': [None if b is None else expect_stage(kind, a, b) for a, b, c in hist],
                                              'what': bad})
                        break
                    ck = (kind, n, repr(e))
                    if e is not None:
                        if ck not in valid_cache:
                            valid_cache[ck] = valid_expect(kind, n, e)
                        if valid_cache[ck]:
                            last[n] = e
                    res.nontrivial.add(('mixed', kind, tuple((a, repr(b), repr(c)) for a, b, c in calls)))
                for k in diff_snap(before_settings, settings_snapshot()):
                    res.witnesses.append({'key': 'settings:%s/%s' % (kind, k), 'kind': 'settings', 'world': kind,
                                          'setting': k, 'calls': [list(c) for c in calls],
                                          'what': 'process-wide setting %s changed during calls %r' % (k, calls[-3:])})
                    if k == 'MathArray._negative_powers':
                        MathArray._negative_powers = MathArray._default_negative_powers
        for h in watch.hits[:3]:
            res.witnesses.append({'key': 'scope:%s' % h['formula'], 'kind': 'scope', 'formula': h['formula'],
                                  'what': 'evaluator call changed the %s scope it was handed' % '/'.join(h['changed'])})
        res.distribution['evaluator_calls_watched'] = watch.calls
    res.distribution['mixed_histories'] = dict(n_hist)
    res.distribution['mixed_histories_run'] = dict(ran)
    if ran != n_hist:
        res.corr_errors.append(('mixed-grader histories', 'planned %r, ran %r' % (n_hist, ran)))
    if COPY_UNFAITHFUL:
        res.notes.append('reference graders of worlds %s were constructed, not copied (a copy answered differently)'
                         % sorted(COPY_UNFAITHFUL))
    res.distribution['mixed_calls'] = total_calls


def describe_object_change(o, before):
    """which attributes of an author object differ from the earlier fingerprint"""
    now = fp(o)
    if now[0] == 'obj' and before[0] == 'obj':
        a, b = dict(before[3]), dict(now[3])
        ch = sorted(k for k in set(a) | set(b) if a.get(k) != b.get(k))
        return '%s: attribute(s) %s changed' % (now[1], ch)
    return '%s changed' % (now[1] if len(now) > 1 else now[0],)


PROBE_WORLDS = ('plain', 'hostile', 'literals', 'options', 'authorobjs', 'hostile', 'shared', 'matrices', 'debugsub', 'hostile',
                'plain')


def probe_key(pos, kind, n, s):
    return '%d:%s/%s(%r)' % (pos, kind, n, s)


def parse_probe_key(k):
    import ast as _ast
    head, rest = k.split('/', 1)
    pos, kind = head.split(':', 1)
    n, arg = rest.split('(', 1)
    return int(pos), kind, n, _ast.literal_eval(arg[:-1])


def reimport_library():
    """forget every module of the library (and of voluptuous) and import it again"""
    import sys
    import importlib
    for m in [m for m in sys.modules if m.split('.')[0] in ('mitxgraders', 'voluptuous')]:
        del sys.modules[m]
    importlib.import_module('mitxgraders')


def probe_inputs(g, inputs, pos):
    """the menu inputs, and for formula-type graders an equivalent text that no other stream and no other probe pass
    ever parses (so that it is parsed for the first time right here, whatever was graded before)"""
    from mitxgraders import FormulaGrader
    short = [s for s in inputs if not (isinstance(s, str) and len(s) >= 80)]
    long_ = [s for s in inputs if isinstance(s, str) and len(s) >= 80]
    out = list(short)
    inner = getattr(g, '_verif_inner', g)
    if isinstance(inner, FormulaGrader):
        out += ['(%s)+0*%d' % (s, 7 + pos) for s in short if isinstance(s, str) and '@' not in s]
    # the long (hostile) inputs come last, so that whatever they leave behind meets the NEXT grader's first new text
    return out + long_


def hostile_perturbation():
    """the last thing a perturbing batch does before it is probed: the hostile inputs, on freshly built graders"""
    graders, menu = world_factory('hostile')()
    n = 0
    for name in sorted(graders):
        for s in menu[name][1]:
            core.guarded(graders[name], None, s)
            n += 1
    for name in sorted(graders):
        for s in [x for x in menu[name][1] if len(x) >= 80]:
            core.guarded(graders[name], None, s)
            n += 1
    return n


def probe_outcomes(order='forward', only=None):
    """a fixed set of probe calls: every grader of the mixed worlds on every input of its menu, from freshly built
    worlds, with the global RNGs seeded so that the sampled values are the same wherever the probes run.
    order: 'forward' | 'reverse' (worlds, graders and inputs all reversed); only: run just these keys, in this order"""
    import random as _random
    import numpy as np
    st_py, st_np = _random.getstate(), np.random.get_state()
    out = {}
    worlds = {}

    def world(pos, kind):
        if pos not in worlds:
            _random.seed(12345 + pos)
            np.random.seed(12345 + pos)
            graders, menu = world_factory(kind)()
            # graders without configured answers are always probed with the first expect value of their menu
            expects = {n: (next((x for x in menu[n][0] if x is not None), None)
                           if hasattr(g, 'infer_from_expect') and not g.config.get('answers') else None)
                       for n, g in graders.items()}
            worlds[pos] = (graders, menu, expects)
        return worlds[pos]

    def call(pos, kind, n, s):
        graders, menu, expects = world(pos, kind)
        g, e = graders[n], expects[n]
        h = zlib.crc32(probe_key(pos, kind, n, s).encode())     # sampled values do not depend on what ran before
        _random.seed(h)
        np.random.seed(h)
        st, v = core.guarded(g, e, s)
        out[probe_key(pos, kind, n, s)] = list(canon_any(st, v))
    try:
        if only is not None:
            for k in only:
                call(*parse_probe_key(k))
        elif order == 'isolated':
            # every grader of every world gets a library imported afresh (module-level caches, class attributes and
            # default tables as after interpreter start-up), its own freshly built world, and only its own menu
            for pos, kind in enumerate(PROBE_WORLDS):
                names = sorted(world(pos, kind)[0])
                for n in names:
                    worlds.clear()
                    reimport_library()
                    import numpy as np      # noqa
                    inps = probe_inputs(world(pos, kind)[0][n], world(pos, kind)[1][n][1], pos)
                    for s in inps:
                        call(pos, kind, n, s)
                worlds.clear()
        else:
            seq = list(enumerate(PROBE_WORLDS))
            rev = order == 'reverse'
            for pos, kind in (reversed(seq) if rev else seq):
                graders, menu, _ = world(pos, kind)
                names = sorted(graders, reverse=rev)
                for n in names:
                    inps = probe_inputs(graders[n], menu[n][1], pos)
                    for s in (reversed(inps) if rev else inps):
                        call(pos, kind, n, s)
    finally:
        _random.setstate(st_py)
        np.random.set_state(st_np)
    return out


def start_fresh_probe(order='forward', only=None):
    """the same probes in a FRESH interpreter (nothing has been graded there)"""
    import subprocess
    import sys
    code = ('import sys, json; sys.path[:0] = [%r, %r]; from harness.props import c11; '
            'sys.stdout.write("@@PROBE" + json.dumps(c11.probe_outcomes(%r, %r)))' % (core.REPO, core.VERIF, order, only))
    env = dict(os.environ, PYTHONHASHSEED='0', PYTHONDONTWRITEBYTECODE='1')
    return subprocess.Popen([sys.executable, '-B', '-c', code], stdout=subprocess.PIPE, stderr=subprocess.PIPE, env=env, text=True)


def finish_probe(proc):
    out, err = proc.communicate(timeout=900)
    if '@@PROBE' not in out:
        return None, (out + err)[-1500:]
    return json.loads(out.split('@@PROBE', 1)[1]), ''


def compare_probes(res, fresh, here, where):
    n = 0
    for k in sorted(fresh):
        if k in here and here[k] != fresh[k] and 'timeout' not in (here[k][0], fresh[k][0]):
            n += 1
            if n <= 4:
                res.witnesses.append({'key': 'probe:%s' % k, 'kind': 'probe', 'probe': k, 'where': where,
                                      'what': 'probe %s returns %s after %s, but %s as the only grader used since the library was imported'
                                              % (k, repr(here[k])[:200], where, repr(fresh[k])[:200])})
    return n


def compare_probe_isolation(res, fwd, iso):
    """a fresh interpreter ran all probes one after the other (fwd); another gave every grader a freshly imported
    library and only its own probes (iso).  A probe that comes out differently depends on what was graded before it.
    Such probes are re-run after single earlier probes in further fresh interpreters to name the call responsible."""
    diff = [k for k in fwd if k in iso and fwd[k] != iso[k] and 'timeout' not in (fwd[k][0], iso[k][0])]
    fkeys = list(fwd)
    for k in diff[:3]:
        w = {'key': 'probe-order:%s' % k, 'kind': 'probe-order', 'probe': k,
             'what': 'probe %s returns %s when it is the only grader used since the library was imported, but %s in a fresh '
                     'interpreter that ran the other probes before it' % (k, repr(iso[k])[:160], repr(fwd[k])[:160])}
        pos, kind, n, s = parse_probe_key(k)
        before = fkeys[:fkeys.index(k)]
        same_text = [p for p in before if parse_probe_key(p)[3] == s and parse_probe_key(p)[2] != n]
        others = [p for p in reversed(before) if parse_probe_key(p)[2] != n and p not in same_text]
        cands = (same_text[::-1] + others)[:48]
        procs = [(p, start_fresh_probe(only=[p, k])) for p in cands]
        for p, pr in procs:
            got, _ = finish_probe(pr)
            if got and k in got and got[k] != iso[k] and 'timeout' not in (got[k][0], iso[k][0]) and 'calls' not in w:
                w['calls'] = [p, k]
                w['what'] = ('in a fresh interpreter %s returns %s; in another fresh interpreter, right after %s, it returns %s'
                             % (k, repr(iso[k])[:160], p if len(p) < 160 else p[:80] + '...' + p[-40:], repr(got[k])[:160]))
        res.witnesses.append(w)
    return len(diff)


def shares(graders, a, b):
    """do graders a and b share an instance (one is, or contains, the other)?"""
    def parts(g, acc):
        if id(g) in acc:
            return acc
        acc[id(g)] = g
        cfg = getattr(g, 'config', {})
        for k in ('subgrader', 'subgraders'):
            v = cfg.get(k) if isinstance(cfg, dict) else None
            for x in (v if isinstance(v, list) else [v]):
                if x is not None:
                    parts(x, acc)
        return acc
    return bool(set(parts(graders[a], {})) & set(parts(graders[b], {})))


# ------------------------------------------------------------------------------------------------
# construction: the author's objects, configuration reuse, registered defaults
# ------------------------------------------------------------------------------------------------
def construction_cases():
    from mitxgraders import (StringGrader, FormulaGrader, NumericalGrader, MatrixGrader, SingleListGrader, ListGrader,
                             IntervalGrader, RealInterval, DependentSampler, MathArray)
    import numpy as np
    cases = []

    def add(name, cls, mk, calls):
        cases.append((name, cls, mk, calls))
    add('StringGrader/answers-dict', StringGrader,
        lambda: {'answers': ({'expect': ('cat', 'feline'), 'grade_decimal': 1, 'msg': 'ok'}, {'expect': 'dog', 'grade_decimal': 0.5}),
                 'wrong_msg': 'no'}, [(None, 'cat'), (None, 'dog'), (None, 'x')])
    add('StringGrader/no-answers', StringGrader, lambda: {'case_sensitive': False}, [('Cat', 'cat'), (None, 'dog')])
    add('FormulaGrader/user-constants-delete', FormulaGrader,
        lambda: {'answers': 'x+1', 'variables': ['x'], 'user_constants': {'pi': None, 'k': 3}, 'sample_from': {'x': [1, 2]},
                 'user_functions': {'f': np.tan}, 'blacklist': ['sin']}, [(None, 'x+1'), (None, 'x+k-2'), (None, 'pi')])
    add('FormulaGrader/allow-inf', FormulaGrader, lambda: {'answers': 'infty', 'allow_inf': True}, [(None, 'infty')])
    add('FormulaGrader/dependent', FormulaGrader,
        lambda: {'answers': 'x+y', 'variables': ['x', 'y'], 'sample_from': {'y': DependentSampler(depends=['x'], formula='x^2')}},
        [(None, 'x+y'), (None, 'x+x^2')])
    add('NumericalGrader', NumericalGrader, lambda: {'answers': {'expect': '3', 'msg': 'yes'}, 'tolerance': 0.1},
        [(None, '3.05'), (None, '4')])
    add('MatrixGrader/identity', MatrixGrader,
        lambda: {'answers': 'A*I', 'identity_dim': 2, 'user_constants': {'A': MathArray([[1, 2], [3, 4]])}, 'max_array_dim': 2,
                 'negative_powers': False, 'answer_shape_mismatch': {'is_raised': False, 'msg_detail': 'shape'}},
        [(None, 'A'), (None, 'A^-1'), (None, '[1,2]')])
    add('MatrixGrader/entry-partial', MatrixGrader,
        lambda: {'answers': '[1,2,3]', 'entry_partial_credit': 'proportional'}, [(None, '[1,2,4]')])
    add('SingleListGrader/nested-answers', SingleListGrader,
        lambda: {'answers': (['a', ('b', 'c')], ['d', 'e']), 'subgrader': StringGrader()}, [(None, 'a,c'), (None, 'e,d')])
    add('SingleListGrader/formula', SingleListGrader,
        lambda: {'answers': ['x', '2*x'], 'subgrader': FormulaGrader(variables=['x'])}, [(None, 'x,2*x')])
    add('ListGrader/shared-subgrader', ListGrader,
        lambda: {'answers': [['cat', 'dog'], ['a', 'b']][0:1][0], 'subgraders': StringGrader()}, [(None, ['dog', 'cat'])])
    add('ListGrader/tuple-answers', ListGrader,
        lambda: {'answers': (['1', '2'], ['3', '4']), 'subgraders': [NumericalGrader(), NumericalGrader()], 'ordered': True},
        [(None, ['1', '2']), (None, ['3', '5'])])
    add('IntervalGrader/string-answer', IntervalGrader, lambda: {'answers': '[1,2)'}, [(None, '[1,2)'), (None, '(1,2)')])
    add('IntervalGrader/list-answer', IntervalGrader,
        lambda: {'answers': [('[', {'expect': '(', 'grade_decimal': 0.5}), '1', '2', ')'], 'subgrader': FormulaGrader()},
        [(None, '[1,2)'), (None, '(1,2)')])
    add('FormulaGrader/metric-suffixes', FormulaGrader, lambda: {'answers': '2k', 'metric_suffixes': True},
        [(None, '2000'), (None, '2k'), (None, '2M')])
    add('NumericalGrader/metric-suffixes', NumericalGrader, lambda: {'answers': '1m', 'metric_suffixes': True, 'tolerance': '1%'},
        [(None, '0.001'), (None, '1m')])
    add('FormulaGrader/lists-and-restrictions', FormulaGrader,
        lambda: {'answers': 'sin(x)+a_{1}', 'variables': ['x'], 'numbered_vars': ['a'], 'whitelist': ['sin', 'cos'],
                 'forbidden_strings': ['cos'], 'required_functions': ['sin'], 'tolerance': '1%', 'samples': 4, 'failable_evals': 1,
                 'instructor_vars': ['x'], 'sample_from': {'x': [1, 2], 'a': (1, 2, 3)}},
        [(None, 'sin(x)+a_{1}'), (None, 'cos(x)'), (None, 'tan(x)')])
    add('FormulaGrader/overrides', FormulaGrader,
        lambda: {'answers': 'e+1', 'user_constants': {'e': 5}, 'user_functions': {'sin': np.cos, 'h': [np.sin, np.cos]},
                 'suppress_warnings': True, 'blacklist': ['tan']}, [(None, '6'), (None, 'sin(0)+5'), (None, 'tan(1)')])
    add('StringGrader/options', StringGrader,
        lambda: {'answers': ('Cat  Dog', {'expect': 'x', 'grade_decimal': 0.5, 'msg': 'half'}), 'case_sensitive': False,
                 'clean_spaces': False, 'strip': False, 'wrong_msg': 'no', 'validation_pattern': '[A-Za-z ]+',
                 'explain_validation': 'msg', 'invalid_msg': 'letters'}, [(None, 'cat  dog'), (None, 'x'), (None, '12')])
    add('StringGrader/accept-any', StringGrader,
        lambda: {'accept_any': True, 'min_length': 3, 'min_words': 2, 'explain_minimums': 'msg'}, [(None, 'a b c'), (None, 'ab')])
    add('SingleListGrader/options', SingleListGrader,
        lambda: {'answers': ['a', 'b', 'c'], 'subgrader': StringGrader(), 'ordered': True, 'length_error': True,
                 'partial_credit': False, 'delimiter': ';', 'missing_error': False}, [(None, 'a;b;c'), (None, 'a;c;b'), (None, 'a;b')])
    add('SingleListGrader/nested', SingleListGrader,
        lambda: {'answers': [['a', 'b'], ['c', 'd']], 'delimiter': ';', 'subgrader': SingleListGrader(subgrader=StringGrader())},
        [(None, 'a,b;c,d'), (None, 'a;b')])
    add('ListGrader/grouping', ListGrader,
        lambda: {'answers': [['1', '2'], ['3', '4']], 'grouping': [1, 1, 2, 2], 'subgraders': ListGrader(subgraders=NumericalGrader()),
                 'partial_credit': False}, [(None, ['1', '2', '3', '4']), (None, ['1', '2', '3', '5'])])
    add('IntervalGrader/brackets', IntervalGrader,
        lambda: {'answers': '<1,2}', 'opening_brackets': '<[', 'closing_brackets': '}]', 'partial_credit': False},
        [(None, '<1,2}'), (None, '[1,2}'), (None, '(1,2)')])
    add('MatrixGrader/quiet', MatrixGrader,
        lambda: {'answers': '[1,2]', 'shape_errors': False, 'suppress_matrix_messages': True, 'max_array_dim': 2,
                 'answer_shape_mismatch': {'is_raised': False, 'msg_detail': None}}, [(None, '[1,2]'), (None, '[1,2,3]'), (None, '1')])
    add('IntervalGrader/inferred', IntervalGrader, lambda: {'partial_credit': False}, [('[1,2]', '[1,2]'), (None, '[1,3]')])
    return cases


def construction_checks(ctx, res):
    """the author's configuration objects are never altered by construction or grading; one dictionary can
    configure several graders; registered defaults and the other settings survive"""
    for name, cls, mk, calls in construction_cases():
        for mode in ('dict', 'kwargs', 'dict-twice'):
            cfg = mk()
            before = fp(cfg)
            before_settings = settings_snapshot()
            st, g = core.guarded(lambda: cls(cfg) if mode != 'kwargs' else cls(**cfg))
            res.oracle_evals += 1
            if st != 'ret':
                # a case that can no longer be built is a hole in the stream: report it, never skip silently
                res.corr_errors.append(('construction case %s/%s' % (name, mode), 'did not construct: %r' % (g,)))
                continue
            what = None
            if fp(cfg) != before:
                what = "construction changed the author's configuration object: %s" % describe_change(before, fp(cfg))
            g2 = None
            if what is None and mode == 'dict-twice':
                st2, g2 = core.guarded(lambda: cls(cfg))
                if st2 != 'ret':
                    what = 'the same configuration dictionary cannot configure a second grader: %r' % (g2,)
                    g2 = None
            if what is None:
                for (e, s) in calls:
                    st3, v = core.guarded(g, e, s)
                    res.oracle_evals += 1
                    if fp(cfg) != before:
                        what = "grading changed the author's configuration object: %s" % describe_change(before, fp(cfg))
                        break
                    if g2 is not None:
                        ref = cls(mk())
                        for (e0, s0) in calls[:calls.index((e, s))]:
                            core.guarded(ref, e0, s0)
                        # the second grader built from the same dictionary answers like an independent one
                        st4, v4 = core.guarded(g2, e, s)
                        st5, v5 = core.guarded(cls(mk()), e, s)
                        if canon_any(st4, v4) != canon_any(st5, v5) and not calls_need_history(calls):
                            what = 'a second grader built from the same dictionary returns %s, an independent one %s' % (
                                repr(canon_any(st4, v4))[:150], repr(canon_any(st5, v5))[:150])
                            break
            after_settings = settings_snapshot()
            d = diff_snap(before_settings, after_settings)
            if d and what is None:
                what = 'process-wide settings changed: %s' % ', '.join(
                    '%s (%s)' % (k, describe_setting_change(before_settings.get(k), after_settings.get(k))) for k in d)
            if 'MathArray._negative_powers' in d:
                from mitxgraders.helpers.calc.math_array import MathArray
                MathArray._negative_powers = MathArray._default_negative_powers
            if what:
                res.witnesses.append({'key': 'construct:%s/%s' % (name, mode), 'kind': 'construct', 'case': name,
                                      'mode': mode, 'grader': cls.__name__, 'what': what})
            res.nontrivial.add(('construct', name, mode))
    # registered defaults: each class has its own table; construction reads them and leaves them alone
    from mitxgraders import StringGrader, FormulaGrader, NumericalGrader
    from mitxgraders.baseclasses import ItemGrader, AbstractGrader
    before = settings_snapshot()
    try:
        ItemGrader.register_defaults({'wrong_msg': 'W'})
        StringGrader.register_defaults({'case_sensitive': False})
        mid = settings_snapshot()
        r1 = core.guarded(lambda: StringGrader(answers='Cat')(None, 'cat'))
        r2 = core.guarded(lambda: FormulaGrader(answers='1')(None, '2'))
        r3 = core.guarded(lambda: StringGrader(answers='Cat', case_sensitive=True, wrong_msg='mine')(None, 'cat'))
        res.oracle_evals += 3
        what = None
        if diff_snap(mid, settings_snapshot()):
            what = 'construction/grading changed registered defaults: %s' % diff_snap(mid, settings_snapshot())
        elif not (r1[0] == 'ret' and r1[1]['ok'] is True):
            what = 'default case_sensitive=False registered on StringGrader not applied to a StringGrader: %r' % (r1[1],)
        elif not (r2[0] == 'ret' and r2[1]['msg'] == 'W'):
            what = ('a FormulaGrader built while defaults are registered on ItemGrader (wrong_msg) and on StringGrader '
                    '(case_sensitive) should only see the former: %r' % (r2[1],))
        elif not (r3[0] == 'ret' and r3[1]['ok'] is False and r3[1]['msg'] == 'mine'):
            what = 'explicit configuration does not override registered defaults: %r' % (r3[1],)
        elif sorted(diff_snap(before, mid)) != ['ItemGrader.default_values', 'StringGrader.default_values']:
            what = 'register_defaults touched other classes: %s' % diff_snap(before, mid)
        if what:
            res.witnesses.append({'key': 'defaults:register', 'kind': 'defaults', 'what': what})
    finally:
        for c in all_schema_classes():
            if vars(c).get('default_values') is not None:
                c.clear_registered_defaults()
    if diff_snap(before, settings_snapshot()):
        res.witnesses.append({'key': 'defaults:clear', 'kind': 'defaults',
                              'what': 'clear_registered_defaults does not restore: %s' % diff_snap(before, settings_snapshot())})


def calls_need_history(calls):
    return any(e is not None for e, _ in calls)


def describe_change(a, b):
    if a[0] == 'dict' and b[0] == 'dict':
        ka = dict((k, v) for k, v in a[1])
        kb = dict((k, v) for k, v in b[1])
        def nm(k):
            return k[1][1:-1] if k[0] == 'str' and len(k[1]) >= 2 else k[1]
        added = [nm(k) for k in kb if k not in ka]
        removed = [nm(k) for k in ka if k not in kb]
        changed = [nm(k) for k in ka if k in kb and ka[k] != kb[k]]
        return 'keys added %s, removed %s, changed %s' % (added, removed, changed)
    return 'value changed'


# ------------------------------------------------------------------------------------------------
# run
# ------------------------------------------------------------------------------------------------
def history_corpus(res):
    """minimised histories that went wrong before the fixes: run on constructed instances on every run; they must pass"""
    specs = class_specs()
    for name, configured, debug, events in HISTORY_CORPUS:
        spec = specs[name]
        canon = Canon(spec)
        T = measure_tables(spec, configured, debug, canon)
        cache = {}
        for i in range(1, len(events) + 1):
            hist = [tuple(ev) for ev in events[:i]]
            obs, _ = run_sequence(spec, configured, debug, canon, T, hist)
            want = demanded(spec, configured, debug, canon, T, cache, hist)
            res.oracle_evals += 1
            if obs[-1][0] != want and 'timeout' not in (obs[-1][0][0], want[0]):
                key = 'history:%s/%s/%s/%s' % (name, 'configured' if configured else 'inferring',
                                               'debug' if debug else 'nodebug', json.dumps(hist))
                res.witnesses.append(history_witness(name, configured, debug, canon, T, hist, obs[-1][0], want, key))
                break
    res.distribution['corpus_histories'] = len(HISTORY_CORPUS)


def combos():
    out = []
    for name in ['StringGrader', 'FormulaGrader', 'NumericalGrader', 'MatrixGrader', 'SingleListGrader', 'IntervalGrader']:
        for configured in (False, True):
            for debug in (False, True):
                out.append((name, configured, debug))
    return out


def run(ctx):
    res = core.Result()
    seed = ctx['seed']
    rng = random.Random(1000003 * seed + 11)
    res.rule = ('sweep: per item-grader class x configured/inferring x debug on/off, the prefix tree of every history over the '
                'event alphabet (expect in {absent, valid, another valid, each kind of invalid} x input in {matches first, '
                'matches second, malformed text, non-text}) of length 2, every history of length 3 (thorough: 4, and '
                'full-alphabet 3) over the 12-event core alphabet, plus seeded random histories of length 4-12; one case per '
                'tree node (= one call after one history); a node is non-trivial when its history has at least two calls of '
                'which at least one returns a grade. mixed: random interleavings over graders sharing subgraders / matrix '
                'graders with negative powers off and on; construction: distinct (case, mode).')
    fresh_proc = start_fresh_probe('forward')
    fresh_iso = start_fresh_probe('isolated')
    baseline = settings_snapshot()
    jobs = [(n, c, d, ctx['tier'], bool(ctx['escalate']), seed) for (n, c, d) in combos()]
    t0 = time.time()
    with multiprocessing.get_context('fork').Pool(min(core.NPROC, len(jobs))) as pool:
        pending = pool.map_async(sweep_combo, jobs, chunksize=1)
        # while the workers sweep: corpus, construction and mixed-grader batches in this process, then its probes
        t2 = time.time()
        history_corpus(res)
        construction_checks(ctx, res)
        res.distribution['construction_wall_s'] = round(time.time() - t2, 1)
        t3 = time.time()
        random_mixed(ctx, res, rng)
        res.distribution['mixed_wall_s'] = round(time.time() - t3, 1)
        main_nontrivial = len(res.nontrivial)
        end_settings = settings_snapshot()
        for k in diff_snap(baseline, end_settings):
            res.witnesses.append({'key': 'settings:run/%s' % k, 'kind': 'settings', 'setting': k,
                                  'what': 'process-wide setting %s is not what it was before this run constructed and called '
                                          'graders: %s' % (k, describe_setting_change(baseline.get(k), end_settings.get(k)))})
        res.oracle_evals += hostile_perturbation()
        main_probes = probe_outcomes()
        results = pending.get()
    sweep_s = time.time() - t0
    sweep_nontrivial = 0
    departs = 0
    for r in results:
        res.witnesses += r['witnesses']
        res.oracle_evals += r['calls']
        res.programs += r['nodes']
        key = '%s/%s/%s' % (r['name'], 'configured' if r['configured'] else 'inferring', 'debug' if r['debug'] else 'nodebug')
        res.distribution.setdefault('sweep', {})[key] = {
            'histories': r['histories'], 'tree_nodes': r['nodes'], 'calls_run': r['calls'], 'outcomes': r['dist'],
            'nodes_violating_the_property': r['violating_nodes'],
            'nodes_where_the_regenerated_program_departs_from_the_property': r['departs'],
            'histories_rerun_on_constructed_instances': r['rechecked'], 'coq_files': r['shards'],
            'sweep_cpu_s': round(r['seconds'], 1), 'coq_s': round(r['coq_seconds'], 1)}
        sweep_nontrivial += r['nontrivial']
        departs += r['departs']
        res.notes += ['%s: %s' % (key, n) for n in r['notes']]
        res.corr_errors += r['corr_errors']
        for m in r['clone_mismatch'][:3]:
            res.disagreements.append({'kind': 'clone-vs-constructed', 'grader': r['name'], 'configured': r['configured'],
                                      'debug': r['debug'], 'events': m})
        for ev in r['failing_paths'][:5]:
            res.disagreements.append({'kind': 'history', 'grader': r['name'], 'configured': r['configured'],
                                      'debug': r['debug'], 'events': ev})
        if r['n_failing'] > 5:
            res.disagreements.append({'kind': 'history', 'grader': r['name'], 'more': r['n_failing'] - 5})
        if not r['n_failing'] and not r['corr_errors'] and r['departs'] != r['violating_nodes']:
            # the program agrees with the implementation at every node, so both must fail the property at the same nodes
            res.disagreements.append({'kind': 'violation-count', 'grader': r['name'], 'configured': r['configured'],
                                      'debug': r['debug'], 'model': r['departs'], 'implementation': r['violating_nodes']})
    res.distribution['expect_stages'] = {r['name']: r['stages'] for r in results if not r['configured'] and not r['debug']}
    res.distribution['sweep_and_coq_wall_s'] = round(sweep_s, 1)
    res.distribution['coq_case_files'] = sum(r['shards'] for r in results)
    smp = results[17]
    res.samples.append({'grader': smp['name'], 'configured': smp['configured'], 'debug': smp['debug'], 'history': smp['sample']})
    res.distribution['nodes_where_the_regenerated_program_departs_from_the_property'] = departs
    res.exhaustive = True
    # perturb-then-probe: the probes after everything this process and the sweep workers have done, against the
    # same probes in an interpreter that has graded nothing
    t4 = time.time()
    fresh, err1 = finish_probe(fresh_proc)
    iso, err2 = finish_probe(fresh_iso)
    if fresh is None or iso is None:
        res.corr_errors.append(('fresh-interpreter probes', err1 + err2))
    elif set(fresh) != set(iso) or set(main_probes) != set(iso) or any(set(r['probes']) != set(iso) for r in results):
        res.corr_errors.append(('fresh-interpreter probes', 'the probe streams do not cover the same calls: %d isolated, %d in '
                                'sequence, %d in this process, %s in the sweep workers'
                                % (len(iso), len(fresh), len(main_probes), sorted(set(len(r['probes']) for r in results)))))
    else:
        # every stream of probes is compared with the probes run in isolation
        differing = compare_probes(res, iso, main_probes, 'the construction and mixed-grader batches of this run')
        for r in results:
            differing += compare_probes(res, iso, r['probes'], 'the %s sweep (%s, %s)' % (
                r['name'], 'configured' if r['configured'] else 'inferring', 'debug' if r['debug'] else 'no debug'))
        order_dependent = compare_probe_isolation(res, fresh, iso)
        res.oracle_evals += len(fresh) * (2 + len(results))
        res.distribution['probes'] = {'probe_calls': len(fresh), 'batches_probed': 1 + len(results), 'differing': differing,
                                      'fresh_interpreters': 2, 'history_dependent_in_a_fresh_interpreter': order_dependent}
    res.distribution['probe_wall_s'] = round(time.time() - t4, 1)
    res.nontrivial = sweep_nontrivial + main_nontrivial
    by = {}
    for w in res.witnesses:
        by[w.get('kind', '?')] = by.get(w.get('kind', '?'), 0) + 1
    res.distribution['witnesses_by_kind'] = by
    # shortest witnesses first, one per (kind, grader/world) before the rest (the driver prints the first few)
    first, rest, seen = [], [], set()
    for w in sorted(res.witnesses, key=lambda w: (len(w.get('events', w.get('calls', []))), w.get('key', ''))):
        k = (w.get('kind'), w.get('grader'), w.get('world'), w.get('debug'))
        if k not in seen:
            seen.add(k)
            first.append(w)
        else:
            rest.append(w)
    res.witnesses = first + rest
    return res


# ------------------------------------------------------------------------------------------------
# replay / known findings
# ------------------------------------------------------------------------------------------------
def replay(w):
    kind = w.get('kind')
    if kind == 'history':
        spec = class_specs()[w['grader']]
        canon = Canon(spec)
        T = measure_tables(spec, w['configured'], w['debug'], canon)
        events = [tuple(e) for e in w['events']]
        obs, _ = run_sequence(spec, w['configured'], w['debug'], canon, T, events)
        want = demanded(spec, w['configured'], w['debug'], canon, T, {}, events)
        got = obs[-1][0]
        calls = [(None if ee is None else canon.expects[ee], canon.inputs[ss]) for ee, ss in events]
        return got != want, ('%s(%s%s): calls %r\n  reused grader, last call : %s\n  fresh grader            : %s'
                             % (w['grader'], 'answers configured' if w['configured'] else 'no answers',
                                ', debug=True' if w['debug'] else '', calls, short(got), short(want)))
    if kind == 'mixed':
        calls = [tuple(c) for c in w['calls']]
        bad, got, want = mixed_violation(w['world'], calls)
        return bad, 'world %s, calls %r\n  reused graders, last call: %r\n  freshly built graders    : %r' % (
            w['world'], calls, got, want)
    if kind == 'construct':
        res = core.Result()
        construction_checks({'tier': 'quick'}, res)
        hit = [x for x in res.witnesses if x['key'] == w['key']]
        return bool(hit), (hit[0]['what'] if hit else 'construction case %s is clean on the current tree' % w['key'])
    if kind == 'probe':
        res = core.Result()
        proc = start_fresh_probe('isolated')
        construction_checks({'tier': 'quick'}, res)
        random_mixed({'tier': 'quick'}, res, random.Random(11))
        fresh, _ = finish_probe(proc)
        here = probe_outcomes()
        k = w['probe']
        return here.get(k) != fresh.get(k), 'probe %s: after a perturbing batch %r, in a fresh interpreter %r' % (
            k, here.get(k), fresh.get(k))
    if kind == 'probe-order':
        k = w['probe']
        alone, _ = finish_probe(start_fresh_probe(only=[k]))
        seq = w.get('calls')
        if seq:
            after, _ = finish_probe(start_fresh_probe(only=seq))
        else:
            after, _ = finish_probe(start_fresh_probe('forward'))
        return after[k] != alone[k], 'fresh interpreter: %s alone -> %r; after %s -> %r' % (
            k, alone[k], seq[0] if seq else 'the other probes', after[k])
    if kind in ('settings', 'scope', 'defaults'):
        res = core.Result()
        construction_checks({'tier': 'quick'}, res)
        random_mixed({'tier': 'quick'}, res, random.Random(11))
        hit = [x for x in res.witnesses if x['kind'] == kind]
        return bool(hit), 'witnesses of kind %s on the current tree: %d %r' % (kind, len(hit), hit[:1])
    return False, 'unknown witness kind %r' % (kind,)


def classify_known(w, known_entries):
    """no C11 defect is known: every witness is a violation"""
    return None
