"""C01 helper: the registered-defaults stream of the debug clause.

`SomeClass.register_defaults({...})` makes every later constructor of that class and its subclasses start from the
registered dictionary.  The debug clause must survive that: a grader that was NOT configured with debug=True must have
config['debug'] == False and must not put any log text into a message, whatever was registered (a harmless key), on
whichever level (the class itself / a superclass), and whatever other graders (debug=True ones in particular) were built
before or after it.  Scenarios are enumerated exhaustively (no randomness); every registration is cleared in a finally.
"""
import copy

from harness import core

SPECS = {
    'StringGrader': ({'answers': {'expect': 'cat', 'msg': 'meow'}}, ['cat', 'dog']),
    'FormulaGrader': ({'answers': 'x+1', 'variables': ['x'], 'samples': 2}, ['x+1', '2*x']),
    'NumericalGrader': ({'answers': '2'}, ['2', '3']),
    'MatrixGrader': ({'answers': '[1,2]', 'samples': 2}, ['[1,2]', '[1,3]']),
    'SingleListGrader': ({'answers': ['a', 'b'], 'subgrader': 'SUB'}, ['a,b', 'b,c']),
    'IntervalGrader': ({'answers': '[1,2)'}, ['[1,2)', '(1,3)']),
    'ListGrader': ({'answers': ['a', 'b'], 'subgraders': 'SUB'}, [['a', 'b'], ['b', 'z']]),
    'SumGrader': ({'answers': {'lower': '1', 'upper': '4', 'summand': 'n', 'summation_variable': 'n'},
                   'input_positions': {'summand': 1}}, ['n', 'n+1']),
}
# family -> (classes of the family, superclasses on which a default is registered as well)
FAMILIES = [
    ('string', ['StringGrader'], ['ItemGrader', 'AbstractGrader']),
    ('math', ['FormulaGrader', 'NumericalGrader', 'MatrixGrader'], ['ItemGrader', 'AbstractGrader']),
    ('singlelist', ['SingleListGrader', 'IntervalGrader'], ['ItemGrader', 'AbstractGrader']),
    ('list', ['ListGrader'], ['AbstractGrader']),
    ('sum', ['SumGrader'], ['SummationGraderBase', 'AbstractGrader']),
]
ORDERS = ['debug-first', 'plain-first', 'second-registration']


def classes():
    import mitxgraders
    from mitxgraders.baseclasses import ObjectWithSchema, AbstractGrader, ItemGrader
    from mitxgraders.formulagrader.integralgrader import SummationGraderBase
    out = {'ObjectWithSchema': ObjectWithSchema, 'AbstractGrader': AbstractGrader, 'ItemGrader': ItemGrader,
           'SummationGraderBase': SummationGraderBase}
    for name in SPECS:
        out[name] = getattr(mitxgraders, name)
    return out


def harmless_default(target):
    """a key that is valid for the target class and all its subclasses and has nothing to do with debugging"""
    if target in ('FormulaGrader', 'NumericalGrader', 'MatrixGrader', 'SumGrader', 'SummationGraderBase'):
        return {'tolerance': '2%'}
    if target in ('ItemGrader', 'StringGrader', 'SingleListGrader', 'IntervalGrader'):
        return {'wrong_msg': 'Try again'}
    return {'suppress_warnings': True}


def clear_all(cls):
    for c in cls.values():
        c.clear_registered_defaults()


def make(cls, name, form, **extra):
    """construct a grader of class `name` from its fixed valid configuration; form = 'kwargs' | 'dict'"""
    opts = copy.deepcopy(SPECS[name][0])
    for k, v in list(opts.items()):
        if v == 'SUB':
            opts[k] = cls['StringGrader']()
    opts.update(extra)
    if form == 'dict':
        return cls[name](opts)
    return cls[name](**opts)


def scenarios():
    out = []
    for fam, members, supers in FAMILIES:
        for target in members + supers:
            for dbg in members:
                for order in ORDERS:
                    out.append((fam, target, dbg, order))
    return out


def run_scenario(sc, check_call):
    """returns (witnesses, counters).  check_call(grader, spec_like, input) -> list of (kind, what) on a returned call,
    or None when the call raised."""
    fam, target, dbg, order = sc
    members = [m for f, ms, _ in FAMILIES if f == fam for m in ms]
    supers = [s for f, _, ss in FAMILIES if f == fam for s in ss]
    cls = classes()
    found, n = [], {'built': 0, 'rejected': 0, 'calls': 0, 'returned': 0}

    def plain(name, form, tag):
        st, g = core.guarded(make, cls, name, form)
        if st != 'ret':
            n['rejected'] += 1          # a valid configuration refused after the registrations: counted, not a C01 matter
            return None
        n['built'] += 1
        if g.config.get('debug') is not False:
            found.append(('debug-default', '%s: %s built (%s form) WITHOUT a debug key has config[\'debug\'] = %r'
                          % (tag, name, form, g.config.get('debug')), name, form))
        return g

    def exercise(g, name, form, tag):
        for x in SPECS[name][1]:
            n['calls'] += 1
            bad = check_call(g, {'cls': name, 'opts': {}}, x)
            if bad is None:
                continue
            n['returned'] += 1
            for kind, what in bad:
                found.append((kind, '%s: %s (%s form) on %r: %s' % (tag, name, form, x, what), name, form))

    clear_all(cls)
    try:
        cls[target].register_defaults(harmless_default(target))
        early = None
        if order == 'plain-first':
            early = [(m, f, plain(m, f, 'built before the debug=True grader')) for m in members for f in ('kwargs', 'dict')]
        st, gd = core.guarded(make, cls, dbg, 'kwargs', debug=True)
        if st == 'ret':
            n['built'] += 1
            core.guarded(gd, None, SPECS[dbg][1][0])            # the debug grader itself may of course show its log
        else:
            n['rejected'] += 1
        if order == 'second-registration':
            other = [t for t in members + supers if t != target]
            cls[other[0] if other else target].register_defaults({'suppress_warnings': True})
        if early:
            for m, f, g in early:
                if g is not None:
                    exercise(g, m, f, 'built before, called after the debug=True grader')
        for m in members:
            for f in ('kwargs', 'dict'):
                g = plain(m, f, 'built after the debug=True grader')
                if g is not None:
                    exercise(g, m, f, 'built after the debug=True grader')
    finally:
        clear_all(cls)
    return found, n
