"""C15 -- built-in functions and constants.
Tie (A): Gen/MathFuncs.v regenerated from mathfuncs.py / expressions.py (derived functions, tables, handlers, numpy error
state).  Tie (B): three correspondence streams evaluated inside Coq on the very calls the implementation ran --
  exact    : wrapper verdicts (arity / shape / recast class), exact functions and the derived functions replayed over
             Gaussian rationals with the recorded numpy calls as oracle answers (vm_compute);
  interval : forward functions and identities f(f_inverse(z)) = z on real and complex points, certified by Interval on
             the regenerated definitions read over the reals / pairs of reals;
  tables   : the runtime tables of the three grader families against the regenerated tables.
Property oracle: harness/mathfuncs_oracle.py (cmath / Fraction references, identities), independent of numpy.
"""
import builtins
import math
import random
import re
import warnings
from fractions import Fraction

from harness import core
from harness import mathfuncs_gen as G
from harness import mathfuncs_oracle as O
from harness.core import boollit, listlit, natlit
from translate import mathfuncs as tr_mathfuncs

ID = 'C15'
PROPS = 'Props/C15.v'
TRANSLATORS = [('Gen/MathFuncs.v', tr_mathfuncs.generate)]
MIRRORED = [('mitxgraders/helpers/calc/mathfuncs.py', '*'),
            ('mitxgraders/helpers/calc/specify_domain.py', 'SpecifyDomain.make_decorator'),
            ('mitxgraders/helpers/calc/specify_domain.py', 'number_validator'),
            ('mitxgraders/helpers/calc/specify_domain.py', 'make_shape_validator'),
            ('mitxgraders/helpers/calc/specify_domain.py', 'has_shape'),
            ('mitxgraders/helpers/calc/math_array.py', 'is_numberlike_array'),
            ('mitxgraders/helpers/calc/math_array.py', 'is_square'),
            ('mitxgraders/helpers/calc/expressions.py', 'MathExpression.eval_function'),
            ('mitxgraders/helpers/calc/expressions.py', 'MathExpression.validate_function_call'),
            ('mitxgraders/helpers/calc/expressions.py', 'MathExpression.eval_node'),
            ('mitxgraders/helpers/calc/expressions.py', 'handle_np_floating_errors'),
            ('mitxgraders/helpers/get_number_of_args.py', 'get_number_of_args'),
            ('mitxgraders/formulagrader/matrixgrader.py', 'MatrixGrader.check_response'),
            ('mitxgraders/helpers/calc/math_array.py', 'MathArray.__pow__')]
REFUTED = []
TRUSTED = [
    'translator translate/mathfuncs.py (Python ast -> Gallina: derived functions over a record of numpy primitives, tables, '
    'try/except handlers, np.seterr state); fail-closed',
    'correspondence harness harness/props/c15.py (+ mathfuncs_gen.py, mathfuncs_oracle.py): floats enter Coq as exact dyadic '
    'rationals; agreement decided in Coq (vm_compute within 1e-12 relative for the exact stream, Interval enclosures at 100 bits '
    'within 1e-9 mixed tolerance + conditioning for the transcendental stream); numpy calls made inside mathfuncs.py are recorded '
    'by replacing the module global `np` with a recording proxy for the duration of the call',
    'axioms under Print Assumptions: the classical real numbers of the standard library (ClassicalDedekindReals.sig_forall_dec, '
    'sig_not_dec, FunctionalExtensionality.functional_extensionality_dep, Classical_Prop.classic) for every theorem over R; '
    'the run-time Interval certificates (case files, not Props) additionally rest on the Uint63/PrimInt63 primitive-integer '
    'specifications Interval computes with',
    'modelled, not verified: numpy/libm accuracy and IEEE rounding (certified point-wise, not for all arguments), numpy complex '
    'continuations (checked by identities only), np.linalg.det/norm algorithms, inspect.signature / ufunc.nin (arity oracle), '
    'the text numpy passes to the seterr callback, Python min/max on floats',
]
ASSUMPTIONS = ['the numpy primitives are read as the textbook functions (Coq Reals: cos, acos, atan, exp, ...; arccosh, arctanh, '
               'atan2 defined in Model/MathFuncsR.v); the theorems on inverse functions are on the real domain',
               'np.arctan2(a, b) is the two-argument arctangent with the ordinate first',
               'factorial/fact are excluded (scipy unavailable)']

SCALAR_LOCAL = {'sec', 'csc', 'cot', 'arcsec', 'arccsc', 'arccot', 'sech', 'csch', 'coth', 'arcsech', 'arccsch', 'arccoth'}
RECORDED = {'cos', 'sin', 'tan', 'arccos', 'arcsin', 'arctan', 'cosh', 'sinh', 'tanh', 'arccosh', 'arcsinh', 'arctanh', 'arctan2'}

HEADER = ('From Coq Require Import ZArith QArith Qabs List String Bool.\n'
          'From Verif.Lib Require Import QRound MathFuncsBase.\n'
          'From Verif.Gen Require MathFuncs.\n'
          'From Verif.Model Require Import MathFuncs MathFuncsExact.\n'
          'Import ListNotations.\nOpen Scope string_scope.\n')

AGREE_DEFS = r'''
Module G := Verif.Gen.MathFuncs.
Inductive rawobs := RVal (v : val) | RExc (e : pyexc) | RSkip.
Inductive finobs := FVal (v : val) | FArity (expected : nat) (at_least : bool) (received : nat) | FShape (flags : list bool)
                  | FExc (e : pyexc) | FSkip.
Record xcase := mkCase { x_matrix : bool; x_name : string; x_args : list val; x_validated : bool; x_nargs : nat;
                         x_passed : option (list val);   (* the arguments the wrapper handed to the inner function *)
                         x_raw : rawobs; x_trace : list ocall; x_pi : Q; x_final : finobs }.

Definition pyexc_eqb (a b : pyexc) : bool :=
  match a, b with
  | XStudentFacing, XStudentFacing | XArgumentError, XArgumentError | XArgumentShapeError, XArgumentShapeError
  | XFunctionEvalError, XFunctionEvalError | XCalcZeroDivisionError, XCalcZeroDivisionError
  | XCalcOverflowError, XCalcOverflowError | XZeroDivisionError, XZeroDivisionError | XOverflowError, XOverflowError
  | XValueError, XValueError | XTypeError, XTypeError | XException, XException => true
  | _, _ => false
  end.
Fixpoint bools_eqb (a b : list bool) : bool :=
  match a, b with [], [] => true | x :: a', y :: b' => Bool.eqb x y && bools_eqb a' b' | _, _ => false end.
Definition val_close (a b : val) : bool :=
  match a, b with
  | VNum _ z, VNum _ w => gclose z w
  | VArr _ d x, VArr _ d' y => dims_eqb d d' && gclose_list x y
  | VNum _ z, VArr _ [] [w] | VArr _ [] [z], VNum _ w => gclose z w
  | _, _ => false
  end.
Definition sq_close (q : Q) (v : val) : bool :=
  match v with
  | VNum _ (r, i) => Qle_bool 0 r && Qeq_bool i 0
                     && (Qle_bool (Qabs (r * r - q)) ((1 # 100000000000) * q) || Qle_bool (Qabs (r * r - q)) (1 # 10 ^ 300))
  | VArr _ [] [(r, i)] => Qle_bool 0 r && Qeq_bool i 0 && Qle_bool (Qabs (r * r - q)) ((1 # 100000000000) * q)
  | _ => false
  end.
(* det in floating point (LU) against the exact cofactor value: relative to the product of the row 1-norms *)
Definition row_scale (data : list GQ) (r c : nat) : Q :=
  fold_right Qmult 1 (map (fun row => fold_right Qplus 0 (map (fun z => Qabs (fst z) + Qabs (snd z)) row)) (rows_of r c data)).
Definition loose_close (scale : Q) (a b : val) : bool :=
  match a, b with
  | VNum _ z, VNum _ w => Qle_bool (Qabs (fst z - fst w)) ((1 # 1000000000) * scale) && Qle_bool (Qabs (snd z - snd w)) ((1 # 1000000000) * scale)
  | _, _ => false
  end.

Definition entry_of (c : xcase) : option fentry :=
  lookup (if x_matrix c then G.gen_matrix_functions else G.gen_default_functions) (x_name c).

Definition rawf (c : xcase) : list val -> outcome val :=
  fun _ => match x_raw c with RVal v => Val v | RExc e => Raise e | RSkip => Raise XException end.

Definition final_agrees (e : fentry) (c : xcase) : bool :=
  let shapes := map shape_of_val (x_args c) in
  let model := call_entry G.gen_eval_function_handlers G.gen_arity_mismatch e shape_of_val item_val (x_nargs c) (rawf c) (x_args c) in
  let wrapper := match fe_spec e with Some sp => validate sp shapes | None => VCall end in
  match x_final c with
  | FSkip => true
  | FArity ex al rc =>
      match model with Raise XArgumentError => true | _ => false end &&
      match fe_spec e, wrapper with
      | Some _, VArity ex' al' rc' => Nat.eqb ex ex' && Bool.eqb al al' && Nat.eqb rc rc'
      | None, _ => Nat.eqb ex (x_nargs c) && negb al && Nat.eqb rc (List.length (x_args c))
      | _, _ => false
      end
  | FShape flags =>
      match model with Raise XArgumentShapeError => true | _ => false end &&
      match wrapper with VShape fl => bools_eqb fl flags | _ => false end
  | FExc ex =>
      match wrapper, x_raw c with
      | VCall, RSkip => true
      | _, _ => match model with Raise ex' => pyexc_eqb ex ex' | Val _ => false end
      end
  | FVal v =>
      match wrapper, x_raw c with
      | VCall, RSkip => true
      | _, _ => match model with Val v' => val_close v v' | Raise _ => false end
      end
  end.

Definition body_runs (e : fentry) (c : xcase) : bool :=
  match fe_spec e with
  | Some sp => match validate sp (map shape_of_val (x_args c)) with VCall => true | _ => false end
  | None => Nat.eqb (x_nargs c) (List.length (x_args c))
  end.

Definition square_arg (c : xcase) : bool :=
  match x_args c with [VArr _ [r; k] _] => Nat.eqb r k | _ => true end.

(* the arguments the inner function is called on, according to the model *)
Definition model_passed (e : fentry) (c : xcase) : list val :=
  match fe_spec e with
  | Some sp => coerce item_val (expected_shapes sp (List.length (x_args c))) (x_args c)
  | None => x_args c
  end.

Fixpoint vals_identical (a b : list val) : bool :=
  match a, b with
  | [], [] => true
  | VNum c z :: a', VNum c' w :: b' => Bool.eqb c c' && geqb z w && vals_identical a' b'
  | VArr c d x :: a', VArr c' d' y :: b' =>
      Bool.eqb c c' && dims_eqb d d' && (fix go (p q : list GQ) := match p, q with [], [] => true | z :: p', w :: q' => geqb z w && go p' q' | _, _ => false end) x y
      && vals_identical a' b'
  | _, _ => false
  end.

(* trace-level: what the wrapper handed over is what the model says (numbers where scalars are demanded) *)
Definition passed_agrees (e : fentry) (c : xcase) : bool :=
  match x_passed c with
  | None => true
  | Some l => body_runs e c && vals_identical (model_passed e c) l
  end.

Definition exact_agrees (e : fentry) (c : xcase) : bool :=
  if negb (body_runs e c) then true else
  match xfun_of (fe_target e) with XDet | XTrace => negb (square_arg c) | _ => false end ||
  match exact_target (fe_target e) (model_passed e c), x_raw c with
  | _, RSkip => true
  | None, _ => true
  | Some (MVal _), RExc XOverflowError | Some (MSquared _), RExc XOverflowError => true   (* an intermediate overflowed *)
  | Some (MVal v), RVal v' =>
      match xfun_of (fe_target e), x_args c with
      | XDet, [VArr _ [r; k] data] => loose_close (row_scale data r k) v v'
      | XTrace, [VArr _ [r; k] data] => loose_close (fold_right Qplus 0 (map (fun z => Qabs (fst z) + Qabs (snd z)) data)) v v'
      | XCross, [VArr _ _ a; VArr _ _ b] =>
          match v, v' with
          | VArr _ d x, VArr _ d' y =>
              let s := fold_right Qplus 0 (map (fun z => Qabs (fst z) + Qabs (snd z)) a)
                       * fold_right Qplus 0 (map (fun z => Qabs (fst z) + Qabs (snd z)) b) in
              dims_eqb d d' && (fix go (p q : list GQ) : bool :=
                                  match p, q with
                                  | [], [] => true
                                  | z :: p', w :: q' => loose_close s (VNum true z) (VNum true w) && go p' q'
                                  | _, _ => false
                                  end) x y
          | _, _ => false
          end
      | _, _ => val_close v v'
      end
  | Some (MSquared q), RVal v' => sq_close q v'
  | Some (MRaise ex), RExc ex' => pyexc_eqb ex ex'
  | Some _, _ => false
  end.

Definition derived_agrees (e : fentry) (c : xcase) : bool :=
  if negb (body_runs e c) then true else
  match fe_target e, model_passed e c, x_raw c with
  | TLocal n, [VNum _ z], RVal (VNum _ w) =>
      match derived1 (ExactPrims (x_pi c) (x_trace c)) n with Some f => gclose (f z) w | None => true end
  | TLocal n, [VNum false x; VNum false y], RVal (VNum _ w) =>
      if n =? "arctan2" then match arctan2 (ExactPrims (x_pi c) (x_trace c)) x y with Val m => gclose m w | Raise _ => false end
      else true
  | _, _, _ => true
  end.

Definition opt_is_some {A} (o : option A) : bool := match o with Some _ => true | None => false end.

Definition agree (c : xcase) : bool :=
  match entry_of c with
  | None => false
  | Some e => Bool.eqb (x_validated c) (opt_is_some (fe_spec e)) && final_agrees e c && passed_agrees e c
              && exact_agrees e c && derived_agrees e c
  end.

(* table rows observed at run time: (matrix?, name, validated, arity kind 0 exactly / 1 at least / 2 unvalidated, n) *)
Definition table_agree (r : bool * string * bool * nat * nat) : bool :=
  match r with
  | (m, name, validated, kind, n) =>
      match lookup (if m then G.gen_matrix_functions else G.gen_default_functions) name with
      | None => false
      | Some e => match fe_spec e with
                  | None => negb validated && Nat.eqb kind 2
                  | Some sp => validated && match ds_min sp with
                                            | Some k => Nat.eqb kind 1 && Nat.eqb k n
                                            | None => Nat.eqb kind 0 && Nat.eqb (List.length (ds_shapes sp)) n
                                            end
                  end
      end
  end.
Definition keys_agree (r : bool * list string) : bool :=
  let t := if fst r then G.gen_matrix_functions else G.gen_default_functions in
  Nat.eqb (List.length (keys t)) (List.length (snd r)) && forallb (fun k => existsb (String.eqb k) (snd r)) (keys t).
(* the process-wide numpy error state observed at the start / end of the run is the one the source configures *)
Definition fpstate_agree (r : list (string * string) * bool) : bool :=
  Bool.eqb (snd r) G.gen_seterrcall_installed &&
  forallb (fun kv => match assoc (fst r) (fst kv) with Some m => String.eqb m (snd kv) | None => false end) G.gen_seterr.
Definition const_agree (r : string * Q * Q) : bool :=
  match r with
  | (name, re, im) =>
      match (fix find (l : list (string * constant)) := match l with [] => None | (k, v) :: t => if k =? name then Some v else find t end)
              G.gen_default_variables with
      | Some (KComplex a b) => Qeq_bool re (inject_Z a) && Qeq_bool im (inject_Z b)
      | Some KNpPi => Qeq_bool re (884279719003555 # 281474976710656) && Qeq_bool im 0
      | Some KNpE => Qeq_bool re (6121026514868073 # 2251799813685248) && Qeq_bool im 0
      | None => false
      end
  end.
'''

PYEXC = {'ArgumentError': 'XArgumentError', 'ArgumentShapeError': 'XArgumentShapeError', 'FunctionEvalError': 'XFunctionEvalError',
         'CalcZeroDivisionError': 'XCalcZeroDivisionError', 'CalcOverflowError': 'XCalcOverflowError',
         'ZeroDivisionError': 'XZeroDivisionError', 'OverflowError': 'XOverflowError', 'ValueError': 'XValueError',
         'TypeError': 'XTypeError'}


# ------------------------------------------------------------------------------------------------
# Coq literals
# ------------------------------------------------------------------------------------------------
def qlit(x):
    """exact rational literal in hexadecimal (doubles have huge decimal expansions; hex parses in linear time)"""
    fr = Fraction(x)
    n = '(-0x%x)%%Z' % -fr.numerator if fr.numerator < 0 else '0x%x%%Z' % fr.numerator
    return '(Qmake %s 0x%x%%positive)' % (n, fr.denominator)


def coq_string(s):
    assert re.match(r'^[A-Za-z0-9_ ]*$', s), s
    return '"%s"' % s


def gq(z):
    z = complex(z)
    return '(%s, %s)' % (qlit(z.real), qlit(z.imag))


def finite_num(v):
    z = complex(v)
    return all(math.isfinite(t) for t in (z.real, z.imag))


def val_term_of_arg(a):
    if O.is_scalar(a):
        return '(VNum %s %s)' % (boollit(a[0] == 'c'), gq(O.sc(a)))
    dims = O.shape_of(a)
    cplx = any(isinstance(x, complex) for x in O.flat(a))
    return '(VArr %s %s %s)' % (boollit(cplx), listlit([natlit(d) for d in dims]), listlit([gq(x) for x in O.flat(a)]))


def val_term_of_value(v):
    """python/numpy value -> Coq val term, or None when it is not a finite number / array of finite numbers"""
    import numpy as np
    if isinstance(v, np.ndarray):
        if v.dtype == object or v.size > 200:
            return None
        flat = [complex(x) for x in v.reshape(-1)]
        if not all(finite_num(x) for x in flat):
            return None
        return '(VArr %s %s %s)' % (boollit(bool(np.iscomplexobj(v))), listlit([natlit(d) for d in v.shape]), listlit([gq(x) for x in flat]))
    if O.is_number(v):
        if not finite_num(v):
            return None
        return '(VNum %s %s)' % (boollit(isinstance(v, complex)), gq(v))
    return None


def exc_term(e):
    from mitxgraders.exceptions import StudentFacingError
    name = type(e).__name__
    if name in PYEXC:
        return PYEXC[name]
    if isinstance(e, StudentFacingError):
        return 'XStudentFacing'
    if isinstance(e, ZeroDivisionError):
        return 'XZeroDivisionError'
    if isinstance(e, OverflowError):
        return 'XOverflowError'
    if isinstance(e, ValueError):
        return 'XValueError'
    if isinstance(e, TypeError):
        return 'XTypeError'
    return 'XException'


# ------------------------------------------------------------------------------------------------
# running one case: evaluator outcome, raw outcome of the inner callable, recorded numpy calls
# ------------------------------------------------------------------------------------------------
class NpProxy(object):
    """stands in for the module global `np` of mathfuncs.py while an inner function runs; records scalar calls"""

    def __init__(self, real_np, log):
        object.__setattr__(self, '_np', real_np)
        object.__setattr__(self, '_log', log)

    def __getattr__(self, name):
        target = getattr(self._np, name)
        if name not in RECORDED:
            return target
        log = self._log

        def rec(*args):
            out = target(*args)
            try:
                if all(O.is_number(a) for a in args) and O.is_number(out) and all(finite_num(a) for a in args) and finite_num(out):
                    log.append((name, [complex(a) for a in args], complex(out)))
            except Exception:      # noqa
                pass
            return out
        return rec


def raw_call(table, fname, args):
    """Observe the inner callable below SpecifyDomain's wrapper: the wrapper is called on the arguments with its closure
    variable `func` replaced, for the duration of the call, by a recorder that notes what it is handed and what the real
    inner function does with it.  Unvalidated entries are called directly.
    Returns (status, value/exception, numpy trace, passed) -- status None / passed None when the inner function was not reached."""
    import numpy as np
    from mitxgraders.helpers.calc import mathfuncs
    f = O.tables()[table][fname]
    pyargs = [O.to_python(a) for a in args]
    log = []
    old = mathfuncs.np
    mathfuncs.np = NpProxy(np, log)
    try:
        with warnings.catch_warnings():
            warnings.simplefilter('ignore')
            if not getattr(f, 'validated', False):
                st, out = core.guarded(f, *pyargs)
                return st, out, log, list(pyargs)
            cell = None
            for name, c in zip(f.__code__.co_freevars, f.__closure__ or ()):
                if name == 'func':
                    cell = c
            if cell is None:            # wrapper of an unknown shape: fall back to the inner function on the raw arguments
                inner = getattr(f, '__wrapped__', f)
                st, out = core.guarded(inner, *pyargs)
                return st, out, log, None
            inner = cell.cell_contents
            seen = {}

            def recorder(*passed):
                seen['passed'] = list(passed)
                try:
                    seen['out'] = ('ret', inner(*passed))
                except Exception as e:      # noqa
                    seen['out'] = ('exc', e)
                    raise
                return seen['out'][1]
            cell.cell_contents = recorder
            try:
                core.guarded(f, *pyargs)
            finally:
                cell.cell_contents = inner
            if 'out' not in seen:
                return None, None, log, None
            return seen['out'][0], seen['out'][1], log, seen['passed']
    finally:
        mathfuncs.np = old
        O.fp_check('direct call of the %s-table entry %s on %r' % (table, fname, args))


ARITY_RE = re.compile(r'Expected (at least )?(\d+) inputs, but received (\d+)\.')


def final_term(obs):
    if obs['status'] == 'ret':
        t = val_term_of_value(obs['value'])
        return 'FSkip' if t is None else '(FVal %s)' % t
    name = obs['exc']
    if name == 'ArgumentError':
        m = ARITY_RE.search(obs['msg'])
        if not m:
            return '(FExc XArgumentError)'
        return '(FArity %s %s %s)' % (natlit(int(m.group(2))), boollit(m.group(1) is not None), natlit(int(m.group(3))))
    if name == 'ArgumentShapeError':
        flags = []
        for line in obs['msg'].split('\n')[1:]:
            if ' input is ok' in line:
                flags.append(True)
            elif ' input has an error' in line:
                flags.append(False)
        return '(FShape %s)' % listlit([boollit(b) for b in flags])
    if name in PYEXC:
        return '(FExc %s)' % PYEXC[name]
    return '(FExc %s)' % ('XStudentFacing' if obs['student_facing'] else 'XException')


def exact_case_term(case, obs, pi_q):
    from mitxgraders.helpers.validatorfuncs import get_number_of_args
    table, fname, args = case['table'], case['fname'], case['args']
    f = O.tables()[table][fname]
    validated = bool(getattr(f, 'validated', False))
    nargs = 0
    if not validated:
        st, n = core.guarded(get_number_of_args, f)
        nargs = n if st == 'ret' and isinstance(n, int) and 0 <= n < 50 else 49
    st, out, log, passed = raw_call(table, fname, args)
    if st == 'ret':
        t = val_term_of_value(out)
        raw = 'RSkip' if t is None else '(RVal %s)' % t
    elif st == 'exc':
        raw = '(RExc %s)' % exc_term(out)
    else:
        raw = 'RSkip'
    passed_term = 'None'
    if passed is not None and validated:
        pts = [val_term_of_value(x) for x in passed]
        if all(p is not None for p in pts):
            passed_term = '(Some %s)' % listlit(pts)
    trace = listlit(['(mkCall %s %s %s)' % (coq_string(n), listlit([gq(a) for a in a_]), gq(r)) for n, a_, r in log[:8]])
    return ('(mkCase %s %s %s %s %s %s %s %s %s %s)' %
            (boollit(table == 'matrix'), coq_string(fname), listlit([val_term_of_arg(a) for a in args]), boollit(validated),
             natlit(nargs), passed_term, raw, trace, pi_q, final_term(obs)))


# ------------------------------------------------------------------------------------------------
# Interval stream
# ------------------------------------------------------------------------------------------------
IHEADER = ('From Coq Require Import Reals QArith Qreals List.\nFrom Interval Require Import Tactic.\n'
           'From Verif.Lib Require Import MathFuncsBase.\nFrom Verif.Gen Require MathFuncs.\n'
           'From Verif.Model Require Import MathFuncsR.\nModule G := Verif.Gen.MathFuncs.\nOpen Scope R_scope.\n'
           'Ltac c15 := cbv [G.gen_sec G.gen_csc G.gen_cot G.gen_sech G.gen_csch G.gen_coth Rprims Cprims '
           'p_num p_div p_cos p_sin p_tan p_cosh p_sinh p_tanh cofR cadd csub cmul cdiv cneg cexp csin ccos csinh ccosh ctan ctanh '
           'cabs2 fst snd Q2R Qnum Qden cosh sinh tanh]; repeat split; interval with (i_prec 100).\n')

R_FORWARD = {'sin': 'sin X', 'cos': 'cos X', 'tan': 'tan X', 'exp': 'exp X', 'sinh': 'sinh X', 'cosh': 'cosh X',
             'tanh': 'tanh X', 'sec': 'G.gen_sec Rprims X', 'csc': 'G.gen_csc Rprims X', 'cot': 'G.gen_cot Rprims X',
             'sech': 'G.gen_sech Rprims X', 'csch': 'G.gen_csch Rprims X', 'coth': 'G.gen_coth Rprims X', 'abs': 'Rabs X',
             'arctan': 'atan X'}
C_FORWARD = {'sin': 'csin Z', 'cos': 'ccos Z', 'tan': 'ctan Z', 'exp': 'cexp Z', 'sinh': 'csinh Z', 'cosh': 'ccosh Z',
             'tanh': 'ctanh Z', 'sec': 'G.gen_sec Cprims Z', 'csc': 'G.gen_csc Cprims Z', 'cot': 'G.gen_cot Cprims Z',
             'sech': 'G.gen_sech Cprims Z', 'csch': 'G.gen_csch Cprims Z', 'coth': 'G.gen_coth Cprims Z'}
INV_FWD = {'arcsin': 'sin', 'arccos': 'cos', 'arctan': 'tan', 'arcsec': 'sec', 'arccsc': 'csc', 'arccot': 'cot',
           'arcsinh': 'sinh', 'arccosh': 'cosh', 'arctanh': 'tanh', 'arcsech': 'sech', 'arccsch': 'csch', 'arccoth': 'coth'}


def rlit(x):
    fr = Fraction(x)
    if fr.denominator == 1:
        return '(%d)' % fr.numerator
    return '(%d / %d)' % (fr.numerator, fr.denominator)


def clit(z):
    z = complex(z)
    return '(%s, %s)' % (rlit(z.real), rlit(z.imag))


def tol(scale, extra=0.0):
    t = 1e-9 + 1e-9 * scale + extra
    return rlit(Fraction(t).limit_denominator(10 ** 30) if t < 1e20 else Fraction(int(t)))


def moderate(z):
    z = complex(z)
    return abs(z.real) <= 30 and abs(z.imag) <= 30 and (z == 0 or abs(z) >= 1e-6)


def interval_goal(fname, a, value):
    """Coq proposition (string) certifying the implementation's value on argument a, or None when the case is outside
    the band the Interval stream covers (huge/tiny magnitudes, neighbourhood of a pole) -- counted as boundary."""
    z = O.sc(a)
    cplx = a[0] == 'c'
    w = O.as_scalar(value)
    if w is None or not finite_num(w) or not moderate(z) or abs(w) > 1e12:
        return None
    real_out = not isinstance(value, complex) and w.imag == 0
    zc = complex(z)
    try:
        if fname in R_FORWARD and not cplx and real_out:
            return 'Rabs (%s - %s) <= %s' % (R_FORWARD[fname].replace('X', rlit(zc.real)), rlit(w.real), tol(abs(w)))
        if fname in C_FORWARD:
            e = C_FORWARD[fname].replace('Z', clit(zc))
            if fname in ('tan', 'sec') and abs(O.FORWARD['cos'](zc)) < 1e-6 or fname in ('cot', 'csc') and abs(O.FORWARD['sin'](zc)) < 1e-6 \
                    or fname in ('tanh', 'sech') and abs(O.FORWARD['cosh'](zc)) < 1e-6 \
                    or fname in ('coth', 'csch') and abs(O.FORWARD['sinh'](zc)) < 1e-6 \
                    or fname in ('cot',) and abs(O.FORWARD['cos'](zc)) < 1e-6 or fname == 'coth' and abs(O.FORWARD['cosh'](zc)) < 1e-6:
                return None
            t = tol(abs(w))
            return 'Rabs (fst (%s) - %s) <= %s /\\ Rabs (snd (%s) - %s) <= %s' % (e, rlit(w.real), t, e, rlit(w.imag), t)
        if fname == 'abs':
            return 'Rabs (sqrt (cabs2 %s) - %s) <= %s' % (clit(zc), rlit(w.real), tol(abs(w)))
        if fname == 'sqrt':
            t = tol(abs(zc), 16 * O.EPS * abs(zc))
            return ('Rabs (fst (cmul W W) - %s) <= %s /\\ Rabs (snd (cmul W W) - %s) <= %s /\\ 0 <= %s'
                    % (rlit(zc.real), t, rlit(zc.imag), t, rlit(w.real))).replace('W', clit(w))
        if fname in O.LOGS:
            base = {'ln': '(1, 0)', 'log10': '(ln 10, 0)', 'log2': '(ln 2, 0)'}[fname]
            t = tol(abs(zc), 32 * O.EPS * abs(zc) * max(1.0, abs(w) * O.LOGS[fname]))
            e = 'cexp (cmul %s %s)' % (clit(w), base)
            lim = {'ln': 'PI', 'log10': 'PI / ln 10', 'log2': 'PI / ln 2'}[fname]
            return ('Rabs (fst (%s) - %s) <= %s /\\ Rabs (snd (%s) - %s) <= %s /\\ - (%s) - 1/1000000000 <= %s <= %s + 1/1000000000'
                    % (e, rlit(zc.real), t, e, rlit(zc.imag), t, lim, rlit(w.imag), lim))
        if fname in INV_FWD:
            fwd = INV_FWD[fname]
            d = abs(O.DERIV[fwd](w))
            back = O.FORWARD[fwd](w)
            if d * max(abs(w), 1e-300) * O.EPS * 64 > 1e-3 * max(1.0, abs(zc)) or abs(back) > 1e9:
                return None          # ill-conditioned identity (next to a pole of the forward function): oracle only
            if fwd in ('tan', 'sec') and abs(O.FORWARD['cos'](w)) < 1e-6 or fwd in ('cot', 'csc') and abs(O.FORWARD['sin'](w)) < 1e-6 \
                    or fwd in ('tanh', 'sech') and abs(O.FORWARD['cosh'](w)) < 1e-6 or fwd in ('coth', 'csch') and abs(O.FORWARD['sinh'](w)) < 1e-6 \
                    or fwd == 'cot' and abs(O.FORWARD['cos'](w)) < 1e-6 or fwd == 'coth' and abs(O.FORWARD['cosh'](w)) < 1e-6:
                return None
            t = tol(abs(zc), 128 * O.EPS * d * max(abs(w), 1e-300))
            if not cplx and real_out and fwd in R_FORWARD:
                parts = ['Rabs (%s - %s) <= %s' % (R_FORWARD[fwd].replace('X', rlit(w.real)), rlit(zc.real), t)]
                if O.real_domain(fname, zc.real) == 'in':
                    lo, hi = {'arcsin': ('- (PI / 2)', 'PI / 2'), 'arccos': ('0', 'PI'), 'arctan': ('- (PI / 2)', 'PI / 2'),
                              'arcsec': ('0', 'PI'), 'arccsc': ('- (PI / 2)', 'PI / 2'), 'arccot': ('- (PI / 2)', 'PI'),
                              'arccosh': ('0', None), 'arcsech': ('0', None)}.get(fname, (None, None))
                    if lo is not None:
                        parts.append('%s - 1/1000000000 <= %s' % (lo, rlit(w.real)))
                    if hi is not None:
                        parts.append('%s <= %s + 1/1000000000' % (rlit(w.real), hi))
                return ' /\\ '.join(parts)
            e = C_FORWARD[fwd].replace('Z', clit(w))
            return 'Rabs (fst (%s) - %s) <= %s /\\ Rabs (snd (%s) - %s) <= %s' % (e, rlit(zc.real), t, e, rlit(zc.imag), t)
    except (OverflowError, ZeroDivisionError, ValueError):
        return None
    return None


def arctan2_goal(x, y, w):
    r = math.hypot(x, y)
    if not (1e-6 <= r <= 1e6):
        return None
    t = tol(r)
    return ('Rabs (sqrt (X * X + Y * Y) * cos W - X) <= %s /\\ Rabs (sqrt (X * X + Y * Y) * sin W - Y) <= %s /\\ '
            '- PI - 1/1000000000 <= W <= PI + 1/1000000000' % (t, t)).replace('X', rlit(x)).replace('Y', rlit(y)).replace('W', rlit(w))


def interval_files(goals, tag='c15_iv', shard=None):
    shard = shard or min(80, max(20, (len(goals) + 15) // 16))      # small files: less memory per coqc with Interval loaded
    files = []
    for k in range(0, len(goals), shard):
        chunk = goals[k:k + shard]
        body = [IHEADER]
        for i, (_, prop) in enumerate(chunk):
            body.append('Goal True. first [ assert (%s) by c15; idtac "@@OK %d" | idtac "@@FAIL %d" ]; exact I. Qed.' % (prop, k + i, k + i))
        files.append(('%s_%04d' % (tag, k // shard), '\n'.join(body) + '\n', k, len(chunk)))
    return files


def agreement_files(tag, agree_fn, terms, shard, case_type=None):
    """same file format as core.eval_agreement, but only built here so that every Coq job of the run goes out in one batch"""
    files = []
    for k in range(0, len(terms), shard):
        chunk = terms[k:k + shard]
        ty = (' : list (%s)' % case_type) if case_type else ''
        text = (HEADER + AGREE_DEFS + '\nDefinition verif_cases%s :=\n  [ %s ].\n' % (ty, '\n  ; '.join(chunk)) +
                'Fixpoint verif_failing {A} (f : A -> bool) (l : list A) (i : nat) : list nat :=\n'
                '  match l with nil => nil | x :: r => if f x then verif_failing f r (S i) '
                'else i :: verif_failing f r (S i) end.\n'
                'Eval vm_compute in (verif_failing (%s) verif_cases 0).\n' % agree_fn)
        files.append(('%s_%04d' % (tag, k // shard), text, k, len(chunk)))
    return files


def run_batch(jobs, goals, res):
    """jobs: list of (tag, agree_fn, terms, shard, case_type, on_fail(i)).  One parallel coqc batch for everything."""
    plan = []
    for tag, fn, terms, shard, ty, on_fail in jobs:
        for name, text, k, n in agreement_files(tag, fn, terms, shard, ty):
            plan.append(('agree', name, text, k, n, on_fail))
    for name, text, k, n in interval_files(goals):
        plan.append(('interval', name, text, k, n, None))
    # longest first, so that the pool drains evenly
    plan.sort(key=lambda p: -len(p[2]))
    out = core.run_case_files([(p[1], p[2]) for p in plan], timeout=1500)
    # a coqc process that died without a Coq error message (killed under memory pressure on a shared machine) says nothing
    # about the case: such files are re-run, one at a time, before anything is concluded from them
    for attempt in range(2):
        redo = [i for i, (_, rc, text) in enumerate(out) if rc != 0 and 'Error' not in text]
        if not redo:
            break
        for i in redo:
            out[i] = core.run_case_files([(plan[i][1], plan[i][2])], timeout=1500)[0]
    ok_goals, failed_goals = set(), set()
    for (kind, name, text, k, n, on_fail), (_, rc, log_text) in zip(plan, out):
        if kind == 'agree':
            idx = core.failing_indices(log_text) if rc == 0 else None
            if idx is None:
                res.corr_errors.append((name, log_text[-1500:]))
                continue
            res.programs += n
            for i in idx:
                on_fail(k + i)
        else:
            oks = set(int(x) for x in re.findall(r'@@OK (\d+)', log_text))
            fails = set(int(x) for x in re.findall(r'@@FAIL (\d+)', log_text))
            if rc != 0 or len(oks | fails) != n:
                res.corr_errors.append((name, log_text[-1500:]))
            ok_goals |= oks
            failed_goals |= fails
    res.programs += len(ok_goals) + len(failed_goals)
    for i in sorted(failed_goals):
        res.disagreements.append({'kind': 'interval', 'case': goals[i][0],
                                  'what': 'Interval cannot certify the implementation value against the regenerated definition'})
    res.distribution['interval_goals'] = len(goals)
    res.distribution['interval_certified'] = len(ok_goals)


# ------------------------------------------------------------------------------------------------
# tables and constants
# ------------------------------------------------------------------------------------------------
def table_terms(res):
    """runtime tables of the three grader families against the regenerated tables; target identities"""
    import numpy as np
    from mitxgraders.helpers.calc import mathfuncs
    from mitxgraders.helpers.validatorfuncs import get_number_of_args
    T = O.tables()
    rows, keyrows = [], []
    if T['numerical'] != T['formula'] or set(T['numerical']) != set(T['formula']):
        res.witnesses.append({'key': 'tables:numerical', 'kind': 'table', 'what': 'NumericalGrader table differs from FormulaGrader table'})
    from mitxgraders.helpers.calc.mathfuncs import DEFAULT_FUNCTIONS
    if T['formula'] != DEFAULT_FUNCTIONS:
        res.witnesses.append({'key': 'tables:formula', 'kind': 'table', 'what': 'FormulaGrader.default_functions is not DEFAULT_FUNCTIONS'})
    for tname in ('formula', 'matrix'):
        t = T[tname]
        keyrows.append('(%s, %s)' % (boollit(tname == 'matrix'), listlit([coq_string(k) for k in sorted(t)])))
        for name in sorted(t):
            f = t[name]
            validated = bool(getattr(f, 'validated', False))
            kind, n = 2, 0
            if validated:
                # probe the wrapper for its count rule (messages carry the numbers)
                st, e = core.guarded(f)
                O.fp_check('%s-table entry %s called without arguments' % (tname, name))
                m = ARITY_RE.search(str(e)) if st == 'exc' else None
                if m:
                    kind, n = (1 if m.group(1) else 0), int(m.group(2))
                else:
                    kind, n = 0, 0
            rows.append('(%s, %s, %s, %s, %s)' % (boollit(tname == 'matrix'), coq_string(name), boollit(validated), natlit(kind), natlit(n)))
    # identity of the targets named by the regenerated table (python view of Gen, parsed from the same translator run)
    try:
        gen_text = tr_mathfuncs.generate()
    except Exception:      # noqa -- the driver already reports the failed translation as a broken obligation
        gen_text = ''
    for tname, block in (('formula', None), ('matrix', None)):
        t = T[tname]
        for m in re.finditer(r'\("(\w+)", \(mkF \((TNp|TScimath|TLinalg|TLocal|TBuiltin|TLambda) "(\w+)"\)', gen_text):
            key, kind, target = m.group(1), m.group(2), m.group(3)
            if key not in t or (key == 'abs' and ((kind == 'TNp') != (tname == 'formula'))):
                continue
            f = t[key]
            inner = getattr(f, '__wrapped__', f) if getattr(f, 'validated', False) else f
            want = {'TNp': lambda: getattr(np, target), 'TScimath': lambda: getattr(np.lib.scimath, target),
                    'TLinalg': lambda: getattr(np.linalg, target), 'TBuiltin': lambda: getattr(builtins, target),
                    'TLocal': lambda: getattr(mathfuncs, target), 'TLambda': lambda: None}[kind]()
            if kind == 'TLocal' and getattr(want, 'validated', False):
                ok = f is want
            elif kind == 'TLambda':
                ok = getattr(inner, '__name__', '') == '<lambda>'
            else:
                ok = inner is want
            if not ok:
                res.disagreements.append({'kind': 'table-target', 'table': tname, 'name': key, 'what': 'runtime entry is not %s %s' % (kind, target)})
    return rows, keyrows


def run_constants(res):
    rows = []
    for name in O.CONSTANTS:
        obs = O.run_impl('formula', None, [], formula=name)
        res.oracle_evals += 1
        what = O.judge_constant(name, obs)
        if what:
            res.witnesses.append({'key': 'constant:%s' % name, 'kind': 'constant', 'name': name, 'what': what})
        if obs['status'] == 'ret' and O.is_number(obs['value']) and finite_num(obs['value']):
            z = complex(obs['value'])
            rows.append('(%s, %s, %s)' % (coq_string(name), qlit(z.real), qlit(z.imag)))
        for tname in ('matrix',):
            obs2 = O.run_impl(tname, None, [], formula=name)
            if O.judge_constant(name, obs2):
                res.witnesses.append({'key': 'constant:%s:%s' % (tname, name), 'kind': 'constant', 'name': name, 'table': tname,
                                      'what': O.judge_constant(name, obs2)})
    # literal formulas through the parser (not variables): a few fixed ones
    for text, ref in [('i*i', -1), ('j*j', -1), ('exp(i*pi)', -1), ('e^(i*pi)', -1), ('ln(e)', 1), ('cos(pi)', -1), ('sin(pi/2)', 1),
                      ('arctan2(0, 1)', math.pi / 2), ('arctan2(1, 0)', 0), ('arctan2(-1, 0)', math.pi), ('arctan2(0, -1)', -math.pi / 2),
                      ('sqrt(-4)', 2j), ('ln(-1)', math.pi * 1j), ('log10(-10)', 1 + math.pi / math.log(10) * 1j),
                      ('log2(-8)', 3 + math.pi / math.log(2) * 1j), ('abs(3+4*i)', 5), ('kronecker(2, 2)', 1), ('kronecker(2, 3)', 0),
                      ('max(1, 5, 3)', 5), ('min(4, 2, 8)', 2), ('floor(-1.5)', -2), ('ceil(-1.5)', -1), ('re(3+4*i)', 3), ('im(3+4*i)', 4),
                      ('conj(3+4*i)', 3 - 4j)]:
        obs = O.run_impl('formula', None, [], formula=text)
        res.oracle_evals += 1
        bad = None
        if obs['warnings']:
            bad = 'warning: %s' % obs['warnings'][0]
        elif obs['status'] != 'ret':
            bad = 'raised %s' % obs['exc']
        elif not O.is_number(obs['value']) or abs(complex(obs['value']) - ref) > 1e-9:
            bad = 'value %r, expected %r' % (obs['value'], ref)
        if bad:
            res.witnesses.append({'key': 'formula:%s' % text, 'kind': 'formula', 'formula': text, 'expected': repr(ref), 'what': bad})
    T = O.tables()
    for tname in ('formula', 'matrix'):
        for fname in sorted(T[tname]):        # no arguments at all: every entry, through the parser
            obs = O.run_impl(tname, None, [], formula='%s()' % fname)
            res.oracle_evals += 1
            if obs['status'] == 'ret' or not obs['student_facing'] or obs['warnings'] or obs.get('fp_changed'):
                res.witnesses.append({'key': 'formula:%s:%s()' % (tname, fname), 'kind': 'formula-error', 'formula': '%s()' % fname,
                                      'table': tname, 'what': 'call without arguments: %r' % (obs.get('value', obs.get('exc')),)})
    for text in ['sin()', 'max()', 'arctan2()', 'cot(0)', 'ln(0)', 'arctan2(0, 0)', 'arctan(i)', 'arccosh(0.5)', 'arcsec(0.5)',
                 'floor(1+i)', 'min(1, i)', 'sin(1, 2)', 'exp(1000)', 'cosh(1000)', 'arctanh(1)', 'arccoth(1)', 'csc(0)', 'coth(0)',
                 'log10(0)', 'log2(0)', 'arcsec(0)', 'arccsc(0)', 'arcsech(0)', 'arccsch(0)']:
        obs = O.run_impl('formula', None, [], formula=text)
        res.oracle_evals += 1
        bad = None
        if obs['warnings']:
            bad = 'warning: %s' % obs['warnings'][0]
        elif obs['status'] == 'ret':
            bad = 'returned %r instead of a student-facing error' % (obs['value'],)
        elif not obs['student_facing']:
            bad = 'non-student-facing %s' % obs['exc']
        if bad:
            res.witnesses.append({'key': 'formula:%s' % text, 'kind': 'formula-error', 'formula': text, 'what': bad})
    return rows


# ------------------------------------------------------------------------------------------------
# author-supplied callables that are not wrapped by SpecifyDomain: the count rule of eval_function (required positional
# parameters, get_number_of_args) -- a defaulted parameter must not absorb a surplus argument
# ------------------------------------------------------------------------------------------------
def user_functions():
    import numpy as np

    def u_double(x):
        return 2 * x

    def u_shift(x, y=5):
        return x + y

    def u_three(x, y, z=1, w=2):
        return x * y + z + w

    class Diff(object):
        def __call__(self, x, y=3):
            return x - y
    return {'udouble': (u_double, 1), 'ushift': (u_shift, 1), 'uthree': (u_three, 2), 'udiff': (Diff(), 1),
            'upow': (lambda x, k=2: x ** k, 1), 'unorm': (np.linalg.norm, 1), 'utrans': (np.transpose, 1),
            'usum': (np.sum, 1), 'uround': (np.round, 1)}


def run_user_functions(res):
    from mitxgraders.helpers.calc.mathfuncs import DEFAULT_FUNCTIONS
    users = user_functions()
    funcs = dict(DEFAULT_FUNCTIONS)
    funcs.update({k: v[0] for k, v in users.items()})
    n_cases = 0
    for name in sorted(users):
        f, required = users[name]
        arrayish = name in ('unorm', 'utrans', 'usum')
        firsts = [G.vec_(3, 4), G.mat_([[1, 2], [3, 4]])] if arrayish else [G.r_(3), G.r_(-1.5)]
        for first in firsts:
            for n in (1, 2, 3, 4):
                for k, extra in enumerate(G.SURPLUS[:6] if n > required else [None]):
                    if n > required + 1 and k % 2:
                        continue
                    base = [first] + [G.r_(2.0)] * (required - 1)
                    args = (base + [list(extra)] * (n - required)) if n > required else base[:n]
                    if len(args) != n or (not arrayish and any(not O.is_scalar(a) for a in args)):
                        continue
                    obs = O.run_impl('formula', name, args, functions=funcs)
                    res.oracle_evals += 1
                    n_cases += 1
                    what = None
                    if obs.get('fp_changed'):
                        what = 'the call left the numpy floating-point error state changed'
                    elif n != required:
                        if obs['status'] == 'ret':
                            what = ('%d arguments passed to a function with %d required parameter(s): returned %r instead of the '
                                    'student-facing error' % (n, required, obs['value']))
                        elif not obs['student_facing']:
                            what = 'wrong number of arguments raised the non-student-facing %s' % obs['exc']
                    else:
                        st, want = core.guarded(f, *[O.to_python(a) for a in args])
                        O.fp_check('direct call of user function %s' % name)
                        if obs['status'] != 'ret':
                            what = 'call with the required number of arguments raised %s: %s' % (obs['exc'], obs['msg'][:100])
                        elif st == 'ret':
                            import numpy as np
                            if not np.allclose(np.asarray(obs['value'], dtype=complex), np.asarray(want, dtype=complex)):
                                what = 'value %r, the function itself gives %r' % (obs['value'], want)
                    if what:
                        res.witnesses.append({'key': 'user:%s:%r' % (name, args), 'kind': 'user-function', 'name': name, 'args': args,
                                              'required': required, 'what': what})
    res.distribution['user_function_calls'] = n_cases


# ------------------------------------------------------------------------------------------------
# history stream: calls that raise every kind of error the library anticipates, followed by out-of-domain probes that
# must behave exactly as in a fresh state (process-wide state such as numpy's error handling must not leak)
# ------------------------------------------------------------------------------------------------
PERTURBERS = [
    ('evaluator', '[[3,3],[5,5]]^-1'), ('evaluator', '[[1,2],[2,4]]^-2'), ('evaluator', '[[0,0],[0,0]]^-1'),
    ('evaluator', '[[1,2,3],[4,5,6],[7,8,9]]^-1'), ('evaluator', '[[1,2],[3,4]]^-1'), ('evaluator', '[[1,2],[3,4]]^-3'),
    ('evaluator', '[[2,0],[0,2]]^2'), ('evaluator', '[[1,2],[3,4]]^0.5'), ('evaluator', '[1,2]^2'),
    ('evaluator', '[[1,2,3],[4,5,6]]^2'), ('evaluator', '2^[1,2]'), ('evaluator', '0^-1'), ('evaluator', '1/0'),
    ('evaluator', 'arccosh(0.5)'), ('evaluator', 'ln(0)'), ('evaluator', 'cot(0)'), ('evaluator', 'exp(1000)'),
    ('evaluator', '10^400'), ('evaluator', 'cosh(800)*cosh(800)'), ('evaluator', 'arctan2(0,0)'), ('evaluator', 'arctanh(1)'),
    ('evaluator', '[1,2]+[1,2,3]'), ('evaluator', '[[1,2],[3,4]]*[1,2,3]'), ('evaluator', 'sin([1,2])'), ('evaluator', 'det([1,2])'),
    ('evaluator', 'cross([1,2],[3,4])'), ('evaluator', 'sin(1,2)'), ('evaluator', 'norm([1,2],[3,4])'), ('evaluator', 'min(1)'),
    ('evaluator', '(1+2'), ('evaluator', '1+2)'), ('evaluator', '[1,2'), ('evaluator', 'foo(1)'), ('evaluator', 'x+1'),
    ('evaluator', '5q'), ('evaluator', '1++'), ('evaluator', 'abs([[1,2],[3,4]])'), ('evaluator', 'floor(1+i)'),
    ('evaluator', 'norm([3e200,4e200])'), ('evaluator', 'det([[1e200,0],[0,1e200]])'), ('evaluator', '[[1,2],[3,4]]^-1*[[3,3],[5,5]]^-1'),
    ('matrix', '[[3,3],[5,5]]^-1'), ('matrix', '[[1,2],[2,4]]^-1'), ('matrix', '[[1,2],[3,4]]^-1'), ('matrix', '[1,2]+[1,2,3]'),
    ('matrix', 'arccosh(0.5)*[[1,0],[0,1]]'), ('matrix', '[[1,2],[3,4]'), ('matrix', 'foo'), ('matrix', '[[1,0],[0,1]]/0'),
    ('matrix', '[1,2,3]'), ('matrix', '[[1,2],[3,4]]^0.5'),
    ('formula', 'arccosh(0.5)'), ('formula', '1/0'), ('formula', 'exp(1000)'), ('formula', '(1'), ('formula', 'y'), ('formula', '[1,2]'),
    ('formula', 'sin(1,2)'), ('formula', '2'), ('formula', '1'), ('numerical', 'arccosh(0.5)'), ('numerical', '1'),
    ('formula_arrays', '[1,2]'), ('formula_arrays', 'arccosh(0.5)*[1,2]'),
    ('matrix[suppress=True,shape_errors=True,is_raised=True,msg_detail=type,answer=matrix]', '[[3,3],[5,5]]^-1'),
    ('matrix[suppress=True,shape_errors=True,is_raised=True,msg_detail=type,answer=matrix]', '[1,2]+[1,2,3]'),
    ('matrix[suppress=True,shape_errors=True,is_raised=True,msg_detail=type,answer=matrix]', 'sin([1,2])'),
    ('matrix[suppress=True,shape_errors=True,is_raised=True,msg_detail=type,answer=matrix]', 'arccosh(0.5)'),
    ('matrix[suppress=True,shape_errors=False,is_raised=False,msg_detail=None,answer=scalar]', '[1,2]'),
    ('matrix[suppress=False,shape_errors=False,is_raised=False,msg_detail=shape,answer=matrix]', '[1,2]+[1,2,3]'),
    ('matrix[suppress=False,shape_errors=False,is_raised=False,msg_detail=shape,answer=matrix]', '[[1,2],[3,4]]^-1'),
    ('matrix[suppress=False,shape_errors=True,is_raised=True,msg_detail=None,answer=scalar]', '[[1,2],[2,4]]^-1'),
]
HISTORY_CHANNELS = ['evaluator', 'formula', 'numerical', 'matrix',
                    'matrix[suppress=True,shape_errors=True,is_raised=True,msg_detail=type,answer=matrix]',
                    'matrix[suppress=False,shape_errors=False,is_raised=False,msg_detail=shape,answer=scalar]']
PROBES = ['arccosh(0.5)', 'arcsech(2)', 'arcsec(0.5)', 'arccsc(0.5)', 'arccoth(0.5)', 'arccosh(-2)', 'arcsin(1)', 'arccos(-1)', 'arccosh(1)',
          'arctanh(1)', 'arccoth(1)', 'ln(0)', 'log10(0)', 'log2(0)', '1/0', '0^-1', 'cot(0)', 'csc(0)', 'coth(0)', 'arcsec(0)', 'exp(1000)',
          'cosh(1000)', 'sinh(-1000)', '10^400', 'sech(1000)', 'arctan(i)', 'sqrt(-4)', 'ln(-1)', 'tan(pi/2)', 'exp(-1000)',
          'norm([3e200,4e200])', 'det([[1e200,0],[0,1e200]])']


MATRIX_OPTION_GRID = [(sm, se, ir, md, ans) for sm in (False, True) for se in (True, False) for ir in (True, False)
                      for md in ('type', 'shape', None) for ans in ('matrix', 'scalar')]


def grader_configs():
    """name -> zero-argument constructor: the Formula / Numerical graders and MatrixGrader under every combination of
    suppress_matrix_messages / shape_errors / answer_shape_mismatch (is_raised, msg_detail), matrix and scalar answers"""
    from mitxgraders import FormulaGrader, NumericalGrader, MatrixGrader
    cfg = {'formula': lambda: FormulaGrader(answers='1'),
           'numerical': lambda: NumericalGrader(answers='1'),
           'formula_arrays': lambda: FormulaGrader(answers='1', max_array_dim=2),
           'matrix': lambda: MatrixGrader(answers='[[1,0],[0,1]]', max_array_dim=2)}
    for sm, se, ir, md, ans in MATRIX_OPTION_GRID:
        name = 'matrix[suppress=%s,shape_errors=%s,is_raised=%s,msg_detail=%s,answer=%s]' % (sm, se, ir, md, ans)
        cfg[name] = (lambda sm=sm, se=se, ir=ir, md=md, ans=ans: MatrixGrader(
            answers='[[1,0],[0,1]]' if ans == 'matrix' else '1', max_array_dim=2, suppress_matrix_messages=sm, shape_errors=se,
            answer_shape_mismatch={'is_raised': ir, 'msg_detail': md}))
    return cfg


class _Graders(dict):
    def __missing__(self, name):
        self[name] = grader_configs()[name]()
        return self[name]


def _graders():
    return _Graders()


def history_step(channel, text, graders):
    """one call; returns a canonical outcome (class of the error, or the value / the grading verdict)"""
    from mitxgraders.exceptions import StudentFacingError
    try:
        with warnings.catch_warnings(record=True) as wl:
            warnings.simplefilter('always')
            if channel == 'evaluator':
                table = 'matrix' if ('[' in text) else 'formula'
                v = O.run_impl(table, None, [], formula=text, max_array_dim=(2 if table == 'matrix' else None))
                if v['status'] == 'exc':
                    out = ('exc', v['exc'], v['student_facing'])
                else:
                    import numpy as np
                    arr = np.asarray(v['value'], dtype=complex)
                    out = ('ret', 'nan' if np.any(np.isnan(arr)) else repr(v['value']), bool(v['warnings']))
                return out
            r = graders[channel](None, text)
            ws = [w for w in wl if not issubclass(w.category, (DeprecationWarning, PendingDeprecationWarning))]
            return ('graded', r.get('ok'), bool(ws))
    except Exception as e:      # noqa
        return ('exc', type(e).__name__, isinstance(e, StudentFacingError))


def run_history(ctx, res, rng):
    import numpy as np
    graders = _graders()
    O.fp_restore()
    fresh = {}
    for ch in HISTORY_CHANNELS:
        for p in PROBES:
            if ch.startswith('matrix') and '[' in p:
                continue
            fresh[(ch, p)] = history_step(ch, p, graders)
            leak = O.fp_check('fresh-state probe %s(%r)' % (ch, p))
            if leak:
                res.witnesses.append({'key': 'fp:probe:%s:%s' % (ch, p), 'kind': 'fp-error-state-changed', 'history': [[ch, p]],
                                      'what': 'numpy error state %r -> %r after %s(%r)' % (leak[1], leak[2], ch, p)})
            # the property itself on the fresh state: out of the domain -> a student-facing error, never nan
            o = fresh[(ch, p)]
            if o[0] == 'ret' and o[1] == 'nan':
                res.witnesses.append({'key': 'history:fresh:%s:%s' % (ch, p), 'kind': 'history', 'history': [], 'probe': [ch, p],
                                      'what': 'probe evaluates to nan in a fresh state'})
    # the same probes in a FRESH interpreter: whatever this process did before (every stream above) must not matter
    sub = fresh_interpreter_outcomes()
    if sub is None:
        res.notes.append('fresh-interpreter probe run failed to start; in-process fresh state used alone')
    else:
        for (ch, p), want in sorted(fresh.items()):
            got = tuple(sub.get('%s|%s' % (ch, p), ()))
            if got != tuple(want):
                res.witnesses.append({'key': 'history:process:%s:%s' % (ch, p), 'kind': 'history-process', 'probe': [ch, p],
                                      'fresh_interpreter': repr(got), 'this_process': repr(want),
                                      'what': 'the probe %s(%r) gives %r in this process (after the streams of this run) and %r in a '
                                              'fresh interpreter' % (ch, p, want, got)})
    thorough = ctx['tier'] == 'thorough' or ctx['escalate']
    sequences = [[p] for p in PERTURBERS]
    for _ in range(60 if thorough else 15):
        sequences.append([rng.choice(PERTURBERS) for _ in range(rng.randint(2, 5))])
    n = 0
    for seq in sequences:
        O.fp_restore()
        leaked = None
        try:
            for ch, text in seq:
                # (a) the state is inspected WITHOUT repairing it here: the probes below must see what a student would see
                history_step_noguard(ch, text, graders)
                res.oracle_evals += 1
                now = O.fp_state()
                if leaked is None and (dict(np.geterr()) != O.FP_BASELINE['err'] or np.geterrcall() is not O.FP_BASELINE['call']):
                    leaked = (ch, text, now)
            if leaked:
                res.witnesses.append({'key': 'fp:%s:%s' % (leaked[0], leaked[1]), 'kind': 'fp-error-state-changed',
                                      'history': [list(x) for x in seq],
                                      'what': 'after %s(%r) the process-wide numpy error state is %r (configured: %r)'
                                              % (leaked[0], leaked[1], leaked[2][0], O.FP_BASELINE['err'])})
            # (b) probes after the history, compared with the fresh state
            for (ch, p), want in sorted(fresh.items()):
                if not thorough and (ch != 'evaluator' or len(seq) > 1) and hash_slot(seq[0][1] + ch, p) % 3:
                    continue
                O_before = dict(np.geterr())
                got = history_step_noguard(ch, p, graders)
                res.oracle_evals += 1
                n += 1
                if got != want:
                    res.witnesses.append({'key': 'history:%r:%s:%s' % (seq, ch, p), 'kind': 'history', 'history': [list(x) for x in seq],
                                          'probe': [ch, p], 'fresh': repr(want), 'after': repr(got), 'error_state': O_before,
                                          'what': 'after %r the probe %s(%r) gives %r; in a fresh state it gives %r'
                                                  % (seq, ch, p, got, want)})
        finally:
            O.fp_restore()
            del O.FP_LEAKS[:]
    res.distribution['history_sequences'] = len(sequences)
    res.distribution['history_probes'] = n
    return sub


# ------------------------------------------------------------------------------------------------
# out-of-domain calls x grader families x grader options: a domain / overflow / division / argument-count error of a
# built-in function reaches the student as a student-facing error under EVERY configuration; only the matrix-message
# family (shape mismatch, input type, argument shape, MathArray errors) is what the MatrixGrader options may silence
# ------------------------------------------------------------------------------------------------
DOMAIN_FAMILY = ('FunctionEvalError', 'CalcZeroDivisionError', 'CalcOverflowError', 'ArgumentError')


def literal(a):
    """argument -> formula text with the same value"""
    def num(x):
        t = repr(float(x))
        return '(%s)' % t if t.startswith('-') else t
    if a[0] == 'r':
        return num(a[1])
    return '(%s+%s*i)' % (num(a[1]), num(a[2]))


def domain_probe_texts(cases_obs, rng, limit):
    """formula texts of calls that raised a domain-family error in the main stream (one per function and class first, then a
    seeded sample), plus the fixed probes"""
    by_key, rest = {}, []
    for c, obs in cases_obs:
        if obs['status'] != 'exc' or obs['exc'] not in DOMAIN_FAMILY or not all(O.is_scalar(a) for a in c['args']):
            continue
        if any(not math.isfinite(v) for a in c['args'] for v in a[1:]):
            continue
        text = '%s(%s)' % (c['fname'], ','.join(literal(a) for a in c['args']))
        key = (c['fname'], obs['exc'])
        if key not in by_key:
            by_key[key] = text
        else:
            rest.append(text)
    texts = [by_key[k] for k in sorted(by_key)]
    rng.shuffle(rest)
    texts += rest[:max(0, limit - len(texts))]
    fixed = [p for p in PROBES] + ['arctan2(0,0)', 'floor(2+i)', 'max(1,i)', 'min(i,2,3)', 'sin(1,2)', 'kronecker(1)', 'cot(0)*2',
                                   'arcsech(2)+1', '2^arccosh(0.5)', 'sqrt(arccosh(0.5))']
    out, seen = [], set()
    for t in fixed + texts:
        if t not in seen:
            seen.add(t)
            out.append(t)
    return out


NESTINGS = ['%s', '1+%s', '[%s,1]', '%s*[[1,0],[0,1]]', '[[1,%s],[0,1]]', 'abs(%s)', '[[1,0],[0,1]]^2*%s']


def run_grader_options(ctx, res, cases_obs, rng):
    thorough = ctx['tier'] == 'thorough' or ctx['escalate']
    graders = _graders()
    names = sorted(grader_configs())
    texts = domain_probe_texts(cases_obs, rng, 80 if thorough else 45)
    n = 0
    for ti, base in enumerate(texts):
        for ni, nest in enumerate(NESTINGS):
            if not thorough and ni and (ti + ni) % 3:
                continue
            text = nest % base
            ev = O.run_impl('matrix', None, [], formula=text, max_array_dim=2)
            if ev['status'] != 'exc' or ev['exc'] not in DOMAIN_FAMILY:
                continue          # not (or no longer) a domain-family error as a bare expression: nothing is demanded here
            for gi, gname in enumerate(names):
                if not thorough and not gname.startswith(('formula', 'numerical')) and gname != 'matrix' and (ti + ni + gi) % 4:
                    continue
                out = history_step(gname, text, graders)
                leak = O.fp_check('%s(None, %r)' % (gname, text))
                res.oracle_evals += 1
                n += 1
                what = None
                if leak:
                    what = 'the call left the numpy floating-point error state changed'
                elif out[0] != 'exc':
                    what = ('%s raises %s as an expression, but this grader returned a grading result (ok=%r) instead of a '
                            'student-facing error' % (text, ev['exc'], out[1]))
                elif not out[2]:
                    what = '%s: the grader raised the non-student-facing %s' % (text, out[1])
                if what:
                    res.witnesses.append({'key': 'grader-option:%s:%s' % (gname, text), 'kind': 'grader-option', 'grader': gname,
                                          'input': text, 'evaluator': ev['exc'], 'observed': repr(out), 'what': what})
    res.distribution['grader_option_calls'] = n
    res.distribution['grader_option_probe_texts'] = len(texts)


def probe_outcomes():
    """every probe through every history channel, in the current process state"""
    graders = _graders()
    out = {}
    for ch in HISTORY_CHANNELS:
        for p in PROBES:
            if ch.startswith('matrix') and '[' in p:
                continue
            out['%s|%s' % (ch, p)] = list(history_step(ch, p, graders))
    return out


def _fresh_main():
    import json
    import sys
    out = probe_outcomes()
    out.update({'cons|' + k: v for k, v in construction_probe_outcomes().items()})
    sys.stdout.write('@@FRESH ' + json.dumps(out) + '\n')


def fresh_interpreter_outcomes():
    import json
    import os
    import subprocess
    import sys
    env = dict(os.environ)
    env['PYTHONPATH'] = '%s:%s' % (core.REPO, core.VERIF)
    env['VERIF_REPO'] = core.REPO
    try:
        p = subprocess.run([sys.executable, '-B', '-c', 'from harness.props import c15; c15._fresh_main()'], env=env, cwd=core.VERIF,
                           stdout=subprocess.PIPE, stderr=subprocess.DEVNULL, text=True, timeout=120)
    except Exception:      # noqa
        return None
    for line in p.stdout.splitlines():
        if line.startswith('@@FRESH '):
            return json.loads(line[8:])
    return None


# ------------------------------------------------------------------------------------------------
# construction-history stream: graders that delete / override default constants or functions (documented features) must
# not change what ANY OTHER grader, built afterwards, sees: i, j, e, pi keep their standard values and the default
# functions their definitions, in every grader class and under every allow_inf value
# ------------------------------------------------------------------------------------------------
CONST_VALUE = {'pi': '3.141592653589793', 'e': '2.718281828459045', 'i': 'sqrt(-1)', 'j': 'sqrt(-1)'}
FUNC_PROBES = [('sin(pi/2)', '1'), ('cos(0)', '1'), ('exp(0)+ln(e)', '2'), ('sqrt(4)+abs(-1)', '3'), ('arctan2(0,1)', '1.5707963267948966')]


def _grader_class(name):
    import mitxgraders
    return getattr(mitxgraders, name)


def _zero(x):
    return 0 * x


def build_perturber(d):
    """JSON-able descriptor -> the grader; descriptors: {'cls', 'kwargs', optional 'subgrader' descriptor, 'zero_funcs': [...]}"""
    kwargs = dict(d.get('kwargs', {}))
    if d.get('zero_funcs'):
        kwargs['user_functions'] = {k: _zero for k in d['zero_funcs']}
    if d.get('subgrader'):
        kwargs['subgrader'] = build_perturber(d['subgrader'])
    return _grader_class(d['cls'])(**kwargs)


def perturber_descriptors():
    out = []
    names = ['i', 'j', 'e', 'pi']
    for cls, answer in (('FormulaGrader', '1'), ('NumericalGrader', '1'), ('MatrixGrader', '1')):
        for allow_inf in ((False, True) if cls != 'MatrixGrader' else (False,)):
            base = {'answers': answer, 'allow_inf': allow_inf} if cls != 'MatrixGrader' else {'answers': answer}
            for c in names + (['infty'] if allow_inf else []):
                out.append({'cls': cls, 'kwargs': dict(base, user_constants={c: None}), 'input': '1'})
                if c != 'infty':
                    out.append({'cls': cls, 'kwargs': dict(base, user_constants={c: 2.5}, suppress_warnings=True), 'input': '1'})
            out.append({'cls': cls, 'kwargs': dict(base, user_constants={c: None for c in names}), 'input': '1'})
            out.append({'cls': cls, 'kwargs': dict(base, suppress_warnings=True), 'zero_funcs': ['sin', 'exp', 'sqrt'], 'input': '1'})
            if cls == 'FormulaGrader':
                out.append({'cls': cls, 'kwargs': dict(base, answers='pi', variables=['pi'], suppress_warnings=True), 'input': 'pi'})
                out.append({'cls': cls, 'kwargs': dict(base, whitelist=['sin']), 'input': '1'})
                out.append({'cls': cls, 'kwargs': dict(base, blacklist=['exp', 'cos']), 'input': '1'})
    for c in names:
        out.append({'cls': 'IntervalGrader', 'kwargs': {'answers': '[0,1]'}, 'input': '[0,1]',
                    'subgrader': {'cls': 'NumericalGrader', 'kwargs': {'allow_inf': True, 'tolerance': 1e-13, 'user_constants': {c: None}}}})
    out.append({'cls': 'IntervalGrader', 'kwargs': {'answers': '[0,1]'}, 'input': '[0,1]'})
    out.append({'cls': 'SumGrader', 'kwargs': {'answers': {'lower': '1', 'upper': '3', 'summand': 'n', 'summation_variable': 'n'},
                                               'input_positions': {'summand': 1}, 'user_constants': {'pi': None}}, 'input': 'n'})
    return out


def construction_probes():
    """(key, descriptor, input, want_ok): freshly BUILT graders of each class / allow_inf value asked for each constant and a
    few default functions; the documented answer is ok=True for every one of them"""
    out = []
    for cls in ('FormulaGrader', 'NumericalGrader', 'MatrixGrader'):
        for allow_inf in ((False, True) if cls != 'MatrixGrader' else (False,)):
            extra = {'allow_inf': allow_inf} if cls != 'MatrixGrader' else {}
            for c in sorted(CONST_VALUE):
                out.append(('const:%s:%s:%s' % (cls, allow_inf, c), {'cls': cls, 'kwargs': dict(extra, answers=CONST_VALUE[c], tolerance=1e-12)}, c))
            for text, val in FUNC_PROBES:
                out.append(('func:%s:%s:%s' % (cls, allow_inf, text), {'cls': cls, 'kwargs': dict(extra, answers=val, tolerance=1e-9)}, text))
            if allow_inf:
                out.append(('const:%s:%s:infty' % (cls, allow_inf), {'cls': cls, 'kwargs': dict(extra, answers='infty')}, 'infty'))
    out.append(('const:IntervalGrader:pi', {'cls': 'IntervalGrader', 'kwargs': {'answers': '[0,3.141592653589793]'}}, '[0,pi]'))
    out.append(('const:IntervalGrader:e', {'cls': 'IntervalGrader', 'kwargs': {'answers': '[0,e)'}}, '[0,2.718281828459045)'))
    out.append(('const:IntervalGrader:infty', {'cls': 'IntervalGrader', 'kwargs': {'answers': '[0,infty)'}}, '[0,infty)'))
    out.append(('const:SumGrader:pi', {'cls': 'SumGrader', 'kwargs': {'answers': {'lower': '1', 'upper': '2', 'summand': 'pi',
                                                                                 'summation_variable': 'n'},
                                                                     'input_positions': {'summand': 1}}}, '3.141592653589793'))
    return out


def run_probe(desc, text):
    from mitxgraders.exceptions import StudentFacingError
    try:
        with warnings.catch_warnings():
            warnings.simplefilter('ignore')
            r = build_perturber(desc)(None, text)
        return ['graded', r.get('ok')]
    except Exception as e:      # noqa
        return ['exc', type(e).__name__, isinstance(e, StudentFacingError), str(e)[:80]]


def construction_probe_outcomes():
    return {k: run_probe(d, t) for k, d, t in construction_probes()}


def run_construction_history(ctx, res, rng, fresh_sub):
    thorough = ctx['tier'] == 'thorough' or ctx['escalate']
    probes = construction_probes()
    perturbers = perturber_descriptors()
    sequences = [[d] for d in perturbers]
    for _ in range(40 if thorough else 8):
        sequences.append([rng.choice(perturbers) for _ in range(rng.randint(2, 4))])

    failed, done = set(), []

    def check(history, stage):
        for k, (key, desc, text) in enumerate(probes):
            if key in failed:          # reported once, with the complete list of what had been built until then
                continue
            if not thorough and history and (k + stage) % 3:
                continue
            got = run_probe(desc, text)
            res.oracle_evals += 1
            want_sub = (fresh_sub or {}).get('cons|' + key)
            bad = None
            if got != ['graded', True]:
                bad = ('a freshly built %s asked for %r answers %r; the constants i, j, e, pi (and the default functions) have their '
                       'standard values, so it must grade ok=True' % (desc['cls'], text, got))
            elif want_sub is not None and got[:2] != want_sub[:2]:
                bad = '%s asked for %r answers %r here and %r in a fresh interpreter' % (desc['cls'], text, got, want_sub)
            if bad:
                failed.add(key)
                res.witnesses.append({'key': 'construction:%s' % key, 'kind': 'construction-history',
                                      'history': list(done), 'last_sequence': history, 'probe': [desc, text], 'observed': got,
                                      'what': bad})
    check([], 0)          # before any perturber of this stream (but after every other stream of the run)
    n = 0
    for si, seq in enumerate(sequences):
        for d in seq:
            try:
                with warnings.catch_warnings():
                    warnings.simplefilter('ignore')
                    g = build_perturber(d)
                    g(None, d.get('input', '1'))
            except Exception:      # noqa -- a perturber may legitimately refuse or raise; only what it leaves behind matters
                pass
            O.fp_check('construction/use of %r' % (d,))
            done.append(d)
            n += 1
        check(list(seq), si)
    res.distribution['construction_perturbers'] = n
    res.distribution['construction_probes'] = len(probes)


def hash_slot(a, b):
    return sum(ord(c) for c in a + '|' + b)


def history_step_noguard(channel, text, graders):
    """like history_step, but the error state found is left as it is (no repair between probes)"""
    saved = dict(O.FP_BASELINE)
    O.FP_BASELINE.clear()
    try:
        return history_step(channel, text, graders)
    finally:
        O.FP_BASELINE.update(saved)


# ------------------------------------------------------------------------------------------------
def build_cases(ctx):
    rng = random.Random(1000003 * ctx['seed'] + 15)
    T = O.tables()
    thorough = ctx['tier'] == 'thorough' or ctx['escalate']
    n_rand = 20 if thorough else 6
    names = {t: sorted(k for k in T[t] if k not in O.EXCLUDED) for t in ('formula', 'matrix')}
    scal = {t: [k for k in names[t] if k in O.SCALAR1 and not (k == 'abs' and t == 'matrix')] for t in names}
    cases = []
    cases += G.scalar1_cases([('formula', scal['formula'])], rng, n_rand)
    if thorough:
        cases += G.scalar1_cases([('matrix', scal['matrix'])], rng, n_rand // 3)
    else:     # the scalar entries of the matrix table are the same objects (checked in the table stream): a thin slice
        sub = G.scalar1_cases([('matrix', scal['matrix'])], rng, 1)
        cases += [c for i, c in enumerate(sub) if i % 9 == 0]
    cases += G.multi_cases(['formula', 'matrix'], rng, 25 if thorough else 8)
    cases += G.matrix_cases(rng, 24 if thorough else 8)
    cases += G.arity_shape_cases([(t, sorted(T[t])) for t in ('formula', 'matrix')], rng)
    # regression corpus: number-like (one-element) arrays of every rank at scalar positions must behave as the number they hold
    for t in ('formula', 'matrix'):
        for f in ('sin', 'sqrt', 'arccot', 'floor', 'kronecker', 'max'):
            for sh in ((1,), (1, 1), (1, 1, 1)):
                a = G.make_array(rng, sh)
                args = [a] if f not in ('kronecker', 'max') else [a, ['r', 2.0]]
                cases.append({'table': t, 'fname': f, 'args': args, 'stream': 'shape'})
    return cases


def in_exact_stream(c, obs, index, thorough):
    """which calls are also evaluated by the Coq model over Gaussian rationals.  Everything except the bulk of the
    one-argument calls of the direct numpy entries (sin, exp, ...), about which that model only says `the wrapper lets the
    call through` -- of those, every failing call (exception recasting) and a deterministic slice are kept."""
    if c['stream'] == 'arity':      # the count rule: every call that is not the plain ArgumentError, and a third of the rest
        return thorough or obs.get('exc') != 'ArgumentError' or index % 3 == 0
    if c['stream'] != 'scalar':
        return True
    if obs['status'] != 'ret':
        return True
    if c['fname'] in SCALAR_LOCAL:
        return thorough or index % 4 == 0
    return index % (4 if thorough else 24) == 0


def case_key(c):
    return '%s:%s:%r' % (c['table'], c['fname'], c['args'])


def run(ctx):
    res = core.Result()
    res.rule = ('one case per (table, function, argument tuple): every non-excluded entry of the FormulaGrader/NumericalGrader and '
                'MatrixGrader tables x (real grid incl. 0, +-tiny, +-1 neighbourhoods, pi/2, pi, overflow thresholds, 1e300; complex grid '
                'incl. branch-cut and pole neighbourhoods, signed zeros; seeded random reals/complex incl. log-uniform magnitudes) x '
                'wrong argument counts 1..4 x wrong shapes (vector, matrix, tensor, one-element arrays); exact/rounded array entries for '
                'the matrix functions; a case is non-trivial when the call reaches the function body or an error class is decided')
    import glob
    import os
    for stale in glob.glob(os.path.join(core.CASES, 'c15_*.v')):      # case files of earlier (larger) runs
        try:
            os.remove(stale)
        except OSError:
            pass
    fp_start = O.fp_capture_baseline()
    cases = build_cases(ctx)
    thorough = ctx['tier'] == 'thorough' or ctx['escalate']
    pi_q = qlit(math.pi)
    terms, metas, goals, cases_obs = [], [], [], []
    dist = {}
    seen = set()
    for c in cases:
        k = case_key(c)
        if k in seen:
            continue
        seen.add(k)
        obs = O.run_impl(c['table'], c['fname'], c['args'])
        res.oracle_evals += 1
        cases_obs.append((c, obs))
        what = O.judge(c, obs)
        dist_key = '%s/%s' % (c['stream'], obs['status'] if obs['status'] == 'ret' else obs['exc'])
        dist[dist_key] = dist.get(dist_key, 0) + 1
        if obs.get('fp_changed'):
            res.witnesses.append({'key': 'fp:' + k, 'kind': 'fp-error-state-changed', 'table': c['table'], 'fname': c['fname'],
                                  'args': c['args'], 'what': 'numpy error state %r -> %r after %s'
                                  % (obs['fp_changed'][1], obs['fp_changed'][2], obs['fp_changed'][0])})
        elif what:
            res.witnesses.append({'key': k, 'kind': 'call', 'table': c['table'], 'fname': c['fname'], 'args': c['args'],
                                  'what': what,
                                  'observed': repr(obs.get('value', obs.get('exc')))[:200]})
        res.nontrivial.add(k)
        if in_exact_stream(c, obs, len(seen), thorough):
            terms.append(exact_case_term(c, obs, pi_q))
            metas.append(c)
        # Interval stream
        if obs['status'] == 'ret' and len(c['args']) == 1 and O.is_scalar(c['args'][0]) and c['fname'] in O.SCALAR1 \
                and not (c['fname'] == 'abs' and c['table'] == 'matrix') and c['table'] == 'formula':
            g = interval_goal(c['fname'], c['args'][0], obs['value'])
            if g is None:
                res.boundary += 1
            else:
                goals.append(({'table': c['table'], 'fname': c['fname'], 'args': c['args'], 'value': repr(obs['value'])}, g))
        if obs['status'] == 'ret' and c['fname'] == 'arctan2' and len(c['args']) == 2 and all(a[0] == 'r' for a in c['args']) \
                and c['table'] == 'formula':
            g = arctan2_goal(c['args'][0][1], c['args'][1][1], float(obs['value']))
            if g is not None:
                goals.append(({'table': c['table'], 'fname': 'arctan2', 'args': c['args'], 'value': repr(obs['value'])}, g))
    # quick tier: bound the number of Interval goals (deterministic thinning), the oracle still saw every case
    cap = 2400 if thorough else 560
    if len(goals) > cap:
        step = len(goals) / float(cap)
        goals = [goals[int(i * step)] for i in range(cap)]
    # the doubles behind pi and e (what evaluator('pi'), evaluator('e') returned) are the nearest doubles
    for name in ('pi', 'e'):
        ob = O.run_impl('formula', None, [], formula=name)
        if ob['status'] == 'ret' and O.is_number(ob['value']) and finite_num(ob['value']):
            goals.append(({'constant': name, 'value': repr(ob['value'])},
                          'Rabs (%s - %s) <= / 2 ^ 52' % ('PI' if name == 'pi' else 'exp 1', rlit(complex(ob['value']).real))))
    res.distribution.update(dist)
    res.distribution['cases'] = len(terms)
    if metas:
        for i in (0, len(metas) // 2, len(metas) - 1):
            res.samples.append({'case': {k: metas[i][k] for k in ('table', 'fname', 'args')}, 'coq_term': terms[i][:300]})

    rows, keyrows = table_terms(res)
    crow = run_constants(res)
    run_user_functions(res)
    for label, before, after in list(O.FP_LEAKS):        # leaks noticed outside the evaluator calls judged above
        if not label.startswith('evaluator('):
            res.witnesses.append({'key': 'fp:' + label, 'kind': 'fp-error-state-changed', 'label': label,
                                  'what': 'numpy error state %r -> %r after %s' % (before, after, label)})
    del O.FP_LEAKS[:]
    run_grader_options(ctx, res, cases_obs, random.Random(1000003 * ctx['seed'] + 1516))
    fresh_sub = run_history(ctx, res, random.Random(1000003 * ctx['seed'] + 1515))
    run_construction_history(ctx, res, random.Random(1000003 * ctx['seed'] + 1517), fresh_sub)
    fp_end = O.fp_state()
    fprows = ['(%s, %s)' % (listlit(['(%s, %s)' % (coq_string(k), coq_string(v)) for k, v in sorted(st[0].items())]),
                            boollit(st[1] == 'handle_np_floating_errors')) for st in (fp_start, fp_end)]
    if len(crow) != 4:
        res.disagreements.append({'kind': 'constant', 'what': 'a constant did not evaluate'})

    def fail_exact(i):
        res.disagreements.append({'kind': 'exact', 'case': {k: metas[i][k] for k in ('table', 'fname', 'args')},
                                  'what': 'model (wrapper / exact value / derived replay) and implementation differ'})
    jobs = [('c15_exact', 'agree', terms, min(250, max(60, (len(terms) + 15) // 16)), 'xcase', fail_exact),
            ('c15_table', 'table_agree', rows, 400, None, lambda i: res.disagreements.append({'kind': 'table', 'row': rows[i]})),
            ('c15_keys', 'keys_agree', keyrows, 10, None, lambda i: res.disagreements.append({'kind': 'table-keys', 'row': keyrows[i][:200]})),
            ('c15_const', 'const_agree', crow, 10, None, lambda i: res.disagreements.append({'kind': 'constant', 'row': crow[i]})),
            ('c15_fpstate', 'fpstate_agree', fprows, 10, None,
             lambda i: res.disagreements.append({'kind': 'fp-state', 'what': 'numpy error state at the %s of the run is not the configured one' % ('start', 'end')[i], 'row': fprows[i]}))]
    run_batch(jobs, goals, res)
    if goals:
        res.samples.append({'interval_goal': goals[len(goals) // 3][1][:400], 'case': goals[len(goals) // 3][0]})
    # the driver files the first few witnesses: wrong values / nan first, then leaked state, then wrong error classes
    def rank(w):
        t = w.get('what', '')
        if 'returned' in t or 'nan' in t or w.get('kind') in ('history', 'history-process', 'grader-option', 'construction-history'):
            return 0
        if w.get('kind') == 'fp-error-state-changed':
            return 1
        return 2
    res.witnesses.sort(key=rank)
    res.notes.append('boundary = scalar calls outside the band of the Interval stream (|z| > 30 or < 1e-6, |value| > 1e12, '
                     'neighbourhood of a pole, ill-conditioned identity); they are judged by the oracle only')
    return res


# ------------------------------------------------------------------------------------------------
def replay(w):
    kind = w.get('kind')
    if kind == 'call':
        c = {'table': w['table'], 'fname': w['fname'], 'args': w['args']}
        obs = O.run_impl(c['table'], c['fname'], c['args'])
        what = O.judge(c, obs)
        return bool(what), '%s table: %s -> %s; oracle: %s' % (c['table'], obs['formula'] + ' with ' + repr(c['args']),
                                                              repr(obs.get('value', obs.get('exc'))), what or 'satisfied')
    if kind == 'constant':
        obs = O.run_impl(w.get('table', 'formula'), None, [], formula=w['name'])
        what = O.judge_constant(w['name'], obs)
        return bool(what), 'constant %s -> %r; %s' % (w['name'], obs.get('value', obs.get('exc')), what or 'satisfied')
    if kind in ('formula', 'formula-error'):
        res = core.Result()
        run_constants(res)
        hit = [x for x in res.witnesses if x.get('formula') == w.get('formula')]
        return bool(hit), 'formula %s: %s' % (w.get('formula'), hit[0]['what'] if hit else 'satisfied')
    if kind == 'fp-error-state-changed':
        O.fp_capture_baseline()
        O.fp_restore()
        try:
            if 'history' in w:
                graders = _graders()
                for ch, text in w['history']:
                    history_step_noguard(ch, text, graders)
                label = 'the calls %r' % (w['history'],)
            elif 'fname' in w:
                saved = dict(O.FP_BASELINE)
                O.FP_BASELINE.clear()
                try:
                    O.run_impl(w['table'], w['fname'], w['args'])
                finally:
                    O.FP_BASELINE.update(saved)
                label = '%s(%r)' % (w['fname'], w['args'])
            else:
                return False, 'not replayable individually: %s' % w.get('label')
            now = O.fp_state()
            import numpy as np
            bad = dict(np.geterr()) != O.FP_BASELINE['err'] or np.geterrcall() is not O.FP_BASELINE['call']
            return bad, 'numpy error state after %s: %r (configured: %r)' % (label, now[0], O.FP_BASELINE['err'])
        finally:
            O.fp_restore()
    if kind == 'history':
        O.fp_capture_baseline()
        O.fp_restore()
        try:
            graders = _graders()
            ch, p = w['probe']
            want = history_step(ch, p, graders)
            O.fp_restore()
            for c2, text in w['history']:
                history_step_noguard(c2, text, graders)
            got = history_step_noguard(ch, p, graders)
            bad = got != want or (got[0] == 'ret' and got[1] == 'nan')
            return bad, 'after %r the probe %s(%r) gives %r; fresh state: %r' % (w['history'], ch, p, got, want)
        finally:
            O.fp_restore()
    if kind == 'grader-option':
        O.fp_capture_baseline()
        out = history_step(w['grader'], w['input'], _graders())
        ev = O.run_impl('matrix', None, [], formula=w['input'], max_array_dim=2)
        bad = ev['status'] == 'exc' and ev['exc'] in DOMAIN_FAMILY and (out[0] != 'exc' or not out[2])
        return bad, '%s(None, %r) -> %r; as an expression: %s' % (w['grader'], w['input'], out, ev.get('exc', ev.get('value')))
    if kind == 'history-process':
        O.fp_capture_baseline()
        ch, p = w['probe']
        here = list(history_step(ch, p, _graders()))
        sub = fresh_interpreter_outcomes() or {}
        return here != sub.get('%s|%s' % (ch, p)), 'probe %s(%r): %r here, %r in a fresh interpreter (the history of the original run is not reproduced by a replay)' % (ch, p, here, sub.get('%s|%s' % (ch, p)))
    if kind == 'construction-history':
        O.fp_capture_baseline()
        desc, text = w['probe']
        before = run_probe(desc, text)
        for d in w['history']:
            try:
                build_perturber(d)(None, d.get('input', '1'))
            except Exception:      # noqa
                pass
        after = run_probe(desc, text)
        return after != ['graded', True], ('a fresh %s asked for %r: %r before and %r after building/using %r'
                                           % (desc['cls'], text, before, after, w['history']))
    if kind == 'user-function':
        res = core.Result()
        O.fp_capture_baseline()
        run_user_functions(res)
        hit = [x for x in res.witnesses if x['key'] == w['key']]
        return bool(hit), 'user function %s on %r: %s' % (w.get('name'), w.get('args'), hit[0]['what'] if hit else 'satisfied')
    if kind == 'table':
        res = core.Result()
        table_terms(res)
        hit = [x for x in res.witnesses if x['key'] == w['key']]
        return bool(hit), 'table check %s: %s' % (w['key'], hit[0]['what'] if hit else 'satisfied')
    return False, 'unknown witness kind %r' % (kind,)


LEVEL_TEXT = ('Theorems (Coq, all arguments): on the reals, the regenerated definitions of sec, csc, cot, sech, csch, coth equal their '
              'textbook definitions; arcsec, arccsc, arccot, arcsech, arccsch, arccoth satisfy f(f_inverse(x)) = x on their real domains with '
              'their principal ranges; arctan2(x, y) is the angle in (-pi, pi] of the point (x, y) for every (x, y) != (0, 0) and an error at '
              'the origin; kronecker; cross (formula, orthogonality, anticommutativity), transpose, trace, determinant (1x1..3x3, every '
              'lower-triangular matrix and the identity in every dimension) over any commutative ring; floor, ceil, min, max, conj over all '
              'rationals; i^2 = -1 and pi, e are the nearest doubles; for every argument list a wrong count is ArgumentError, a rejected '
              'shape ArgumentShapeError, every other failure a student-facing error, numpy divide/overflow/invalid events raise; the '
              'tables are exactly the documented ones; the wrapper calls the function iff count and shapes are accepted by the validators and '
              'then hands every scalar position a number (a number-like array becomes the number it holds). Complex continuation and floating-point accuracy are not theorems: they are certified point-wise '
              '(Interval) and checked by an independent oracle on every run.')
LEVEL_NOTE = ('Partial: real-domain theorems in exact arithmetic + point-wise machine-checked enclosures; numpy/libm accuracy, complex '
              'branches, LAPACK det/norm are oracles. Axioms: the classical reals of the Coq standard library (and what Interval needs). '
              'Trusted: Coq kernel, translate/mathfuncs.py, harness/props/c15.py.')
TECHNIQUE = ('Coq proof (Reals, lra/nra/field, ring over abstract ring_theory, induction on dimension) + source-to-Gallina translator + '
             'vm_compute correspondence over Gaussian rationals with recorded numpy calls + Interval-certified point values')
DESIGN_REF = 'DESIGN.md section 3, C15'
