"""C14 -- array arithmetic follows strict linear-algebra shape rules and values.

Tie (B): the MathArray operators and evaluator(...) are run on the property's shape lattice and on random formula
trees; the same operands, the recorded answers of np.linalg.inv and the observed outcomes are written as Coq terms and
Model/MathArray.v is evaluated on them by vm_compute (agreement decided in Coq).  Independently, a nested-list
reference over Gaussian rationals (Fractions) states what ordinary linear algebra prescribes and is applied to what the
implementation returned; every failure is a replayable witness.
"""
import itertools
import operator
import random
from fractions import Fraction

from harness import core
from harness.core import boollit, listlit

ID = 'C14'
PROPS = 'Props/C14.v'
TRANSLATORS = []
MIRRORED = [('mitxgraders/helpers/calc/math_array.py', '*'),
            ('mitxgraders/helpers/calc/robust_pow.py', '*'),
            ('mitxgraders/helpers/calc/expressions.py', 'cast_np_numeric_as_builtin'),
            ('mitxgraders/helpers/calc/expressions.py', 'MathExpression.eval_node'),
            ('mitxgraders/helpers/calc/expressions.py', 'MathExpression.eval_variable'),
            ('mitxgraders/helpers/calc/expressions.py', 'MathExpression.eval_array'),
            ('mitxgraders/helpers/calc/expressions.py', 'MathExpression.eval_power'),
            ('mitxgraders/helpers/calc/expressions.py', 'MathExpression.eval_negation'),
            ('mitxgraders/helpers/calc/expressions.py', 'MathExpression.eval_product'),
            ('mitxgraders/helpers/calc/expressions.py', 'MathExpression.eval_sum'),
            ('mitxgraders/formulagrader/matrixgrader.py', 'MatrixGrader.check_response'),
            ('mitxgraders/sampling.py', 'DependentSampler.compute_sample')]
REFUTED = []
TRUSTED = [
    'correspondence harness harness/props/c14.py (operand/outcome encoders, exception-message table, recorder wrapped around '
    'numpy.linalg inv at run time, formula renderer checked against the real parse tree on every case)',
    'modelled, not verified (specified oracles): numpy elementwise kernels, np.dot, np.linalg.matrix_power (repeated '
    'multiplication in the model), np.linalg.matrix_rank and np.linalg.inv (answers recorded per case and fed to the model; the contracts '
    '"deficient iff det = 0" and "the answer is a two-sided inverse" are evaluated in Coq on every recorded answer), IEEE rounding (exact streams compared '
    'by equality, divisions and inverses within a declared absolute tolerance)',
    'the parser (formula string -> tree) belongs to C03; here every generated formula is checked to parse to the intended tree',
]
ASSUMPTIONS = [
    'operands are plain Python numbers (int/float/complex) or MathArrays with at least one axis; numpy scalar types as LEFT '
    'operands bypass MathArray altogether (numpy issue #124 of the library, the evaluator casts them away) and are outside the model',
    'division by the zero scalar and scalar**scalar are not MathArray\'s business (ZeroDivisionError from the library\'s numpy '
    'error handler, turned into CalcZeroDivisionError by MathExpression.eval); single-element arrays are outside the property\'s quantifier',
    'the contracts of the two numpy oracles behind negative powers are HYPOTHESES of C14_singular_negative_power_error / '
    'C14_negative_power_is_inverse_power: rank_complete (np.linalg.matrix_rank flags every matrix with a nonzero kernel vector) and '
    'inv_sound_regular (np.linalg.inv returns a true inverse for the matrices the rank test lets through); both are evaluated in Coq '
    'on every recorded answer outside a conditioning guard band, both are satisfiable (C14_exact_oracles_meet_contracts)',
]


# ------------------------------------------------------------------------------------------------------------------
# Coq side
# ------------------------------------------------------------------------------------------------------------------
HEADER = r'''From Coq Require Import ZArith QArith Qabs List Bool Arith.
From Verif.Model Require Import MathArray.
Import ListNotations.

Inductive dspec := RI (l : list Z) | CI (l : list (Z * Z)) | RQ (l : list (Z * positive))
                 | CQ (l : list (Z * positive * (Z * positive))).
Definition dval (s : dspec) : list C :=
  match s with
  | RI l => map (fun a => (inject_Z a, 0%Q)) l
  | CI l => map (fun p => (inject_Z (fst p), inject_Z (snd p))) l
  | RQ l => map (fun p => (Qmake (fst p) (snd p), 0%Q)) l
  | CQ l => map (fun p => (Qmake (fst (fst p)) (snd (fst p)), Qmake (fst (snd p)) (snd (snd p)))) l
  end.
Definition N_ (k : kind) (s : dspec) : val := Num k (hd c0 (dval s)).
Definition A_ (k : kind) (sh : list nat) (s : dspec) : val := Arr k sh (dval s).

Inductive obs := ORet (v : val) (tol : Q) (shape_only : bool) | OExc (e : err) | OOther.

Definition q_close (tol a b : Q) : bool := Qle_bool (Qabs (a - b)) tol.
Definition c_close (tol : Q) (x y : C) : bool := q_close tol (cre x) (cre y) && q_close tol (cim x) (cim y).
Fixpoint d_close (tol : Q) (a b : list C) : bool :=
  match a, b with
  | [], [] => true
  | x :: a', y :: b' => c_close tol x y && d_close tol a' b'
  | _, _ => false
  end.
Definition val_agree (m o : val) (tol : Q) (so : bool) : bool :=
  match m, o with
  | Num k c, Num k' c' => kind_eqb k k' && (so || c_close tol c c')
  | Arr k sh d, Arr k' sh' d' =>
      kind_eqb k k' && shape_eqb sh sh' && Nat.eqb (length d) (length d') && (so || d_close tol d d')
  | _, _ => false
  end.
Definition err_code (e : err) : nat :=
  match e with
  | EAddScalar => 1 | EAddShape => 2 | EDotShape => 3 | EMulShape => 4 | EDivArray => 5 | ERDivArray => 6
  | EPowShape => 7 | EPowNonSquare => 8 | EPowArrayExp => 9 | ERPowArray => 10 | ETensorMul => 11
  | ENonIntPow => 12 | ENegPowDisabled => 13 | ESingular => 14 | ETripleVec => 15 | ERagged => 16
  | EZeroDiv => 17 | EOutside => 18
  end%nat.
Definition out_agree (m : outcome) (o : obs) : bool :=
  match m, o with
  | Ret v, ORet w tol so => val_agree v w tol so
  | Raise e, OExc e' => Nat.eqb (err_code e) (err_code e')
  | _, _ => false
  end.

(* recorded answers of np.linalg.inv: (n, matrix, answer, expected truth of "matrix . answer = I";
   None = ill-conditioned matrix, guard band) *)
Definition inv_tab := list (nat * dspec * option dspec * option bool).
(* recorded answers of np.linalg.matrix_rank(M) < n: (n, matrix, answer, check the contract "answer iff det M = 0"?) *)
Definition rank_tab := list (nat * dspec * bool * bool).
Definition key_tol : Q := 1 # 1000000000.
(* keys are matched relative to their magnitude: the model recomputes the matrix exactly, the implementation in floats *)
Definition qmax2 (a b : Q) : Q := if Qle_bool a b then b else a.
Definition amax1 (d : list C) : Q := fold_right (fun c acc => qmax2 (Qabs (cre c)) (qmax2 (Qabs (cim c)) acc)) 1%Q d.
Definition key_close (d k : list C) : bool := d_close (key_tol * amax1 k) d k.
Definition hyp_tol : Q := 1 # 1000000.
Definition tab_inv (t : inv_tab) : inv_oracle := fun _ n d =>
  match find (fun e => match e with (n', m, _, _) => Nat.eqb n n' && key_close d (dval m) end) t with
  | Some (_, _, Some b, _) => Some (dval b)
  | _ => None
  end.
(* a matrix the implementation never put to the rank test counts as refused: if the code stops asking, the model disagrees *)
Definition tab_rank (t : rank_tab) : rank_oracle := fun _ n d =>
  match find (fun e => match e with (n', m, _, _) => Nat.eqb n n' && key_close d (dval m) end) t with
  | Some (_, _, answer, _) => answer
  | None => true
  end.
Definition tab_ok (t : inv_tab) : bool :=
  forallb (fun e => match e with
                    | (n, m, Some b, Some flag) =>
                        Bool.eqb flag (d_close hyp_tol (matmat n n n (dval m) (dval b)) (identity n)
                                       && d_close hyp_tol (matmat n n n (dval b) (dval m)) (identity n))
                    | _ => true end) t.
Definition rank_ok (t : rank_tab) : bool :=
  forallb (fun e => match e with
                    | (n, m, answer, true) => Bool.eqb answer (cis_zero (det n (dval m)))
                    | _ => true end) t.
(* Python's number ** number for integer-valued exponents (all the generator produces): repeated multiplication *)
Fixpoint cpow (x : C) (k : nat) : C := match k with O => c1 | S k' => cmul x (cpow x k') end.
Definition no_spow : spow_oracle := fun ka a kb b =>
  if integer_like kb b then
    let z := exponent_Z b in
    if (0 <=? z)%Z then Ret (Num (kmax ka kb) (cpow a (Z.to_nat z)))
    else if cis_zero a then Raise EZeroDiv
    else Ret (Num (kmax KFloat (kmax ka kb)) (cinv (cpow a (Z.to_nat (- z)))))
  else Raise EOutside.

Definition op_case (c : bool * binop * val * val * rank_tab * inv_tab * list obs) : bool :=
  match c with
  | (negpow, op, a, b, rt, t, os) =>
      let m := py_binop negpow (tab_rank rt) (tab_inv t) no_spow op a b in
      rank_ok rt && tab_ok t && forallb (out_agree m) os
  end.
Definition expr_case (c : bool * expr * rank_tab * inv_tab * obs) : bool :=
  match c with
  | (negpow, e, rt, t, o) =>
      rank_ok rt && tab_ok t && out_agree (eval_expr negpow (tab_rank rt) (tab_inv t) no_spow e) o
  end.
Definition any_case (c : (bool * binop * val * val * rank_tab * inv_tab * list obs) + (bool * expr * rank_tab * inv_tab * obs)) : bool :=
  match c with inl x => op_case x | inr y => expr_case y end.
Definition OpAdd := MathArray.Add. Definition OpSub := MathArray.Sub. Definition OpMul := MathArray.Mul.
Definition OpDiv := MathArray.Div. Definition OpPow := MathArray.Pow.
Open Scope Z_scope.
'''

KIND = {'i': 'KInt', 'f': 'KFloat', 'c': 'KComplex'}
OPS = ['Add', 'Sub', 'Mul', 'Div', 'Pow']
PYOP = {'Add': operator.add, 'Sub': operator.sub, 'Mul': operator.mul, 'Div': operator.truediv, 'Pow': operator.pow}
PYIOP = {'Add': operator.iadd, 'Sub': operator.isub, 'Mul': operator.imul, 'Div': operator.itruediv, 'Pow': operator.ipow}
DUNDER = {'Add': ('__add__', '__radd__'), 'Sub': ('__sub__', '__rsub__'), 'Mul': ('__mul__', '__rmul__'),
          'Div': ('__truediv__', '__rtruediv__'), 'Pow': ('__pow__', '__rpow__')}
SYM = {'Add': '+', 'Sub': '-', 'Mul': '*', 'Div': '/', 'Pow': '^'}


def frac2(z):
    """Python number -> (Fraction re, Fraction im), exactly"""
    if isinstance(z, complex):
        return Fraction(z.real), Fraction(z.imag)
    return Fraction(z), Fraction(0)


def dspec(entries):
    """list of Python numbers -> Coq dspec term (exact)"""
    prs = [frac2(z) for z in entries]
    real = all(im == 0 for _, im in prs)
    integral = all(re.denominator == 1 and im.denominator == 1 for re, im in prs)
    if real and integral:
        return '(RI [%s])' % '; '.join(str(int(re)) for re, _ in prs)
    if integral:
        return '(CI [%s])' % '; '.join('(%d, %d)' % (re, im) for re, im in prs)
    if real:
        return '(RQ [%s])' % '; '.join('(%d, %d%%positive)' % (re.numerator, re.denominator) for re, _ in prs)
    return '(CQ [%s])' % '; '.join('(%d, %d%%positive, (%d, %d%%positive))' %
                                   (re.numerator, re.denominator, im.numerator, im.denominator) for re, im in prs)


def shape_lit(shape):
    return '[%s]%%nat' % '; '.join(str(int(s)) for s in shape)


def val_term(v):
    if v[0] == 'num':
        return '(N_ %s %s)' % (KIND[v[1]], dspec([v[2]]))
    return '(A_ %s %s %s)' % (KIND[v[1]], shape_lit(v[2]), dspec(v[3]))


def qterm(fr):
    fr = Fraction(fr)
    return '(Qmake %d %d%%positive)' % (fr.numerator, fr.denominator)


# ------------------------------------------------------------------------------------------------------------------
# values: ('num', kind, z) | ('arr', kind, shape, flat)      kind in 'i','f','c'
# ------------------------------------------------------------------------------------------------------------------
def np_():
    import numpy
    return numpy


def to_impl(v):
    np = np_()
    from mitxgraders.helpers.calc.math_array import MathArray
    dt = {'i': np.int64, 'f': np.float64, 'c': np.complex128}[v[1]]
    if v[0] == 'num':
        return dt(v[2]) if is_np_num(v) else v[2]       # ('num', kind, z, 'np'): the same number as a numpy scalar
    return MathArray(np.array(v[3], dtype=dt).reshape(v[2]))


def is_np_num(v):
    return v[0] == 'num' and len(v) > 3 and v[3] == 'np'


def kind_of_number(x):
    np = np_()
    if isinstance(x, (bool, np.bool_)):
        return None
    if isinstance(x, (int, np.integer)):
        return 'i'
    if isinstance(x, (float, np.floating)):
        return 'f'
    if isinstance(x, (complex, np.complexfloating)):
        return 'c'
    return None


def pynum(x):
    np = np_()
    if isinstance(x, np.generic):
        return x.item()
    return x


def from_impl(r):
    """implementation result -> value tuple, or None if it is neither a number nor an ndarray with >= 1 axis"""
    np = np_()
    k = kind_of_number(r)
    if k is not None:
        return ('num', k, pynum(r))
    if isinstance(r, np.ndarray) and r.ndim >= 1 and r.dtype.kind in 'ifc':
        return ('arr', r.dtype.kind, tuple(int(s) for s in r.shape), [pynum(x) for x in r.reshape(-1)])
    return None


def finite(v):
    import math
    zs = [v[2]] if v[0] == 'num' else v[3]
    for z in zs:
        c = complex(z)
        if not (math.isfinite(c.real) and math.isfinite(c.imag)):
            return False
    return True


def amax(v):
    zs = [v[2]] if v[0] == 'num' else v[3]
    return max([abs(complex(z)) for z in zs] or [0.0])


def jsonable(v):
    def z2(z):
        return [z.real, z.imag] if isinstance(z, complex) else z
    if v[0] == 'num':
        return ['num', v[1], z2(v[2])] + (['np'] if is_np_num(v) else [])
    return ['arr', v[1], list(v[2]), [z2(z) for z in v[3]]]


def unjson(j):
    def z2(z):
        return complex(z[0], z[1]) if isinstance(z, list) else z
    if j[0] == 'num':
        return ('num', j[1], z2(j[2])) + (('np',) if len(j) > 3 else ())
    return ('arr', j[1], tuple(j[2]), [z2(z) for z in j[3]])


# ------------------------------------------------------------------------------------------------------------------
# exceptions
# ------------------------------------------------------------------------------------------------------------------
MSG_TABLE = [
    ('MathArrayShapeError', 'Cannot add/subtract scalars to a ', 'EAddScalar'),
    ('MathArrayShapeError', 'Cannot add/subtract a ', 'EAddShape'),
    ('MathArrayShapeError', 'Cannot calculate the dot product of a ', 'EDotShape'),
    ('MathArrayShapeError', 'Cannot multiply a ', 'EMulShape'),
    ('MathArrayShapeError', 'Cannot divide a ', 'EDivArray'),
    ('MathArrayShapeError', 'Cannot divide by a ', 'ERDivArray'),
    ('MathArrayShapeError', 'Cannot raise a non-square matrix to powers.', 'EPowNonSquare'),
    ('MathArrayShapeError', 'Cannot raise a matrix to ', 'EPowArrayExp'),
    ('MathArrayShapeError', 'Cannot raise a scalar to power of a ', 'ERPowArray'),
    ('MathArrayShapeError', 'Cannot raise a ', 'EPowShape'),
    ('MathArrayError', 'Multiplication of tensor arrays is not currently supported.', 'ETensorMul'),
    ('MathArrayError', 'Cannot raise a matrix to non-integer powers.', 'ENonIntPow'),
    ('MathArrayError', 'Negative matrix powers have been disabled.', 'ENegPowDisabled'),
    ('MathArrayError', 'Cannot raise singular matrix to negative powers.', 'ESingular'),
    ('CalcError', 'Multiplying three or more vectors is ambiguous.', 'ETripleVec'),
    ('UnableToParse', 'Unable to parse vector/matrix.', 'ERagged'),
    ('CalcZeroDivisionError', '', 'EZeroDiv'),
    ('ZeroDivisionError', '', 'EZeroDiv'),
]


def exc_code(e):
    name, msg = type(e).__name__, str(e)
    for cls, prefix, code in MSG_TABLE:
        if name == cls and msg.startswith(prefix):
            return code
    return None


def student_facing(e):
    from mitxgraders.exceptions import StudentFacingError
    return isinstance(e, StudentFacingError)


def obs_term(st, out, tol=0, shape_only=False, zero_div_any=False):
    """observed outcome -> Coq obs term"""
    if st == 'ret':
        v = from_impl(out)
        if v is None or not finite(v):
            return 'OOther'
        return '(ORet %s %s %s)' % (val_term(v), qterm(tol), boollit(shape_only))
    if st == 'exc':
        code = exc_code(out)
        if code is None and zero_div_any and type(out).__name__ in ('ValueError', 'FloatingPointError'):
            code = 'EZeroDiv'       # 0/0 reaches the library's numpy handler as "invalid value"
        return '(OExc %s)' % code if code else 'OOther'
    return 'OOther'


# ------------------------------------------------------------------------------------------------------------------
# recorder for np.linalg.inv (the oracle the model abstracts); wraps the name matrix_power resolves at run time
# ------------------------------------------------------------------------------------------------------------------
class InvRecorder:
    def __init__(self):
        import importlib
        self.mod = None
        for name in ('numpy.linalg._linalg', 'numpy.linalg.linalg', 'numpy.linalg'):
            try:
                m = importlib.import_module(name)
            except ImportError:
                continue
            mp = getattr(m, 'matrix_power', None)
            impl = getattr(mp, '_implementation', None) or getattr(mp, '__wrapped__', None) or mp
            g = getattr(impl, '__globals__', None)
            if g is not None and 'inv' in g and g['inv'] is getattr(m, 'inv', None):
                self.mod, self.globals = m, g
                break
        if self.mod is None:
            raise RuntimeError('cannot locate the inv used by numpy.linalg.matrix_power')
        self.calls = []
        self.rank_calls = []
        self.taken_rank = []

    def __enter__(self):
        np = np_()
        self.orig = self.globals['inv']
        rec = self

        def inv(a, *args, **kw):
            arr = np.array(a)
            try:
                r = rec.orig(a, *args, **kw)
            except np.linalg.LinAlgError:
                rec.calls.append((arr, None))
                raise
            rec.calls.append((arr, np.array(r)))
            return r
        self.globals['inv'] = inv
        # MathArray.__pow__ asks np.linalg.matrix_rank (looked up on the module at call time) before inverting
        self.orig_rank = np.linalg.matrix_rank

        def matrix_rank(a, *args, **kw):
            r = rec.orig_rank(a, *args, **kw)
            rec.rank_calls.append((np.array(a), int(r)))
            return r
        np.linalg.matrix_rank = matrix_rank
        return self

    def __exit__(self, *a):
        self.globals['inv'] = self.orig
        np_().linalg.matrix_rank = self.orig_rank

    def take(self):
        """recorded inv calls since the last take (the recorded rank calls move to take_rank)"""
        c, self.calls = self.calls, []
        self.taken_rank, self.rank_calls = self.rank_calls, []
        return c

    def take_rank(self):
        c, self.taken_rank = self.taken_rank, []
        return c


def exact_rank(rows):
    """rank of a matrix of Gaussian rationals (pairs of Fractions), by exact elimination"""
    def mul(a, b):
        return (a[0] * b[0] - a[1] * b[1], a[0] * b[1] + a[1] * b[0])

    def sub(a, b):
        return (a[0] - b[0], a[1] - b[1])

    def inv(a):
        n2 = a[0] * a[0] + a[1] * a[1]
        return (a[0] / n2, -a[1] / n2)
    m = [list(r) for r in rows]
    rank, ncols = 0, len(m[0]) if m else 0
    for c in range(ncols):
        piv = None
        for r in range(rank, len(m)):
            if m[r][c] != (0, 0):
                piv = r
                break
        if piv is None:
            continue
        m[rank], m[piv] = m[piv], m[rank]
        pinv = inv(m[rank][c])
        for r in range(rank + 1, len(m)):
            if m[r][c] != (0, 0):
                f = mul(m[r][c], pinv)
                m[r] = [sub(x, mul(f, y)) for x, y in zip(m[r], m[rank])]
        rank += 1
    return rank


def inv_table(calls):
    """recorded inv calls -> (Coq inv_tab term, list of python entries (n, M flat, B flat|None, singular?))"""
    seen, terms, entries = set(), [], []
    for a, b in calls:
        if a.ndim != 2 or a.shape[0] != a.shape[1]:
            continue
        n = int(a.shape[0])
        flat = [pynum(x) for x in a.reshape(-1)]
        key = (n, tuple(repr(z) for z in flat))
        if key in seen:
            continue
        seen.add(key)
        rows = [[frac2(flat[i * n + j]) for j in range(n)] for i in range(n)]
        nonsingular = exact_rank(rows) == n
        illcond = nonsingular and cond_estimate([[G(*x) for x in r] for r in rows]) > COND_GUARD
        if b is None:
            terms.append('(%d%%nat, %s, None, None)' % (n, dspec(flat)))
            entries.append((n, flat, None, not nonsingular, illcond))
        else:
            bflat = [pynum(x) for x in b.reshape(-1)]
            flag = 'None' if illcond else '(Some %s)' % boollit(nonsingular)
            terms.append('(%d%%nat, %s, Some %s, %s)' % (n, dspec(flat), dspec(bflat), flag))
            entries.append((n, flat, bflat, not nonsingular, illcond))
    return listlit(terms), entries


def rank_table(calls):
    """recorded matrix_rank calls -> (Coq rank_tab term, python entries (n, M flat, deficient answer, exactly singular?, ill-conditioned?))"""
    seen, terms, entries = set(), [], []
    for a, r in calls:
        if a.ndim != 2 or a.shape[0] != a.shape[1]:
            continue
        n = int(a.shape[0])
        flat = [pynum(x) for x in a.reshape(-1)]
        key = (n, tuple(repr(z) for z in flat))
        if key in seen:
            continue
        seen.add(key)
        rows = [[frac2(flat[i * n + j]) for j in range(n)] for i in range(n)]
        singular = exact_rank(rows) < n
        illcond = (not singular) and cond_estimate([[G(*x) for x in row] for row in rows]) > COND_GUARD
        terms.append('(%d%%nat, %s, %s, %s)' % (n, dspec(flat), boollit(r < n), boollit(not illcond)))
        entries.append((n, flat, r < n, singular, illcond))
    return listlit(terms), entries


# ------------------------------------------------------------------------------------------------------------------
# the independent reference: ordinary linear algebra on nested lists of Gaussian rationals
# ------------------------------------------------------------------------------------------------------------------
class G:
    """Gaussian rational"""
    __slots__ = ('re', 'im')

    def __init__(self, re, im=0):
        self.re, self.im = Fraction(re), Fraction(im)

    @staticmethod
    def of(z):
        re, im = frac2(z)
        return G(re, im)

    def __add__(self, o):
        return G(self.re + o.re, self.im + o.im)

    def __sub__(self, o):
        return G(self.re - o.re, self.im - o.im)

    def __neg__(self):
        return G(-self.re, -self.im)

    def __mul__(self, o):
        return G(self.re * o.re - self.im * o.im, self.re * o.im + self.im * o.re)

    def __truediv__(self, o):
        n2 = o.re * o.re + o.im * o.im
        return G((self.re * o.re + self.im * o.im) / n2, (self.im * o.re - self.re * o.im) / n2)

    def iszero(self):
        return self.re == 0 and self.im == 0

    def __eq__(self, o):
        return self.re == o.re and self.im == o.im

    def __hash__(self):
        return hash((self.re, self.im))


def nest(shape, flat):
    if len(shape) == 0:
        return flat[0]
    if len(shape) == 1:
        return list(flat)
    step = len(flat) // shape[0]
    return [nest(shape[1:], flat[i * step:(i + 1) * step]) for i in range(shape[0])]


def rshape(x):
    s = []
    while isinstance(x, list):
        s.append(len(x))
        x = x[0]
    return tuple(s)


def rflat(x):
    if not isinstance(x, list):
        return [x]
    return [y for sub in x for y in rflat(sub)]


def rmap(f, x):
    return [rmap(f, y) for y in x] if isinstance(x, list) else f(x)


def rmap2(f, x, y):
    return [rmap2(f, a, b) for a, b in zip(x, y)] if isinstance(x, list) else f(x, y)


def to_ref(v):
    if v[0] == 'num':
        return G.of(v[2])
    return nest(v[2], [G.of(z) for z in v[3]])


def mat_mul(a, b):
    return [[sum((a[i][l] * b[l][j] for l in range(len(b))), G(0)) for j in range(len(b[0]))] for i in range(len(a))]


def mat_inverse(m):
    """exact Gauss-Jordan; None if singular"""
    n = len(m)
    a = [list(row) + [G(1) if i == j else G(0) for j in range(n)] for i, row in enumerate(m)]
    for c in range(n):
        piv = next((r for r in range(c, n) if not a[r][c].iszero()), None)
        if piv is None:
            return None
        a[c], a[piv] = a[piv], a[c]
        p = a[c][c]
        a[c] = [x / p for x in a[c]]
        for r in range(n):
            if r != c and not a[r][c].iszero():
                f = a[r][c]
                a[r] = [x - f * y for x, y in zip(a[r], a[c])]
    return [row[n:] for row in a]


COND_GUARD = 10 ** 6


def cond_estimate(m):
    """n*max|M| * n*max|M^-1| on exact values (infinite for a singular matrix): the guard band for float inverses"""
    inv = mat_inverse(m)
    if inv is None:
        return float('inf')
    n = len(m)
    am = max(max(abs(float(x.re)), abs(float(x.im))) for x in rflat(m))
    ai = max(max(abs(float(x.re)), abs(float(x.im))) for x in rflat(inv))
    return n * am * n * ai


ERR, ANY = ('err',), ('any',)


def ref_binop(op, a, b, negpow=True, bkind=None, notes=None):
    """a, b: reference values (G or nested lists).  Returns ('val', x) | ERR (linear algebra defines nothing: must be a
    student-facing error) | ANY (outside the property)."""
    sa, sb = rshape(a), rshape(b)
    arr_a, arr_b = isinstance(a, list), isinstance(b, list)
    if (arr_a and len(rflat(a)) == 1) or (arr_b and len(rflat(b)) == 1):
        return ANY                              # single-element arrays: outside the quantifier
    if not arr_a and not arr_b:
        if op == 'Add':
            return ('val', a + b)
        if op == 'Sub':
            return ('val', a - b)
        if op == 'Mul':
            return ('val', a * b)
        if op == 'Div':
            return ANY if b.iszero() else ('val', a / b)
        return ANY
    if op in ('Add', 'Sub'):
        f = (lambda x, y: x + y) if op == 'Add' else (lambda x, y: x - y)
        if arr_a and arr_b:
            return ('val', rmap2(f, a, b)) if sa == sb else ERR
        if arr_a:
            return ('val', a) if b.iszero() else ERR
        if not a.iszero():
            return ERR
        return ('val', b if op == 'Add' else rmap(lambda x: -x, b))
    if op == 'Mul':
        if not arr_a:
            return ('val', rmap(lambda x: a * x, b))
        if not arr_b:
            return ('val', rmap(lambda x: x * b, a))
        if len(sa) > 2 or len(sb) > 2:
            return ERR
        ma = a if len(sa) == 2 else [a]                        # row vector
        mb = b if len(sb) == 2 else [[x] for x in b]           # column vector
        if len(ma[0]) != len(mb):
            return ERR
        prod = mat_mul(ma, mb)
        if len(sa) == 1 and len(sb) == 1:
            return ('val', prod[0][0])
        if len(sa) == 1:
            out = prod[0]
        elif len(sb) == 1:
            out = [row[0] for row in prod]
        else:
            out = prod
        return ('val', rflat(out)[0]) if len(rflat(out)) == 1 else ('val', out)
    if op == 'Div':
        if arr_b:
            return ERR
        return ANY if b.iszero() else ('val', rmap(lambda x: x / b, a))
    # Pow
    if arr_b or not arr_a:
        return ERR
    if len(sa) != 2 or sa[0] != sa[1]:
        return ERR
    if b.im != 0 or b.re.denominator != 1:
        return ERR
    if bkind == 'c':
        return ANY                              # complex-typed exponent with integer value: value or refusal both acceptable
    k, n = int(b.re), sa[0]
    base = a
    if k < 0:
        if not negpow:
            return ERR
        base = mat_inverse(a)
        if base is None:
            if notes is not None:
                notes.append('singular-inverse')
            return ERR
        if cond_estimate(a) > COND_GUARD:
            if notes is not None:
                notes.append('ill-conditioned')
            return ANY                          # guard band: the float inverse of an ill-conditioned matrix is not compared
        k = -k
    out = [[G(1) if i == j else G(0) for j in range(n)] for i in range(n)]
    for _ in range(k):
        out = mat_mul(out, base)
    return ('val', out)


def compare_value(expect, got, tol):
    """expect: reference value; got: value tuple from the implementation.  None if equal within tol, else a description"""
    es = rshape(expect)
    gs = () if got[0] == 'num' else tuple(got[2])
    if es != gs:
        return 'shape %r returned where linear algebra gives shape %r' % (gs, es)
    ge = [got[2]] if got[0] == 'num' else got[3]
    for e, g in zip(rflat(expect), ge):
        gr, gi = frac2(g)
        if abs(e.re - gr) > tol or abs(e.im - gi) > tol:
            return 'entry %s returned where linear algebra gives %s' % (g, complex(float(e.re), float(e.im)))
    return None


def judge(expect, st, out, tol):
    """the property, applied to one observed outcome.  Returns None or (code, text)."""
    if expect == ANY:
        return None
    if st == 'timeout':
        return ('timeout', 'call did not return within 10 s')
    if st == 'exc':
        if student_facing(out):
            return None
        return ('non-student-facing-exception', '%s: %s escaped' % (type(out).__name__, out))
    got = from_impl(out)
    if expect == ERR:
        return ('returned-where-undefined', 'returned %s where the property demands a student-facing error (no linear-algebra value / refused operation)' %
                (short(got) if got else repr(out)[:80]))
    if got is None or not finite(got):
        return ('wrong-value', 'returned %r' % (repr(out)[:80],))
    bad = compare_value(expect[1], got, tol)
    return ('wrong-value', bad) if bad else None


def short(v):
    if v is None:
        return 'None'
    if v[0] == 'num':
        return ('np.%s(%r)' % ({'i': 'int64', 'f': 'float64', 'c': 'complex128'}[v[1]], v[2])) if is_np_num(v) else repr(v[2])
    return 'array%r%s' % (tuple(v[2]), repr(v[3][:4])[:-1] + (', ...]' if len(v[3]) > 4 else ']'))


# ------------------------------------------------------------------------------------------------------------------
# generators
# ------------------------------------------------------------------------------------------------------------------
VEC_SHAPES = [(2,), (3,), (4,)]
MAT_SHAPES = [(m, n) for m in range(1, 5) for n in range(1, 5) if m * n > 1]
TEN_SHAPES = [(2, 2, 2), (1, 2, 2), (2, 1, 3), (3, 2, 1)]
SHAPES = [()] + VEC_SHAPES + MAT_SHAPES + TEN_SHAPES          # 1 + 3 + 15 + 4 = 23


def entry(rng, kind):
    if kind == 'i':
        return rng.choice([-4, -3, -2, -1, 1, 2, 3, 4, 0, 1, 2])
    if kind == 'f':
        return rng.choice([-3.5, -2.0, -1.5, -0.5, 0.5, 1.0, 1.5, 2.0, 2.5, 3.0, 0.0, 4.0])
    return complex(rng.randint(-3, 3), rng.randint(-3, 3))


def gen_scalar(rng, kind, zero_p=0.3):
    if rng.random() < zero_p:
        return ('num', kind, {'i': 0, 'f': rng.choice([0.0, -0.0]), 'c': 0j}[kind])
    z = entry(rng, kind)
    while z == 0:
        z = entry(rng, kind)
    return ('num', kind, z)


def gen_value(rng, shape, kind, zero_p=0.3):
    if shape == ():
        return gen_scalar(rng, kind, zero_p)
    n = 1
    for s in shape:
        n *= s
    return ('arr', kind, tuple(shape), [entry(rng, kind) for _ in range(n)])


def gen_singular(rng, n, kind):
    """an exactly singular n x n matrix with small entries (one row is an integer combination of the others)"""
    rows = [[entry(rng, kind) for _ in range(n)] for _ in range(n - 1)]
    coefs = [rng.randint(-2, 2) for _ in range(n - 1)]
    last = [sum(c * r[j] for c, r in zip(coefs, rows)) for j in range(n)]
    rows.insert(rng.randrange(n), last)
    if rng.random() < 0.5:
        rows = [list(x) for x in zip(*rows)]
    return ('arr', kind, (n, n), [x for r in rows for x in r])


import math as _math
TINY_SCALARS = [1e-300, 5e-324, -5e-324, 1e-13, -1e-16, 0.1 + 0.2 - 0.3, _math.sin(_math.pi), 1e-13j, complex(1e-300, 0.0),
                complex(0.0, -5e-324), complex(-1e-16, 1e-16)]

EXPONENTS = [('i', 0), ('i', 1), ('i', 2), ('i', 3), ('i', 5), ('i', -1), ('i', -2), ('i', -3),
             ('f', 2.0), ('f', 0.0), ('f', -0.0), ('f', -1.0), ('f', -2.0), ('f', 0.5), ('f', 2.5), ('f', -1.5),
             ('c', 2 + 0j), ('c', 1j), ('c', -1 + 0j)]


def is_square(v):
    return v[0] == 'arr' and len(v[2]) == 2 and v[2][0] == v[2][1]


# ------------------------------------------------------------------------------------------------------------------
# operator level
# ------------------------------------------------------------------------------------------------------------------
def call_forms(op, a, b):
    """the ways Python reaches the operator: plain, in-place, explicit (reflected) dunder"""
    forms = [('plain', lambda x, y: PYOP[op](x, y)), ('inplace', lambda x, y: PYIOP[op](x, y))]
    d, r = DUNDER[op]
    if is_np_num(a) and b[0] == 'arr':
        # np.float64(2) + A is numpy's own scalar operator (it broadcasts and never asks MathArray: the library's issue #124,
        # outside "MathArray operators"); A.__radd__(np.float64(2)) is MathArray's
        forms = []
    if a[0] == 'arr':
        forms.append((d, lambda x, y: getattr(x, d)(y)))
    elif b[0] == 'arr':
        forms.append((r, lambda x, y: getattr(y, r)(x)))
    return forms


def tolerance_for(op, a, b, entries, st, out):
    """(tol, shape_only) for one observed outcome of a op b; shape_only = conditioning guard band"""
    if st != 'ret':
        return 0, False
    got = from_impl(out)
    if got is None:
        return 0, False
    if op == 'Div':
        return Fraction(1, 10**12) * Fraction(1 + amax(got)), False
    if op == 'Pow' and b[0] == 'num' and b[1] != 'c' and complex(b[2]).real < 0 and entries:
        n, _, bflat, singular, illcond = entries[0]
        k = int(round(-complex(b[2]).real))
        if illcond or bflat is None or (singular and k > 1):
            return 0, True          # (an exactly singular matrix is only inverted if the rank test failed: not compared numerically)
        if singular:
            return 0, False
        bm = max(abs(complex(z)) for z in bflat)
        return Fraction(1, 10**11) * Fraction(1 + n * bm) ** k, False
    return 0, False


def ref_tol(op, a, b):
    """absolute tolerance of the oracle comparison against the exact reference"""
    if op == 'Div':
        return Fraction(1, 10**9)
    if op == 'Pow' and b[0] == 'num' and complex(b[2]).real < 0 and is_square(a):
        n = a[2][0]
        inv = mat_inverse(to_ref(a))
        if inv is None:
            return Fraction(0)
        bm = max(max(abs(float(x.re)), abs(float(x.im))) for x in rflat(inv))
        am = amax(a)
        k = int(round(-complex(b[2]).real))
        return Fraction(1, 10**12) * Fraction(k * n * (1 + am)) * Fraction(1 + n * bm) ** (k + 1) + Fraction(1, 10**12)
    return Fraction(0)


def run_op_case(op, a, b, negpow, rec, res, terms, metas):
    from mitxgraders.helpers.calc.math_array import MathArray
    expect = ref_binop(op, to_ref(a), to_ref(b), negpow, b[1] if b[0] == 'num' else None)
    rtol = ref_tol(op, a, b)
    key = 'operator_expect_' + ('value' if expect[0] == 'val' else 'error' if expect == ERR else 'outside')
    res.distribution[key] = res.distribution.get(key, 0) + 1
    outcomes = []
    rec.take()
    for fname, fn in call_forms(op, a, b):
        x, y = to_impl(a), to_impl(b)
        if negpow:
            st, out = core.guarded(fn, x, y)
        else:
            def disabled():
                with MathArray.enable_negative_powers(False):
                    return fn(x, y)
            st, out = core.guarded(disabled)
        outcomes.append((fname, st, out))
        res.oracle_evals += 1
    tab_term, entries = inv_table(rec.take())
    rank_term, rank_entries = rank_table(rec.take_rank())
    for fname, st, out in outcomes:
        verdict = judge(expect, st, out, rtol)
        if verdict:
            code, text = verdict
            res.witnesses.append({
                'key': 'op:%s:%s:%s:%s' % (op, negpow, jsonable(a), jsonable(b)),
                'kind': 'op', 'code': code, 'op': op, 'form': fname, 'negpow': negpow,
                'a': jsonable(a), 'b': jsonable(b),
                'what': '%s %s %s (%s%s): %s' % (short(a), SYM[op], short(b), fname,
                                                  '' if negpow else ', negative powers disabled', text)})
    obs = []
    zero_div = op == 'Div' and b[0] == 'num' and b[2] == 0
    for fname, st, out in outcomes:
        tol, so = tolerance_for(op, a, b, entries, st, out)
        if so:
            res.boundary += 1
        obs.append(obs_term(st, out, tol, so, zero_div_any=zero_div))
    terms.append('(%s, Op%s, %s, %s, %s, %s, %s)' % (boollit(negpow), op, val_term(a), val_term(b), rank_term, tab_term,
                                                     listlit(obs)))
    metas.append({'op': op, 'a': jsonable(a), 'b': jsonable(b), 'negpow': negpow,
                  'observed': [(f, s, repr(o)[:120]) for f, s, o in outcomes]})
    ident = (op, a[0], a[1], tuple(a[2]) if a[0] == 'arr' else (), b[0], b[1], tuple(b[2]) if b[0] == 'arr' else (),
             negpow, repr(a[2:]), repr(b[2:]))
    if not (a[0] == 'num' and b[0] == 'num'):
        res.nontrivial.add(ident)
    return expect, outcomes


def defined_pairs():
    """(operator, shape a, shape b) for which linear algebra defines a value; 'zero' = the zero scalar"""
    valid = []
    for sh in [sh for sh in SHAPES if sh != ()]:
        valid += [('Add', sh, sh), ('Sub', sh, sh), ('Mul', (), sh), ('Mul', sh, ()), ('Div', sh, ()),
                  ('Add', sh, 'zero'), ('Sub', 'zero', sh)]
    for n in range(1, 5):
        for m in range(1, 5):
            if m * n > 1 and n > 1:
                valid += [('Mul', (m, n), (n,)), ('Mul', (n,), (n, m))]
            for q in range(1, 5):
                if m * n > 1 and n * q > 1:
                    valid.append(('Mul', (m, n), (n, q)))
        if n > 1:
            valid.append(('Mul', (n,), (n,)))
    return valid


def spread(terms, metas, ctx):
    """deterministic shuffle, so that the expensive cases (large inverses) are spread evenly over the parallel shards"""
    order = list(range(len(terms)))
    random.Random(ctx['seed'] * 31 + 5).shuffle(order)
    return [terms[i] for i in order], [metas[i] for i in order]


def op_level(ctx, res, rng, rec):
    terms, metas = [], []
    kinds = ['i', 'f', 'c']
    rounds = 1 if ctx['tier'] == 'quick' else 3
    if ctx['escalate'] and ctx['tier'] == 'quick':
        rounds = 2
    hist = {}
    # corpus first: the witness of C14_singular_negative_power_refuted and friends
    corpus = [('Pow', ('arr', 'i', (2, 2), [3, 3, 5, 5]), ('num', 'i', -1), True),
              ('Pow', ('arr', 'i', (2, 2), [3, 3, 5, 5]), ('num', 'f', -2.0), True),
              ('Pow', ('arr', 'i', (2, 2), [3, 3, 5, 5]), ('num', 'i', -1), False),
              ('Pow', ('arr', 'i', (2, 2), [1, 2, 2, 4]), ('num', 'i', -1), True),
              ('Pow', ('arr', 'i', (3, 3), [0, 1, 2, 1, 2, 3, 3, 2, 1]), ('num', 'i', -1), True),
              ('Pow', ('arr', 'c', (2, 2), [-3 - 5j, -3 + 2j, -6 - 10j, -6 + 4j]), ('num', 'i', -1), True),
              ('Pow', ('arr', 'i', (2, 2), [1, 2, 3, 4]), ('num', 'i', -1), True),
              ('Mul', ('arr', 'i', (1, 2), [1, 2]), ('arr', 'i', (2, 1), [3, 4]), True),
              ('Add', ('arr', 'i', (2,), [1, 2]), ('num', 'f', 0.0), True)]
    for op, a, b, negpow in corpus:
        run_op_case(op, a, b, negpow, rec, res, terms, metas)
    # the whole lattice: 23 x 23 shape pairs x 5 operators, entry kinds drawn per case
    for _ in range(rounds):
        for sa, sb in itertools.product(SHAPES, SHAPES):
            if sa == () and sb == ():
                continue
            for op in OPS:
                ka, kb = rng.choice(kinds), rng.choice(kinds)
                if op == 'Pow' and sb == ():
                    kb, z = rng.choice(EXPONENTS)
                    b = ('num', kb, z)
                else:
                    b = gen_value(rng, sb, kb)
                a = gen_value(rng, sa, ka)
                if op in ('Add', 'Sub') and sa == sb and sa != () and rng.random() < 0.1:
                    b = ('arr', kb, b[2], [0 * z for z in b[3]])        # zero array of the same shape
                negpow = not (op == 'Pow' and rng.random() < 0.3)
                run_op_case(op, a, b, negpow, rec, res, terms, metas)
                hist[op] = hist.get(op, 0) + 1
    # operand pairs for which linear algebra does define a value (the lattice above is mostly incompatible pairs)
    nvalid = 0
    valid = defined_pairs()
    for _ in range(1 if ctx['tier'] == 'quick' else 3):
        for op, sa, sb in valid:
            ka, kb = rng.choice(kinds), rng.choice(kinds)
            a = ('num', ka, {'i': 0, 'f': 0.0, 'c': 0j}[ka]) if sa == 'zero' else gen_value(rng, sa, ka, zero_p=0.05)
            b = ('num', kb, {'i': 0, 'f': 0.0, 'c': 0j}[kb]) if sb == 'zero' else gen_value(rng, sb, kb, zero_p=0.05)
            run_op_case(op, a, b, True, rec, res, terms, metas)
            nvalid += 1
    res.distribution['operator_defined_pairs'] = nvalid
    # numpy-typed scalars (np.float64 / np.complex128, e.g. what numpy-backed functions return) against every array shape: as
    # right operand in all forms, as left operand through the reflected dunder (the plain form never reaches MathArray)
    nnp = 0
    for sh in [x for x in SHAPES if x != ()]:
        for op in OPS:
            for side in ('left', 'right'):
                k = rng.choice(['f', 'c'])
                if op == 'Pow' and side == 'right':
                    k, z = rng.choice([e for e in EXPONENTS if e[0] != 'i'])
                    sc = ('num', k, z, 'np')
                else:
                    sc = gen_scalar(rng, k) + ('np',)
                arr = gen_value(rng, sh, rng.choice(kinds))
                a, b = (sc, arr) if side == 'left' else (arr, sc)
                run_op_case(op, a, b, True, rec, res, terms, metas)
                nnp += 1
    res.distribution['operator_numpy_scalar_cases'] = nnp
    # boundary of "nonzero": scalars of tiny modulus and rounding residues are NOT the zero scalar -- + and - in every form
    ntiny = 0
    for z in TINY_SCALARS:
        k = 'c' if isinstance(z, complex) else 'f'
        for sc in (('num', k, z), ('num', k, z, 'np')):
            for sh in rng.sample([x for x in SHAPES if x != ()], 3 if ctx['tier'] == 'quick' else 8):
                for op in ('Add', 'Sub'):
                    arr = gen_value(rng, sh, rng.choice(kinds))
                    for a, b in ((sc, arr), (arr, sc)):
                        run_op_case(op, a, b, True, rec, res, terms, metas)
                        ntiny += 1
    res.distribution['operator_tiny_scalar_cases'] = ntiny
    # powers of square matrices: every exponent class x singular / non-singular x entry kinds, both switch positions
    npow = 0
    for n in (2, 3, 4):
        for kb, z in EXPONENTS:
            for ka in kinds:
                for singular in (False, True):
                    negative = kb != 'c' and z < 0
                    reps = 1 if not negative else (2 if ctx['tier'] == 'quick' else 6)
                    for _ in range(reps):
                        if singular:
                            a = gen_singular(rng, n, ka if ka != 'f' else rng.choice(['i', 'f']))
                        else:
                            a = gen_value(rng, (n, n), 'i' if ka == 'f' else ka)
                            if ka == 'f':
                                a = ('arr', 'f', a[2], [float(x) for x in a[3]])
                        for negpow in (True, False):
                            if not negpow and not (kb != 'c' and z < 0) and rng.random() < 0.7:
                                continue
                            run_op_case('Pow', a, ('num', kb, z), negpow, rec, res, terms, metas)
                            npow += 1
    res.distribution['operator_cases'] = len(terms)
    res.distribution['operator_cases_by_op'] = hist
    res.distribution['square_matrix_power_cases'] = npow
    res.samples.append({'operator_case': metas[len(metas) // 2]})
    return terms, metas


# ------------------------------------------------------------------------------------------------------------------
# formula level
# ------------------------------------------------------------------------------------------------------------------
# AST: ('num', text) | ('var', name) | ('arr', [items]) | ('neg', e) | ('pow', [e | '-']) | ('prod', first, [(op, e)])
#      | ('sum', first, [(op, e)]) | ('par', e)
def render_pow(items):
    out = render(items[0])
    i = 1
    while i < len(items):
        out += '^'
        if items[i] == '-':
            out += '-'
            i += 1
        out += render(items[i])
        i += 1
    return out


def render(t):
    k = t[0]
    if k == 'pow':
        return render_pow(t[1])
    if k in ('num', 'var', 'fun'):
        return t[1]
    if k == 'arr':
        return '[' + ','.join(render(x) for x in t[1]) + ']'
    if k == 'neg':
        return '-' + render(t[1])
    if k in ('prod', 'sum'):
        return render(t[1]) + ''.join(o + render(e) for o, e in t[2])
    return '(' + render(t[1]) + ')'


_FUN_SEXP = {}


def fun_sexp(text):
    """a function call is an opaque leaf here (its value is recorded from the implementation): its own parse tree"""
    from mitxgraders.helpers.calc.expressions import parse
    if text not in _FUN_SEXP:
        _FUN_SEXP[text] = actual_sexp(parse(text).tree)
    return _FUN_SEXP[text]


def expected_sexp(t):
    k = t[0]
    if k == 'fun':
        return fun_sexp(t[1])
    if k == 'num':
        return ('number', [t[1].upper()])
    if k == 'var':
        return ('variable', [t[1]])
    if k == 'arr':
        return ('array', [expected_sexp(x) for x in t[1]])
    if k == 'neg':
        return ('negation', ['-', expected_sexp(t[1])])
    if k == 'pow':
        return ('power', [x if x == '-' else expected_sexp(x) for x in t[1]])
    if k == 'prod':
        return ('product', [expected_sexp(t[1])] + [y for o, e in t[2] for y in (o, expected_sexp(e))])
    if k == 'sum':
        return ('sum', [expected_sexp(t[1])] + [y for o, e in t[2] for y in (o, expected_sexp(e))])
    return ('parentheses', [expected_sexp(t[1])])


def actual_sexp(node):
    from pyparsing import ParseResults
    if not isinstance(node, ParseResults):
        return node
    return (node.getName(), [actual_sexp(c) for c in node])


def expr_term(t, env):
    k = t[0]
    if k == 'num':
        return '(EVal %s)' % val_term(('num', 'f', float(t[1])))
    if k == 'var':
        return '(EVal %s)' % val_term(env[t[1]])
    if k == 'fun':
        return '(EVal %s)' % val_term(t[2])
    if k == 'arr':
        return '(EArr %s)' % listlit([expr_term(x, env) for x in t[1]])
    if k == 'neg':
        return '(ENeg 1%%nat %s)' % expr_term(t[1], env)
    if k == 'pow':
        return '(EPow %s)' % listlit(['None' if x == '-' else '(Some %s)' % expr_term(x, env) for x in t[1]])
    if k == 'prod':
        return '(EProd %s %s)' % (expr_term(t[1], env),
                                  listlit(['(%s, %s)' % (boollit(o == '*'), expr_term(e, env)) for o, e in t[2]]))
    if k == 'sum':
        return '(ESum %s %s)' % (expr_term(t[1], env),
                                 listlit(['(%s, %s)' % (boollit(o == '+'), expr_term(e, env)) for o, e in t[2]]))
    return '(EParen %s)' % expr_term(t[1], env)


def is_vec(x):
    return isinstance(x, list) and len(rshape(x)) == 1


def ref_eval(t, env, negpow, notes):
    """independent reference evaluation of a formula tree.  ('val', x) | ERR | ANY"""
    k = t[0]
    if k == 'num':
        return ('val', G.of(float(t[1])))
    if k == 'var':
        return ('val', to_ref(env[t[1]]))
    if k == 'fun':
        return ('val', to_ref(t[2]))
    if k == 'par':
        return ref_eval(t[1], env, negpow, notes)
    if k == 'arr':
        kids = [ref_eval(x, env, negpow, notes) for x in t[1]]
        if ANY in kids:
            return ANY                            # e.g. a division by zero below may raise anything first
        if ERR in kids:
            return ERR
        vals = [v[1] for v in kids]
        shapes = set(rshape(v) for v in vals)
        if len(shapes) != 1:
            return ERR                            # ragged
        return ('val', vals)
    if k == 'neg':
        v = ref_eval(t[1], env, negpow, notes)
        if v in (ERR, ANY):
            return v
        return ('val', rmap(lambda x: -x, v[1]))
    if k == 'pow':
        items = t[1]
        res = ref_eval(items[-1], env, negpow, notes)
        i = len(items) - 2
        kids = [ref_eval(x, env, negpow, notes) for x in items if x != '-']
        if ANY in kids:
            return ANY                            # children are all evaluated before the node
        if ERR in kids:
            return ERR
        while i >= 0:
            if res in (ERR, ANY):
                return res
            if items[i] == '-':
                res = ('val', rmap(lambda x: -x, res[1]))
            else:
                base = ref_eval(items[i], env, negpow, notes)
                if not isinstance(base[1], list) and not isinstance(res[1], list):
                    res = ANY                     # number ** number
                else:
                    res = ref_binop('Pow', base[1], res[1], negpow, None, notes)
            i -= 1
        return res
    first = ref_eval(t[1], env, negpow, notes)
    kids = [(o, ref_eval(e, env, negpow, notes)) for o, e in t[2]]
    allk = [first] + [v for _, v in kids]
    if ANY in allk:
        return ANY
    if ERR in allk:
        return ERR
    if k == 'prod':
        if any(o == '/' and not isinstance(v[1], list) and v[1].iszero() for o, v in kids):
            return ANY                            # a zero divisor may raise anything (outside the property)
    acc = first[1]
    dot_happened = False
    for o, v in kids:
        op = {'+': 'Add', '-': 'Sub', '*': 'Mul', '/': 'Div'}[o]
        if k == 'prod' and o == '*' and is_vec(v[1]):
            # chained products of three or more vectors: once two vectors of the chain have been contracted with each other (a
            # vector.vector step, whatever numbers and matrices stand between and around them), a further vector factor makes the
            # chain ambiguous -- (a.b)(M c) is not a (b.(M c)) -- and must be refused
            if dot_happened:
                notes.append('triple')
                return ERR
            if is_vec(acc):
                dot_happened = True
        r = ref_binop(op, acc, v[1], negpow, None, notes)
        if r in (ERR, ANY):
            # later operands cannot un-raise it
            return r
        acc = r[1]
    return ('val', acc)


def user_scalar_functions():
    """author-defined functions that hand back numpy-typed (and, for contrast, Python-typed) scalars"""
    np = np_()
    return {'npf': lambda x: np.float64(2 * x), 'npc': lambda x: np.complex128(complex(x, 2)),
            'npi': lambda x: np.int64(3 * x), 'pyf': lambda x: float(2 * x)}


def function_table(name):
    if name == 'none':
        return {}
    from mitxgraders.helpers.calc.expressions import DEFAULT_FUNCTIONS
    from mitxgraders import MatrixGrader
    table = dict(DEFAULT_FUNCTIONS if name == 'default' else MatrixGrader.default_functions)
    table.update(user_scalar_functions())
    return table


# scalar-producing sub-expressions: (text, function table it needs)
SCALAR_CALLS = [
    # numpy-backed unary functions
    ('sqrt(4)', 'default'), ('cos(0)', 'default'), ('exp(0)', 'default'), ('abs(-2)', 'default'), ('re(3+2*i)', 'default'),
    ('im(3+2*i)', 'default'), ('conj(1+2*i)', 'default'), ('sqrt(-4)', 'default'), ('cosh(0)', 'default'), ('floor(2.5)', 'default'),
    ('log10(100)', 'default'), ('arctan2(0,1)', 'default'), ('max(1,2)', 'default'), ('tan(1)', 'default'), ('exp(i)', 'default'),
    # ... whose value is zero (the additive identity is allowed next to an array)
    ('ln(1)', 'default'), ('sin(0)', 'default'), ('kronecker(1,2)', 'default'), ('im(2)', 'default'),
    ('kronecker(1,1)', 'default'),
    # array-to-scalar functions
    ('norm([3,4])', 'matrix'), ('det([[1,2],[3,4]])', 'matrix'), ('trace([[1,2],[3,4]])', 'matrix'), ('abs([3,4])', 'matrix'),
    ('norm(w)', 'matrix'), ('det(N)', 'matrix'), ('trace(N)', 'matrix'), ('abs(w)', 'matrix'), ('det(N-N)', 'matrix'),
    # author-defined functions returning numpy / Python scalars
    ('npf(3)', 'default'), ('npc(1)', 'matrix'), ('npi(2)', 'default'), ('pyf(3)', 'matrix'), ('npf(0)', 'default'),
]
# scalar-valued names: default constants, numpy-typed and Python-typed author constants
SCALAR_NAMES = {'pi': ('num', 'f', 3.141592653589793), 'e': ('num', 'f', 2.718281828459045), 'i': ('num', 'c', 1j),
                'c64': ('num', 'f', 2.0, 'np'), 'c128': ('num', 'c', 1 + 2j, 'np'), 'ci64': ('num', 'i', 3, 'np'),
                'z64': ('num', 'f', 0.0, 'np'), 'z128': ('num', 'c', 0j, 'np'), 'pf': ('num', 'f', 2.0), 'pc': ('num', 'c', 1 - 1j)}


# nonzero scalars of tiny modulus as variable values (Python- and numpy-typed)
TINY_NAMES = {'t13': ('num', 'f', 1e-13), 't300': ('num', 'f', 1e-300), 'tden': ('num', 'f', 5e-324), 'tneg': ('num', 'f', -1e-16),
              'tc': ('num', 'c', 1e-13j), 'tcd': ('num', 'c', complex(0.0, -5e-324)), 'tn13': ('num', 'f', 1e-13, 'np'),
              'tnc': ('num', 'c', complex(1e-16, -1e-16), 'np')}


class FormulaGen:
    def __init__(self, rng):
        self.rng = rng
        self.env = {}
        self.counter = 0
        self.n = rng.choice([2, 2, 3, 4])

    def var(self, v):
        name = 'v%d' % self.counter
        self.counter += 1
        self.env[name] = v
        return ('var', name)

    def number(self):
        return ('num', self.rng.choice(['0', '1', '2', '3', '4', '0.5', '2.0', '1.5']))

    def literal(self, shape):
        rng = self.rng
        if len(shape) == 0:
            x = self.number()
            return ('neg', x) if rng.random() < 0.3 else x
        return ('arr', [self.literal(shape[1:]) for _ in range(shape[0])])

    def value_atom(self, shape, kind=None):
        """an atom whose value has the given shape: variable or literal"""
        rng = self.rng
        kind = kind or rng.choice(['i', 'f', 'c'])
        if shape == ():
            if rng.random() < 0.5:
                return self.number()
            k = 'c' if kind == 'c' else 'f'
            v = gen_scalar(rng, k, 0.25)
            return self.var(('num', k, v[2] if k == 'c' else float(v[2])))
        if rng.random() < 0.35 and len(shape) <= 2:
            return self.literal(shape)
        return self.var(gen_value(rng, shape, kind))

    def random_shape(self):
        # mostly shapes that fit together (one dimension n per formula), so that a good share of the trees has a value
        r, n = self.rng.random(), self.n
        if r < 0.25:
            return ()
        if r < 0.58:
            return (n,)
        if r < 0.88:
            return (n, n)
        if r < 0.91:
            return (n, 1) if self.rng.random() < 0.5 else (1, n)
        if r < 0.94:
            return self.rng.choice(VEC_SHAPES)
        if r < 0.98:
            return self.rng.choice(MAT_SHAPES)
        return self.rng.choice(TEN_SHAPES)

    def atom(self, depth):
        rng = self.rng
        if depth > 0 and rng.random() < 0.3:
            return ('par', self.sum(depth - 1))
        return self.value_atom(self.random_shape())

    def power(self, depth):
        rng = self.rng
        base = self.atom(depth)
        scalar_atom = base[0] == 'num' or (base[0] == 'var' and self.env[base[1]][0] == 'num')
        if rng.random() < 0.25 and not scalar_atom:
            items = [base]
            if rng.random() < 0.4:
                items.append('-')
            # a parenthesised base may evaluate to a number: keep the exponent integer-valued there
            pool = ['0', '1', '2', '3', '2.0', '1'] if base[0] == 'par' else ['0', '1', '2', '3', '2.0', '0.5', '1']
            items.append(('num', rng.choice(pool)))
            return ('pow', items)
        return base

    def factor(self, depth):
        p = self.power(depth)
        return ('neg', p) if self.rng.random() < 0.15 else p

    def product(self, depth):
        rng = self.rng
        first = self.factor(depth)
        rest = []
        while rng.random() < 0.55 and len(rest) < 3:
            rest.append((rng.choice(['*', '*', '*', '/']), self.factor(depth)))
        return ('prod', first, rest) if rest else first

    def sum(self, depth):
        rng = self.rng
        first = self.product(depth)
        rest = []
        while rng.random() < 0.35 and len(rest) < 2:
            rest.append((rng.choice(['+', '-']), self.product(depth)))
        return ('sum', first, rest) if rest else first


class TypedGen(FormulaGen):
    """formula trees that linear algebra does give a value to: built top-down from the shape they should have"""

    def scalar_nonzero(self):
        rng = self.rng
        if rng.random() < 0.5:
            return ('num', rng.choice(['1', '2', '3', '4', '0.5', '2.0', '1.5']))
        k = rng.choice(['f', 'c'])
        v = gen_scalar(rng, k, 0.0)
        return self.var(('num', k, v[2] if k == 'c' else float(v[2])))

    def t_factor(self, shape, depth):
        rng = self.rng
        r = rng.random()
        if depth > 0 and r < 0.35:
            return ('par', self.t_sum(shape, depth - 1))
        if len(shape) == 2 and shape[0] == shape[1] and r < 0.55:
            base = self.value_atom(shape) if rng.random() < 0.7 or depth == 0 else ('par', self.t_sum(shape, depth - 1))
            items = [base]
            if rng.random() < 0.3:
                items.append('-')
            items.append(('num', rng.choice(['0', '1', '2', '3', '2.0'])))
            return ('pow', items)
        atom = self.value_atom(shape)
        if atom[0] == 'neg':
            return atom
        return ('neg', atom) if rng.random() < 0.15 else atom

    def split(self, shape):
        """shapes of two factors whose product has the given shape"""
        rng, n = self.rng, self.n
        if shape == ():
            return rng.choice([[(), ()], [(n,), (n,)], [(1, n), (n, 1)], [(n,), (n, 1)]])
        if len(shape) == 1:
            m = shape[0]
            return rng.choice([[(), shape], [shape, ()], [(m, n), (n,)], [(n,), (n, m)]])
        m, q = shape
        return rng.choice([[(), shape], [shape, ()], [(m, n), (n, q)]])

    def t_prod(self, shape, depth):
        rng = self.rng
        shapes = [shape]
        for _ in range(rng.choice([0, 1, 1, 2])):
            if len(shapes[0]) > 2:
                break
            cand = self.split(shapes[0]) + shapes[1:]
            if sum(1 for sh in cand if len(sh) == 1) <= 2 and all(len(sh) == 0 or sprod_py(sh) > 1 for sh in cand):
                shapes = cand
        first = self.t_factor(shapes[0], depth)
        rest = [('*', self.t_factor(sh, depth)) for sh in shapes[1:]]
        if rng.random() < 0.2:
            rest.append(('/', self.scalar_nonzero()))
        return ('prod', first, rest) if rest else first

    def t_sum(self, shape, depth):
        rng = self.rng
        first = self.t_prod(shape, depth)
        rest = []
        while rng.random() < 0.4 and len(rest) < 2:
            rest.append((rng.choice(['+', '-']), self.t_prod(shape, depth)))
        return ('sum', first, rest) if rest else first


def sprod_py(shape):
    n = 1
    for x in shape:
        n *= x
    return n


def evaluator_value(text, env, table):
    from mitxgraders.helpers.calc.expressions import evaluator
    return evaluator(text, variables={k: to_impl(v) for k, v in env.items()}, functions=function_table(table), suffixes={})[0]


def has_division_or_negpow(t):
    k = t[0]
    if k == 'fun':
        return True                 # recorded float value (det, ln, ...): compared within the declared tolerance
    if k in ('num', 'var'):
        return False
    if k == 'arr':
        return any(has_division_or_negpow(x) for x in t[1])
    if k in ('neg', 'par'):
        return has_division_or_negpow(t[1])
    if k == 'pow':
        return True
    return has_division_or_negpow(t[1]) or any(o == '/' or has_division_or_negpow(e) for o, e in t[2])


def run_formula_case(tree, env, negpow, rec, res, terms, metas, tag, functions='none', inexact=False):
    from mitxgraders.helpers.calc.expressions import evaluator, parse
    from mitxgraders.helpers.calc.math_array import MathArray
    formula = render(tree)
    st_p, parsed = core.guarded(parse, formula)
    if st_p != 'ret' or actual_sexp(parsed.tree) != expected_sexp(tree):
        res.corr_errors.append(('c14_formula_tree', 'formula %r does not parse to the intended tree: %r' %
                                (formula, parsed if st_p != 'ret' else actual_sexp(parsed.tree))))
        return
    variables = {k: to_impl(v) for k, v in env.items()}
    ftable = function_table(functions)
    rec.take()

    def call():
        if negpow:
            return evaluator(formula, variables=variables, functions=ftable, suffixes={})[0]
        with MathArray.enable_negative_powers(False):
            return evaluator(formula, variables=variables, functions=ftable, suffixes={})[0]
    st, out = core.guarded(call)
    res.oracle_evals += 1
    tab_term, entries = inv_table(rec.take())
    rank_term, rank_entries = rank_table(rec.take_rank())
    notes = []
    expect = ref_eval(tree, env, negpow, notes)
    loose = inexact or has_division_or_negpow(tree)     # float rounding possible: compare within the declared tolerance
    key = 'formula_expect_' + ('value' if expect[0] == 'val' else 'error' if expect == ERR else 'outside')
    res.distribution[key] = res.distribution.get(key, 0) + 1
    if 'triple' in notes:
        res.distribution['formula_triple_vector_chains'] = res.distribution.get('formula_triple_vector_chains', 0) + 1
    if 'singular-inverse' in notes:
        res.distribution['formula_singular_negative_powers'] = res.distribution.get('formula_singular_negative_powers', 0) + 1
    # guard band: a matrix that went through the rank test / np.linalg.inv is ill-conditioned without being exactly singular
    # (its float inverse, and whether the rank test lets it through, are not compared); exactly singular matrices are NOT guarded
    guard = (any(ill for _, _, _, _, ill in entries) or any(ill for _, _, _, _, ill in rank_entries)
             or 'ill-conditioned' in notes)
    got = from_impl(out) if st == 'ret' else None
    rtol = Fraction(1, 10**6) * Fraction(1 + (amax(got) if got and finite(got) else 0)) if loose else Fraction(0)
    verdict = None if guard else judge(expect, st, out, rtol)
    if guard:
        res.boundary += 1
    if verdict:
        code, text = verdict
        res.witnesses.append({'key': 'formula:%s:%s:%s' % (formula, negpow, sorted((k, jsonable(v)) for k, v in env.items())),
                              'kind': 'formula', 'code': code, 'formula': formula, 'negpow': negpow,
                              'variables': {k: jsonable(v) for k, v in env.items()}, 'observed': repr(out)[:160],
                              'functions': functions,
                              'what': 'evaluator(%r)%s: %s' % (formula, '' if negpow else ' with negative powers disabled', text)})
    tol = Fraction(1, 10**9) * Fraction(1 + (amax(got) if got and finite(got) else 0)) if loose else 0
    inverted_singular = any(sing and b is not None for _, _, b, sing, _ in entries)
    terms.append('(%s, %s, %s, %s, %s)' % (boollit(negpow), expr_term(tree, env), rank_term, tab_term,
                                           obs_term(st, out, tol, shape_only=guard or inverted_singular, zero_div_any=True)))
    metas.append({'formula': formula, 'negpow': negpow, 'functions': functions,
                  'variables': {k: jsonable(v) for k, v in env.items()},
                  'observed': (st, repr(out)[:160])})
    res.nontrivial.add((tag, formula, negpow, repr(sorted((k, jsonable(v)) for k, v in env.items()))))
    return expect, st, out


def formula_level(ctx, res, rng, rec):
    terms, metas = [], []
    thorough = ctx['tier'] == 'thorough'
    # corpus
    g = FormulaGen(rng)
    run_formula_case(('pow', [('arr', [('arr', [('num', '3'), ('num', '3')]), ('arr', [('num', '5'), ('num', '5')])]),
                              '-', ('num', '1')]), {}, True, rec, res, terms, metas, 'corpus')
    for f in (('prod', ('arr', [('num', '1'), ('num', '2')]), [('*', ('arr', [('num', '3'), ('num', '4')])),
                                                                 ('*', ('arr', [('num', '5'), ('num', '6')]))]),
              ('prod', ('par', ('prod', ('arr', [('num', '1'), ('num', '2')]), [('*', ('arr', [('num', '3'), ('num', '4')]))])),
               [('*', ('arr', [('num', '5'), ('num', '6')]))]),
              ('arr', [('arr', [('num', '1'), ('num', '2')]), ('arr', [('num', '3')])]),
              ('arr', [('num', '1'), ('arr', [('num', '2'), ('num', '3')])])):
        run_formula_case(f, {}, True, rec, res, terms, metas, 'corpus')
    # 1. the lattice through formula strings: A op B with array-valued variables and with literals
    n_pairs = 0
    for sa, sb in itertools.product(SHAPES, SHAPES):
        if sa == () and sb == ():
            continue
        for op in OPS:
            if not thorough and rng.random() < 0.45:
                continue
            g = FormulaGen(rng)
            a = g.value_atom(sa)
            if op == 'Pow':
                if sb == ():
                    items = [a]
                    if rng.random() < 0.5:
                        items.append('-')
                    items.append(('num', rng.choice(['0', '1', '2', '3', '2.0', '0.5', '2.5'])))
                else:
                    items = [a, g.value_atom(sb)]
                tree = ('pow', items)
            else:
                b = g.value_atom(sb)
                sym = SYM[op]
                tree = ('sum', a, [(sym, b)]) if op in ('Add', 'Sub') else ('prod', a, [(sym, b)])
            negpow = not (op == 'Pow' and rng.random() < 0.3)
            run_formula_case(tree, g.env, negpow, rec, res, terms, metas, 'pair')
            n_pairs += 1
    # 1b. pairs for which linear algebra defines a value
    n_def = 0
    for op, sa, sb in defined_pairs():
        g = FormulaGen(rng)
        a = ('num', '0') if sa == 'zero' else g.value_atom(sa)
        b = ('num', '0') if sb == 'zero' else g.value_atom(sb)
        sym = SYM[op]
        tree = ('sum', a, [(sym, b)]) if op in ('Add', 'Sub') else ('prod', a, [(sym, b)])
        run_formula_case(tree, g.env, True, rec, res, terms, metas, 'defined')
        n_def += 1
    res.distribution['formula_defined_pairs'] = n_def
    # 2. negative powers of singular / non-singular matrices through literals and variables
    n_neg = 0
    for n in (2, 3, 4):
        for _ in range(8 if not thorough else 40):
            for singular in (False, True):
                g = FormulaGen(rng)
                kind = rng.choice(['i', 'f', 'c'])
                m = gen_singular(rng, n, kind) if singular else gen_value(rng, (n, n), kind)
                base = g.var(m)
                if kind != 'c' and rng.random() < 0.5:
                    rows = [m[3][i * n:(i + 1) * n] for i in range(n)]
                    base = ('arr', [('arr', [(('neg', ('num', repr(abs(x)))) if x < 0 else ('num', repr(abs(x)))) for x in r])
                                    for r in rows])
                tree = ('pow', [base, '-', ('num', rng.choice(['1', '2', '1.0', '3']))])
                if rng.random() < 0.4:
                    tree = ('prod', tree, [('*', g.var(gen_value(rng, (n,), 'i')))])
                run_formula_case(tree, g.env, rng.random() < 0.8, rec, res, terms, metas, 'negpow')
                n_neg += 1
    # 3. product chains of numbers, vectors and a few matrices (the triple-vector rule)
    n_chain = 0
    for _ in range(700 if not thorough else 3000):
        g = FormulaGen(rng)
        length = rng.randint(2, 6)
        n = rng.choice([2, 3])

        def operand():
            r = rng.random()
            if r < 0.5:
                return g.value_atom((n if rng.random() < 0.93 else n + 1,))
            if r < 0.68:
                return g.value_atom(())
            if r < 0.88:
                return g.value_atom((n, n))
            if r < 0.95:
                return g.value_atom(rng.choice([(n, 1), (1, n), (n, n + 1)]))
            return ('par', ('prod', g.value_atom((n,)), [('*', g.value_atom((n,)))]))
        first = operand()
        rest = [(rng.choice(['*', '*', '*', '*', '/']), operand()) for _ in range(length - 1)]
        run_formula_case(('prod', first, rest), g.env, True, rec, res, terms, metas, 'chain')
        n_chain += 1
    # 4. random trees
    n_tree = 0
    for _ in range(500 if not thorough else 2500):
        g = FormulaGen(rng)
        tree = g.sum(2)
        if tree[0] in ('num', 'var'):
            continue
        run_formula_case(tree, g.env, rng.random() < 0.85, rec, res, terms, metas, 'tree')
        n_tree += 1
    # 4b. trees built top-down from a target shape (linear algebra gives them a value)
    n_typed = 0
    for _ in range(600 if not thorough else 3000):
        g = TypedGen(rng)
        n = g.n
        shape = rng.choice([(), (n,), (n,), (n, n), (n, n), (n, 1), (2, 3), (2, 2, 2)])
        tree = g.t_sum(shape, 2)
        if tree[0] in ('num', 'var'):
            continue
        run_formula_case(tree, g.env, rng.random() < 0.9, rec, res, terms, metas, 'typed')
        n_typed += 1
    res.distribution['formula_typed_trees'] = n_typed
    # 4c. every kind of scalar-producing sub-expression as the LEFT and the RIGHT operand of + - * / ^ directly against array
    #     literals and array-valued variables (numpy scalars that survive into the tree would broadcast from the left)
    n_sc = 0
    base_env = {'w': ('arr', 'i', (3,), [2, -1, 2]), 'N': ('arr', 'f', (2, 2), [1.0, 2.0, 0.5, 3.0]), 'i': ('num', 'c', 1j)}
    arrays = [('lit', ('arr', [('num', '1'), ('num', '2'), ('num', '3')])),
              ('lit', ('arr', [('arr', [('num', '1'), ('num', '2')]), ('arr', [('num', '3'), ('num', '4')])])),
              ('lit', ('arr', [('num', '2'), ('neg', ('num', '0.5'))])),
              ('var', (3,)), ('var', (2,)), ('var', (2, 2)), ('var', (2, 3)), ('var', (3, 1)), ('var', (2, 2, 2))]
    sources = [('fun', text, table) for text, table in SCALAR_CALLS] + [('name', nm, 'default') for nm in sorted(SCALAR_NAMES)] \
        + [('lit', '2', 'none'), ('lit', '0', 'none')]
    residue = ('par', ('sum', ('num', '0.1'), [('+', ('num', '0.2')), ('-', ('num', '0.3'))]))
    tiny = [('fun', 'sin(pi)', 'default'), ('fun', 'cos(pi/2)', 'default'), ('fun', 'tan(pi)', 'default'), ('fun', 'sin(2*pi)', 'default'),
            ('lit', '1e-13', 'none'), ('lit', '1e-300', 'none'), ('tree', residue, 'none')] \
        + [('name', nm, 'none') for nm in sorted(TINY_NAMES)]
    sources = [(k_, t_, tb_, OPS) for k_, t_, tb_ in sources] + [(k_, t_, tb_, ['Add', 'Sub']) for k_, t_, tb_ in tiny]
    base_env['pi'] = ('num', 'f', _math.pi)
    full = thorough or ctx.get('escalate')
    for kind, text, table, src_ops in sources:
        env0 = dict(base_env)
        if kind == 'fun':
            stv, val = core.guarded(lambda: evaluator_value(text, env0, table))
            leafv = from_impl(val) if stv == 'ret' else None
            if leafv is None or leafv[0] != 'num' or not finite(leafv):
                res.corr_errors.append(('c14_scalar_source', 'scalar source %r did not evaluate to a number: %r' % (text, val)))
                continue
            leaf = ('fun', text, leafv)
        elif kind == 'name':
            env0[text] = SCALAR_NAMES[text] if text in SCALAR_NAMES else TINY_NAMES[text]
            leaf = ('var', text)
        elif kind == 'tree':
            leaf = text
        else:
            leaf = ('num', text)
        for op in src_ops:
            for side in ('left', 'right'):
                picks = arrays if full else [arrays[rng.randrange(3)], arrays[3 + rng.randrange(6)]]
                for akind, spec in picks:
                    env = dict(env0)
                    if akind == 'lit':
                        arr = spec
                    else:
                        env['a0'] = gen_value(rng, spec, rng.choice(['i', 'f', 'c']))
                        arr = ('var', 'a0')
                    x, y = (leaf, arr) if side == 'left' else (arr, leaf)
                    if op == 'Pow':
                        tree = ('pow', [x, y])
                    elif op in ('Add', 'Sub'):
                        tree = ('sum', x, [(SYM[op], y)])
                    else:
                        tree = ('prod', x, [(SYM[op], y)])
                    run_formula_case(tree, env, True, rec, res, terms, metas, 'scalar-source', functions=table, inexact=True)
                    n_sc += 1
    res.distribution['formula_scalar_source_cases'] = n_sc
    res.distribution['formula_scalar_sources'] = len(sources)
    # 5. array literals, ragged and regular
    n_lit = 0
    for _ in range(150 if not thorough else 1000):
        g = FormulaGen(rng)
        rows = rng.randint(1, 4)
        items = []
        for _ in range(rows):
            r = rng.random()
            if r < 0.6:
                items.append(g.literal((rng.choice([2, 2, 2, 3]),)))
            elif r < 0.8:
                items.append(g.literal(()))
            elif r < 0.9:
                items.append(g.var(gen_value(rng, (2,), 'i')))
            else:
                items.append(g.literal((2, 2)))
        run_formula_case(('arr', items), g.env, True, rec, res, terms, metas, 'literal')
        n_lit += 1
    res.distribution.update({'formula_cases': len(terms), 'formula_pairs': n_pairs, 'formula_negative_powers': n_neg,
                             'formula_chains': n_chain, 'formula_random_trees': n_tree, 'formula_array_literals': n_lit})
    res.samples.append({'formula_case': metas[len(metas) // 3]})
    res.samples.append({'formula_case': metas[-7]})
    return terms, metas


# ------------------------------------------------------------------------------------------------------------------
# MatrixGrader verdicts with negative_powers=False (oracle only)
# ------------------------------------------------------------------------------------------------------------------
# Every input below contains a negative power of a square matrix with more than one element; {X} is replaced by the matrix names a
# scenario offers.  'A^2*A^-1' / 'A^3*A^-2' would be CORRECT (answer 'A') if the switch were not in force.
GRADER_INPUTS = ['{X}^-1', '{X}^(-1)', '{X}^-2', '{X}^-1*{X}^3', '({X}^2)^-1', '{X}^-1.0', 'B^-1*{X}', '[[1,2],[3,4]]^-1', '{X}*B^-2',
                 '{X}^-(1)', '({X}*B)^-1', 'A^2*{X}^-1', 'A^3*A^-2', 'probe({X})^-1', 'probe(A)*{X}^-1', '{X}^-1*probe(A)',
                 'probe(A^2)*A^-1']
# inputs without any negative power: only the state of the switch is observed (through probe) while they are evaluated
PROBE_INPUTS = ['probe(A)', 'probe(A)*B', 'probe(A+B)-B', 'A']


class Probe:
    """user-defined function handed to the grader: records MathArray._negative_powers at each call, returns its argument"""
    def __init__(self):
        self.seen = []

    def __call__(self, x):
        from mitxgraders.helpers.calc.math_array import MathArray
        self.seen.append(MathArray._negative_powers)
        return x


def grader_scenarios():
    """name -> (builder(cfg, probe) returning a one-argument grading call, matrix names to put into the inputs).
    All graders have negative_powers=False; the scenarios differ in what else runs during a check."""
    from mitxgraders import MatrixGrader, ListGrader, RealMatrices, DependentSampler
    from mitxgraders.helpers.calc.math_array import MathArray

    def mg(cfg, probe, **kw):
        variables = kw.pop('variables', ['A', 'B'])
        sample_from = {'A': RealMatrices(shape=[2, 2]), 'B': RealMatrices(shape=[2, 2])}
        sample_from.update(kw.pop('sample_from', {}))
        functions = {'probe': probe}
        functions.update(kw.pop('user_functions', {}))
        opts = dict(answers='A', variables=variables, max_array_dim=2, sample_from=sample_from, user_functions=functions,
                    negative_powers=False)
        opts.update(kw)
        opts.update(cfg)
        return MatrixGrader(**opts)

    def single(**kw):
        def build(cfg, probe):
            g = mg(cfg, probe, **dict(kw))
            return lambda inp: g(None, inp)
        return build

    def in_list(position):
        def build(cfg, probe):
            sub = mg(cfg, probe)
            lg = ListGrader(answers=['A', 'sibling_1*B'] if position == 0 else ['B', 'sibling_1+A'], subgraders=sub, ordered=True)
            return lambda inp: lg(None, [inp, 'A*B'] if position == 0 else ['B', inp])
        return build

    def two_graders(cfg, probe):
        # an enabled grader is used between two calls of the disabled one
        g_off = mg(cfg, probe)
        g_on = mg({}, probe, negative_powers=True, answers='A^-1')

        def call(inp):
            g_on(None, 'A^-1')
            return g_off(None, inp)
        return call

    return {
        'plain': (single(), ['A']),
        'dependent_sampler': (single(variables=['A', 'B', 'C'],
                                     sample_from={'C': DependentSampler(depends=['A'], formula='2*A')}), ['A', 'C']),
        'dependent_chain': (single(variables=['A', 'B', 'C', 'D'],
                                   sample_from={'C': DependentSampler(depends=['A', 'B'], formula='A*B+B'),
                                                'D': DependentSampler(depends=['C'], formula='C^2-A')}), ['A', 'D']),
        'dependent_with_power': (single(variables=['A', 'B', 'C'],
                                        sample_from={'C': DependentSampler(depends=['A'], formula='A^2')}), ['A', 'C']),
        'array_constant': (single(user_constants={'M': MathArray([[1, 2], [3, 5]]), 'v': MathArray([1, 2])}), ['A', 'M']),
        'array_function': (single(user_functions={'twice': lambda x: 2 * x}), ['A', 'twice(A)']),
        'numbered_vars': (single(numbered_vars=['a'], sample_from={'a': RealMatrices(shape=[2, 2])}), ['A', 'a_{1}', 'a_{22}']),
        'several_samples': (single(samples=4, failable_evals=1), ['A']),
        'identity': (single(identity_dim=2), ['A', '(A+I)']),
        'two_answers': (single(answers=('B', 'A')), ['A']),
        'entry_partial_credit': (single(entry_partial_credit='proportional'), ['A']),
        'listgrader_first_box': (in_list(0), ['A']),
        'listgrader_sibling_box': (in_list(1), ['A']),
        'after_enabled_grader': (two_graders, ['A']),
    }


# scalar-producing sub-expressions (with their value) placed directly next to an array in a student's input
SCALAR_GRADER_SOURCES = [('sqrt(4)', 2), ('cos(0)', 1), ('exp(0)', 1), ('abs(-2)', 2), ('re(3+2*i)', 3), ('norm([3,4])', 5),
                         ('trace([[1,2],[3,4]])', 5), ('abs([3,4])', 5), ('kronecker(1,1)', 1), ('npf(1)', 2), ('npi(1)', 3),
                         ('pyf(1)', 2), ('c64', 2), ('ci64', 3), ('pf', 2), ('2', 2)]


def scalar_grader_case(answer, inp):
    """MatrixGrader verdict on an input that puts a scalar-producing sub-expression directly next to an array"""
    np = np_()
    from mitxgraders import MatrixGrader, RealVectors, RealMatrices
    grader = MatrixGrader(answers=answer, variables=['v', 'M'], max_array_dim=2,
                          sample_from={'v': RealVectors(shape=3), 'M': RealMatrices(shape=[2, 2])},
                          user_constants={'c64': np.float64(2), 'ci64': np.int64(3), 'pf': 2.0},
                          user_functions=user_scalar_functions())
    return core.guarded(grader, None, inp)


def scalar_grader_inputs():
    out = [('v', 'v+1e-13'), ('v', '1e-13+v'), ('M', 'M-1e-300'), ('v', 'v+(0.1+0.2-0.3)'), ('v', 'v+sin(pi)'), ('M', 'sin(pi)-M'),
           ('v', 'v+1e-13*i')]
    for src, k in SCALAR_GRADER_SOURCES:
        vec = '[%d,%d,%d]' % (k, k, k)
        out += [('v+' + vec, src + '+v'), (vec + '-v', src + '-v'), ('v', src + '/v'), ('M', src + '^M'), ('M', src + '/M'),
                ('v+' + vec, 'v+' + src), ('v-' + vec, 'v-' + src), ('M', 'M/v+' + src)]
    return out


GRADER_CFGS = [{}, {'suppress_matrix_messages': True}, {'shape_errors': False}]


def refused(st, out, box=None):
    """the input was refused: the call raised one of the library's errors (the student-facing MathArrayError normally; when the
    input reaches another box as a sibling value the library reports the same refusal as a ConfigError -- the error CLASS of
    sibling failures belongs to C09), or the box was graded wrong"""
    from mitxgraders.exceptions import MITxError
    if st == 'exc':
        return isinstance(out, MITxError), '%s: %s escaped' % (type(out).__name__, out)
    if st != 'ret' or not isinstance(out, dict):
        return False, 'no result (%s)' % st
    if 'input_list' in out:
        return out['input_list'][box or 0].get('ok') is False, 'box %d graded %r' % ((box or 0) + 1, out['input_list'][box or 0])
    return out.get('ok') is False, 'graded %r' % (out,)


def grader_case(scenario, cfg, inp):
    """one grading call with the switch off; returns (status, result, flag before, flag after, flags seen by probe)"""
    from mitxgraders.helpers.calc.math_array import MathArray
    build, _ = grader_scenarios()[scenario]
    probe = Probe()
    call = build(dict(cfg), probe)
    before = MathArray._negative_powers
    st, out = core.guarded(call, inp)
    after = MathArray._negative_powers
    if after != before:
        MathArray._negative_powers = before      # reported by the caller (switch-leaked); do not let it cascade
    return st, out, before, after, probe.seen


def judge_grader(scenario, cfg, inp, negative):
    """the oracle for one call.  Returns a list of (code, text)."""
    st, out, before, after, seen = grader_case(scenario, cfg, inp)
    bad = []
    if negative:
        ok, text = refused(st, out, box=1 if scenario == 'listgrader_sibling_box' else 0)
        if ok and st == 'ret' and not cfg.get('suppress_matrix_messages'):
            # graded wrong is a refusal only where the author asked for matrix messages to be suppressed; otherwise the
            # expression must not have been evaluated at all
            ok, text = False, text + ' (evaluated and graded instead of raising the error)'
        if not ok:
            bad.append(('negative-power-not-refused', '%s although negative powers are disabled' % text))

    if any(seen):
        bad.append(('switch-not-in-force', 'MathArray._negative_powers read True in %d of %d calls of a user function made while the '
                    'student input was evaluated' % (sum(1 for x in seen if x), len(seen))))
    if before != after:
        bad.append(('switch-leaked', 'MathArray._negative_powers was %r before the call and %r after it' % (before, after)))
    return bad, (st, out, seen)


def grader_level(ctx, res, rng):
    scenarios = grader_scenarios()
    n = nprobe = 0
    hist = {}
    for name in sorted(scenarios):
        _, names = scenarios[name]
        for cfg in GRADER_CFGS:
            cases = [(t.replace('{X}', x), True) for t in GRADER_INPUTS for x in names if '{X}' in t or x == names[0]]
            cases += [(t, False) for t in PROBE_INPUTS]
            if ctx['tier'] == 'quick' and cfg and not ctx.get('escalate'):
                cases = [c for k, c in enumerate(cases) if (k + len(name)) % 3 == 0]      # full product only for the default config
            for inp, negative in cases:
                bad, (st, out, seen) = judge_grader(name, cfg, inp, negative)
                res.oracle_evals += 1
                n += 1
                nprobe += len(seen)
                hist[name] = hist.get(name, 0) + 1
                for code, text in bad:
                    res.witnesses.append({'key': 'grader:%s:%s:%r:%s' % (code, name, sorted(cfg.items()), inp), 'kind': 'grader',
                                          'code': code, 'scenario': name, 'input': inp, 'config': cfg, 'negative': negative,
                                          'what': 'MatrixGrader(negative_powers=False%s) [%s] on %r: %s' %
                                                  (''.join(', %s=%r' % kv for kv in sorted(cfg.items())), name, inp, text)})
                res.nontrivial.add(('grader', name, inp, repr(sorted(cfg.items()))))
    # inputs in which a scalar-producing sub-expression meets an array directly under + - / ^ : linear algebra defines nothing, so
    # the grader must raise the student-facing error (the answers are what a silent broadcast would have produced)
    nsc = 0
    for answer, inp in scalar_grader_inputs():
        st, out = scalar_grader_case(answer, inp)
        res.oracle_evals += 1
        nsc += 1
        if not (st == 'exc' and student_facing(out)):
            res.witnesses.append({'key': 'grader-scalar:%s:%s' % (answer, inp), 'kind': 'grader-scalar', 'code': 'graded-where-undefined',
                                  'answer': answer, 'input': inp,
                                  'what': 'MatrixGrader(answers=%r) on %r: %s %r where the property demands a student-facing error '
                                          '(a scalar next to an array under + - / ^)' % (answer, inp, st, out)})
        res.nontrivial.add(('grader-scalar', answer, inp))
    res.distribution['matrixgrader_scalar_source_calls'] = nsc
    res.distribution['matrixgrader_calls'] = n
    res.distribution['matrixgrader_calls_by_scenario'] = hist
    res.distribution['matrixgrader_switch_observations'] = nprobe
    res.samples.append({'matrixgrader_case': {'scenario': 'dependent_sampler', 'input': 'A^2*C^-1', 'config': {},
                                              'observed': repr(grader_case('dependent_sampler', {}, 'A^2*C^-1')[:2])[:200]}})


# ------------------------------------------------------------------------------------------------------------------
# perturb-then-probe: the outcome of a fixed set of probes after the whole varied batch above (every operator form, both switch
# positions, error-raising inputs, graders of several configurations, nested uses) against the same probes in a fresh interpreter
# ------------------------------------------------------------------------------------------------------------------
def canon(st, out):
    if st == 'ret':
        v = from_impl(out)
        return 'ret ' + (repr(jsonable(v)) if v is not None else repr(out)[:200])
    if st == 'exc':
        return 'exc %s: %s' % (type(out).__name__, str(out)[:200])
    return st


FORMULA_PROBES = ['[1,2]+[3,4]', '[1,2]*[3,4]*[5,6]', '([1,2]*[3,4])*[5,6]', '[[1,2],[3,4]]^-1', '[[3,3],[5,5]]^-1', '[1,[2,3]]',
                  '2*[1,2]-[1,2]/2', '[[1,2],[3,4]]*[1,2]', '[1,2]*[[1,2],[3,4]]*[1,2]', 'sqrt(4)+[1,2]', '[1,2]^2', '2^[1,2]',
                  '[1,2]*[3,4]*[[1,2],[3,4]]*[1,2]', 'norm([3,4])*[1,2]', '0+[1,2]', '[1,2]/[1,2]']


def probe_outcomes():
    """name -> canonical outcome string, for a fixed list of operator, formula and grader probes (no randomness in the verdicts)"""
    from mitxgraders.helpers.calc.math_array import MathArray
    from mitxgraders.helpers.calc.expressions import evaluator
    out = {}
    m = ('arr', 'i', (2, 2), [1, 2, 3, 4])
    sing = ('arr', 'i', (2, 2), [3, 3, 5, 5])
    v = ('arr', 'f', (2,), [1.0, -2.0])
    ops = [('Add', v, v), ('Add', v, ('num', 'i', 1)), ('Sub', ('num', 'f', 0.0), v), ('Mul', m, v), ('Mul', v, m), ('Mul', v, v),
           ('Div', m, ('num', 'i', 2)), ('Div', ('num', 'i', 2), m), ('Pow', m, ('num', 'i', 2)), ('Pow', m, ('num', 'i', -1)),
           ('Pow', m, ('num', 'f', -2.0)), ('Pow', sing, ('num', 'i', -1)), ('Pow', m, ('num', 'f', 0.5)), ('Pow', v, ('num', 'i', 2)),
           ('Mul', ('arr', 'i', (1, 2), [1, 2]), ('arr', 'i', (2, 1), [3, 4])), ('Add', m, ('arr', 'i', (2, 3), [1, 2, 3, 4, 5, 6]))]
    # phase 1: probes that open no switch block and build no grader, so that in the fresh interpreter they see pristine state
    out['class-flag'] = repr((MathArray._negative_powers, MathArray._default_negative_powers))
    for k, (op, a, b) in enumerate(ops):
        for fname, fn in call_forms(op, a, b):
            out['op%d:%s:%s' % (k, op, fname)] = canon(*core.guarded(fn, to_impl(a), to_impl(b)))
    table = function_table('matrix')
    for f in FORMULA_PROBES:
        out['formula:' + f] = canon(*core.guarded(lambda: evaluator(f, variables={'i': 1j}, functions=table, suffixes={})[0]))
    # phase 2: the same under the disabled switch, then graders
    for k, (op, a, b) in enumerate(ops):
        if op == 'Pow':
            def disabled(a=a, b=b):
                with MathArray.enable_negative_powers(False):
                    return to_impl(a) ** to_impl(b)
            out['op%d:Pow:disabled' % k] = canon(*core.guarded(disabled))
    for f in FORMULA_PROBES:
        def off(f=f):
            with MathArray.enable_negative_powers(False):
                return evaluator(f, variables={'i': 1j}, functions=table, suffixes={})[0]
        out['formula-disabled:' + f] = canon(*core.guarded(off))
    for scenario in ('plain', 'dependent_sampler', 'listgrader_sibling_box'):
        for inp in ('A^2*A^-1', 'A', 'probe(A)', 'A+1', 'A*B*A^-1'):
            st, res_, before, after, seen = grader_case(scenario, {}, inp)
            out['grader:%s:%s' % (scenario, inp)] = '%s %s flag %r->%r seen %r' % (
                st, (repr(res_) if st == 'ret' else '%s: %s' % (type(res_).__name__, res_))[:200], before, after, seen)
    for answer, inp in [('v+[2,2,2]', 'sqrt(4)+v'), ('v+[2,2,2]', 'v+[2,2,2]'), ('M', 'M^-1*M*M')]:
        st, res_ = scalar_grader_case(answer, inp)
        out['grader-scalar:%s:%s' % (answer, inp)] = '%s %s' % (st, (repr(res_) if st == 'ret' else '%s: %s' % (type(res_).__name__, res_))[:200])
    out['class-flag-end'] = repr((MathArray._negative_powers, MathArray._default_negative_powers))
    return out


def fresh_probe_outcomes():
    """the same probes in a fresh interpreter on the same tree"""
    import json
    import subprocess
    env = dict(__import__('os').environ, PYTHONPATH='%s:%s' % (core.REPO, core.VERIF), PYTHONHASHSEED='0')
    code = 'import json; from harness.props import c14; print("@@" + json.dumps(c14.probe_outcomes()))'
    p = subprocess.run(['/venv/bin/python', '-B', '-c', code], cwd=core.VERIF, env=env, stdout=subprocess.PIPE,
                       stderr=subprocess.PIPE, text=True, timeout=120)
    line = [ln for ln in p.stdout.splitlines() if ln.startswith('@@')]
    if p.returncode != 0 or not line:
        raise RuntimeError('fresh interpreter failed: %s' % p.stderr[-500:])
    return json.loads(line[-1][2:])


def history_level(res):
    after = probe_outcomes()
    fresh = fresh_probe_outcomes()
    res.oracle_evals += len(after)
    res.distribution['history_probes'] = len(after)
    for name in sorted(set(after) | set(fresh)):
        if after.get(name) != fresh.get(name):
            res.witnesses.append({'key': 'history:' + name, 'kind': 'history', 'code': 'history-dependence', 'probe': name,
                                  'fresh': fresh.get(name), 'after_batch': after.get(name),
                                  'what': 'probe %s gives %r in a fresh interpreter but %r after the batch of operator, formula and '
                                          'grader cases of this run' % (name, fresh.get(name), after.get(name))})
        res.nontrivial.add(('history', name))


# ------------------------------------------------------------------------------------------------------------------
def run(ctx):
    res = core.Result()
    rng = random.Random(7919 * ctx['seed'] + 14)
    res.rule = ('operator level: every ordered pair of the 23 shapes (scalar, vectors 2-4, 15 matrices, 4 three-axis tensors) x 5 '
                'operators, entry kinds int/half-integer float/Gaussian-integer complex drawn per case, each through the plain, '
                'in-place and explicit (reflected) dunder form; square-matrix powers x 19 exponents (int, integer-valued float, '
                'fractional, negative, complex) x singular/non-singular x switch on/off.  formula level: the same lattice through '
                'evaluator() with variables and literals, negative powers, product chains, random trees, array literals.  A case '
                'is non-trivial unless both operands are plain numbers; identity = (operator, shapes, kinds, entries, switch) or '
                '(formula, variables, switch)')
    with InvRecorder() as rec:
        op_terms, op_metas = op_level(ctx, res, rng, rec)
        f_terms, f_metas = formula_level(ctx, res, rng, rec)
    # one batch for both kinds of cases (each coqc start-up costs more than a few hundred cases)
    terms = ['(inl %s)' % t for t in op_terms] + ['(inr %s)' % t for t in f_terms]
    metas = [{'kind': 'operator', 'case': m} for m in op_metas] + [{'kind': 'formula', 'case': m} for m in f_metas]
    terms, metas = spread(terms, metas, ctx)
    nfiles = 16 if ctx['tier'] == 'quick' else 48
    n, failing, errors = core.eval_agreement(
        'c14', HEADER, 'any_case', terms, shard=len(terms) // nfiles + 1,
        case_type='(bool * binop * val * val * rank_tab * inv_tab * list obs) + (bool * expr * rank_tab * inv_tab * obs)')
    res.programs += n
    res.corr_errors += errors
    for i in failing:
        res.disagreements.append(metas[i])
    grader_level(ctx, res, rng)
    history_level(res)
    res.distribution['witness_codes'] = {}
    for w in res.witnesses:
        res.distribution['witness_codes'][w['code']] = res.distribution['witness_codes'].get(w['code'], 0) + 1
    # C14_ex_singular_witness_is_error quotes numpy's answers on [[3,3],[5,5]] (rank 1; the huge non-inverse): note a change
    np = np_()
    try:
        got = np.linalg.inv(np.array([[3, 3], [5, 5]])).reshape(-1).tolist()
    except np.linalg.LinAlgError:
        got = None
    rank = int(np.linalg.matrix_rank(np.array([[3, 3], [5, 5]])))
    if got != [2251799813685248.0, -1351079888211149.0, -2251799813685248.0, 1351079888211149.0] or rank != 1:
        res.notes.append('numpy now answers inv([[3,3],[5,5]]) = %r, matrix_rank = %d; C14_ex_singular_witness_is_error quotes the '
                         'answers observed when the model was validated' % (got, rank))
    return res


# ------------------------------------------------------------------------------------------------------------------
def replay(w):
    from mitxgraders.helpers.calc.math_array import MathArray
    kind = w.get('kind')
    if kind == 'op':
        a, b = unjson(w['a']), unjson(w['b'])
        op, negpow = w['op'], w['negpow']
        expect = ref_binop(op, to_ref(a), to_ref(b), negpow, b[1] if b[0] == 'num' else None)
        fn = dict(call_forms(op, a, b))[w['form']]
        x, y = to_impl(a), to_impl(b)

        def call():
            if negpow:
                return fn(x, y)
            with MathArray.enable_negative_powers(False):
                return fn(x, y)
        st, out = core.guarded(call)
        verdict = judge(expect, st, out, ref_tol(op, a, b))
        text = '%s %s %s via %s -> %s %r; property verdict: %s' % (short(a), SYM[op], short(b), w['form'], st,
                                                                  repr(out)[:200], verdict or 'satisfied')
        return bool(verdict), text
    if kind == 'formula':
        from mitxgraders.helpers.calc.expressions import evaluator
        env = {k: unjson(v) for k, v in w['variables'].items()}
        variables = {k: to_impl(v) for k, v in env.items()}
        negpow = w['negpow']
        ftable = function_table(w.get('functions', 'none'))

        def call():
            if negpow:
                return evaluator(w['formula'], variables=variables, functions=ftable, suffixes={})[0]
            with MathArray.enable_negative_powers(False):
                return evaluator(w['formula'], variables=variables, functions=ftable, suffixes={})[0]
        st, out = core.guarded(call)
        code = w.get('code')
        if code == 'non-student-facing-exception':
            bad = st == 'exc' and not student_facing(out)
        elif code == 'returned-where-undefined':
            bad = st == 'ret'
        else:
            bad = st == 'ret' and repr(out)[:160] == w.get('observed', repr(out)[:160])
        return bad, 'evaluator(%r) with %r -> %s %r' % (w['formula'], w['variables'], st, repr(out)[:200])
    if kind == 'grader':
        bad, (st, out, seen) = judge_grader(w['scenario'], w['config'], w['input'], w.get('negative', True))
        hit = [b for b in bad if b[0] == w.get('code')]
        return bool(hit), 'MatrixGrader(negative_powers=False, %r) [%s] on %r -> %s %r; switch seen by user function: %r; verdict: %s' % (
            w['config'], w['scenario'], w['input'], st, repr(out)[:200], seen, hit or 'satisfied')
    if kind == 'history':
        # re-create the history (the varied batch, model evaluation skipped), then probe against a fresh interpreter
        res = core.Result()
        ctx = {'tier': 'quick', 'seed': 0, 'escalate': False, 'model_built': False}
        rng = random.Random(7919 * ctx['seed'] + 14)
        with InvRecorder() as rec:
            op_level(ctx, res, rng, rec)
            formula_level(ctx, res, rng, rec)
        grader_level(ctx, res, rng)
        res.witnesses = []
        history_level(res)
        hit = [x for x in res.witnesses if x['probe'] == w.get('probe')]
        return bool(hit), 'probe %s: %s' % (w.get('probe'), hit[0]['what'] if hit else 'same outcome in a fresh interpreter and after the batch')
    if kind == 'grader-scalar':
        st, out = scalar_grader_case(w['answer'], w['input'])
        bad = not (st == 'exc' and student_facing(out))
        return bad, 'MatrixGrader(answers=%r)(None, %r) -> %s %r' % (w['answer'], w['input'], st, out)
    return False, 'unknown witness kind %r' % (kind,)


def classify_known(w, known):
    """No defect of C14 is a known finding: the singular-matrix defect of MathArray.__pow__ was repaired in /repo (9dbef38), its
    witnesses are ordinary regression cases now, and any recurrence must be reported as a VIOLATION."""
    return None


LEVEL_TEXT = ('Theorems for all shapes, all entries (Gaussian rationals) and all dtype kinds, not a sample: whenever +, -, *, / or ^ '
              '(plain, reflected, in-place) returns, the result is the value ordinary linear algebra gives and has exactly the shape '
              'the strict shape rules prescribe; where the rules define nothing the operator raises a student-facing error (nonzero '
              'scalar +/- array, unequal shapes, incompatible or tensor products, division by an array, powers of vectors/tensors/'
              'non-square matrices, non-integer or array exponents, negative powers while disabled); product chains of numbers and '
              'vectors with three or more vector factors are refused for chains of any length; array literals are stacked or refused; '
              'formula trees of any depth evaluate by linear-algebra steps only. Negative powers: a matrix with a nonzero kernel '
              'vector is always a student-facing error given that np.linalg.matrix_rank flags it (rank_complete), and for the matrices '
              'the rank test lets through M^-k is the k-th power of a two-sided inverse given np.linalg.inv answers with one '
              '(inv_sound_regular); both contracts are checked in Coq on every recorded answer and are satisfiable.')
LEVEL_NOTE = ('Model tied to math_array.py / expressions.py by differential correspondence evaluated in Coq (operands, recorded '
              'np.linalg.matrix_rank / np.linalg.inv answers and observed outcomes embedded in the case terms); numpy kernels are specified oracles; exact '
              'arithmetic, divisions and inverses compared within declared tolerances; no axioms.')
TECHNIQUE = ('Coq proof (case analysis over the operator dispatch against an independent inductive specification, induction over '
             'chains, Gaussian-rational setoid algebra for the kernel/inverse argument) + vm_compute correspondence + '
             'Fraction-based reference oracle')
DESIGN_REF = 'DESIGN.md section 3, C14'
