"""C19 -- SumGrader accepts exactly the sums equal in value to the author's.

Tie (A): coq/Gen/Summation.v regenerated from integralgrader.py (perform_summation, limit checks, cutoff choice).
Tie (B): every grader call below is replayed by the Coq model (Model/Summation.v) on the recorded oracle I/O
         (parser, evaluator, name test) and must give the same outcome, the same sums and the same evaluation
         points; the regenerated plan is checked against the index-set specification on the same limits.
Oracle : an exact Fraction reference (harness/summation_exprs.py) for the sums and the verdict, the evaluated index
         set, and the error classes the property names.
"""
import copy
import math
import random
import re
from fractions import Fraction

from harness import core
from harness import summation_exprs as sx
from translate import summation as tr_summation

ID = 'C19'
PROPS = 'Props/C19.v'
TRANSLATORS = [('Gen/Summation.v', tr_summation.generate)]
MIRRORED = [('mitxgraders/formulagrader/integralgrader.py', 'SummationGraderBase'),
            ('mitxgraders/formulagrader/integralgrader.py', 'SumGrader.gen_evaluations'),
            ('mitxgraders/formulagrader/integralgrader.py', 'SumGrader.evaluate_sum'),
            ('mitxgraders/formulagrader/integralgrader.py', 'SumGrader.perform_summation'),
            ('mitxgraders/formulagrader/integralgrader.py', 'is_valid_variable_name'),
            ('mitxgraders/formulagrader/integralgrader.py', 'transform_list_to_dict'),
            ('mitxgraders/helpers/math_helpers.py', 'MathMixin.consolidate_results'),
            ('mitxgraders/helpers/math_helpers.py', 'MathMixin.compare_evaluations'),
            ('mitxgraders/helpers/math_helpers.py', 'MathMixin.gen_var_and_func_samples'),
            ('mitxgraders/helpers/math_helpers.py', 'MathMixin.get_used_vars'),
            ('mitxgraders/helpers/math_helpers.py', 'MathMixin.check_math_response')]

FIELDS = ['lower', 'upper', 'summand', 'summation_variable']
SUM_MESSAGES = [
    (re.compile(r'Summation variable .* conflicts with another previously-defined variable\.$'), 'MConflict'),
    (re.compile(r'Summation limits must be real but have evaluated to complex numbers\.$'), 'MComplex'),
    (re.compile(r'Lower summation limit does not evaluate to an integer\.$'), 'MLowerInt'),
    (re.compile(r'Upper summation limit does not evaluate to an integer\.$'), 'MUpperInt'),
    (re.compile(r'Cannot sum from -infty to -infty\.$'), 'MNegInf'),
    (re.compile(r'Cannot sum from infty to infty\.$'), 'MPosInf'),
]


# ================================================================================================
# running the implementation with its oracles recorded
# ================================================================================================
def lib():
    import mitxgraders.formulagrader.integralgrader as ig
    import mitxgraders.helpers.math_helpers as mh
    import mitxgraders.exceptions as ex
    import mitxgraders.helpers.calc.exceptions as cex
    return ig, mh, ex, cex


def err_tag(e):
    """exception -> constructor of Verif.Lib.SummationPy.err (as Coq text)"""
    ig, mh, ex, cex = lib()
    if isinstance(e, ex.ConfigError):
        return 'EConfig'
    if isinstance(e, ex.MissingInput):
        return 'EMissing'
    if isinstance(e, ig.SummationError):
        for rx, tag in SUM_MESSAGES:
            if rx.search(str(e)):
                return '(ESummation %s)' % tag
        return '(ESummation MUnknown)'
    if isinstance(e, ex.InvalidInput):
        return 'EInvalid'
    if isinstance(e, cex.CalcError):
        return 'ECalc'
    if type(e) is ex.StudentFacingError:
        return 'EGeneric'
    if isinstance(e, ex.MITxError):
        return 'EMitxOther'
    return 'EOther'


def is_student_facing(e):
    ig, mh, ex, cex = lib()
    return isinstance(e, ex.StudentFacingError)


class Recorder(object):
    """Wraps, for the duration of one grader call, the leaves the model abstracts."""

    def __init__(self):
        self.parses = []      # (expr, 'ok' | err tag, uses_fact, uses_factorial)
        self.valid = []       # (name, ('ret', bool) | ('exc', tag))
        self.esums = []       # one dict per evaluate_sum call
        self.cur = None

    def __enter__(self):
        ig, mh, ex, cex = lib()
        self.saved = (ig.evaluator, ig.parse, mh.parse, ig.is_valid_variable_name, ig.SumGrader.evaluate_sum)
        rec = self
        o_eval, o_parse_ig, o_parse_mh, o_valid, o_esum = self.saved

        def parse_wrap(orig):
            def parse(formula):
                try:
                    out = orig(formula)
                except Exception as e:
                    rec.parses.append((formula, err_tag(e), False, False))
                    raise
                fu = out.functions_used
                rec.parses.append((formula, 'ok', 'fact' in fu, 'factorial' in fu))
                return out
            return parse

        def evaluator(formula, *a, **k):
            variables = k.get('variables', a[0] if a else None)
            allow_inf = k.get('allow_inf', False)
            keys = list(variables.keys()) if isinstance(variables, dict) else []
            entry = {'expr': formula, 'allow_inf': bool(allow_inf), 'scope': keys}
            cur = rec.cur
            if cur is not None and not allow_inf:
                entry['n'] = variables.get(cur['var']) if isinstance(variables, dict) else None
            try:
                out = o_eval(formula, *a, **k)
            except Exception as e:
                entry['out'] = ('exc', e)
                if cur is not None:
                    cur['evals'].append(entry)
                raise
            entry['out'] = ('ret', out[0])
            entry['funcs'] = set(out[1].functions_used)
            if cur is not None:
                cur['evals'].append(entry)
            return out

        def valid(varname):
            try:
                out = o_valid(varname)
            except Exception as e:
                rec.valid.append((varname, ('exc', err_tag(e))))
                raise
            rec.valid.append((varname, ('ret', bool(out))))
            return out

        def evaluate_sum(self_, summand_str, lower_str, upper_str, summation_var, varscope=None, funcscope=None):
            cur = {'k': len(rec.esums), 'summand': summand_str, 'lower': lower_str, 'upper': upper_str,
                   'var': summation_var, 'scope': list(varscope.keys()) if varscope is not None else [],
                   'values': dict(varscope) if varscope is not None else {}, 'evals': []}
            rec.esums.append(cur)
            rec.cur = cur
            try:
                out = o_esum(self_, summand_str, lower_str, upper_str, summation_var, varscope=varscope, funcscope=funcscope)
            except Exception as e:
                cur['result'] = ('exc', e)
                raise
            finally:
                rec.cur = None
            cur['result'] = ('ret', out[0])
            return out

        ig.evaluator = evaluator
        ig.parse = parse_wrap(o_parse_ig)
        mh.parse = parse_wrap(o_parse_mh)
        ig.is_valid_variable_name = valid
        ig.SumGrader.evaluate_sum = evaluate_sum
        return self

    def __exit__(self, *a):
        ig, mh, ex, cex = lib()
        ig.evaluator, ig.parse, mh.parse, ig.is_valid_variable_name, ig.SumGrader.evaluate_sum = self.saved
        return False


def ref_fact(x):
    return math.gamma(x + 1)


def build_grader(cfg):
    """cfg: JSON-able description -> SumGrader instance (may raise: the constructor validates input_positions)"""
    from mitxgraders import SumGrader, RealInterval, DiscreteSet
    kw = {'answers': dict(zip(FIELDS, cfg['answers']))}
    if cfg.get('positions') is not None:
        kw['input_positions'] = {k: v for k, v in zip(FIELDS, cfg['positions']) if v is not None or cfg.get('explicit_none')}
    for k in ('even_odd', 'infty_val', 'infty_val_fact', 'samples', 'tolerance', 'variables', 'instructor_vars', 'failable_evals'):
        if k in cfg:
            kw[k] = cfg[k]
    if 'sample_from' in cfg:
        sf = {}
        for name, d in cfg['sample_from'].items():
            sf[name] = RealInterval([d[1], d[2]]) if d[0] == 'real' else DiscreteSet(tuple(d[1]))
        kw['sample_from'] = sf
    if cfg.get('user_fact'):
        kw['user_functions'] = {'fact': ref_fact}
        kw['suppress_warnings'] = True
    return SumGrader(**kw)


def case_seed(key):
    import hashlib
    return int(hashlib.sha256(key.encode()).hexdigest()[:8], 16)


def run_case(spec):
    """Runs SumGrader(cfg)(None, inputs).  Returns a dict with the outcome and everything recorded."""
    import numpy as np
    np.random.seed(case_seed(spec['key']))
    random.seed(case_seed(spec['key']))
    out = {'spec': spec, 'stage': 'construct'}
    st, g = core.guarded(build_grader, spec['cfg'])
    if st != 'ret':
        out['outcome'] = (st, g)
        out['rec'] = Recorder()
        return out
    out['stage'] = 'call'
    out['reserved'] = list(g.functions.keys()) + list(g.random_funcs.keys()) + list(g.constants.keys())
    out['default_scope'] = sorted(set(g.constants.keys()) | set(g.config['variables']))
    out['true_positions'] = dict(g.true_input_positions)
    inputs = spec['inputs']
    with Recorder() as rec:
        st, r = core.guarded(g, None, copy.deepcopy(inputs))
    out['outcome'] = (st, r)
    out['rec'] = rec
    return out


# ================================================================================================
# Coq emission
# ================================================================================================
def q(x):
    fr = Fraction(x)
    if fr.denominator == 1 and fr.numerator >= 0:
        return '%d' % fr.numerator
    return '(%d#%d)' % (fr.numerator, fr.denominator)


def zl(n):
    return '(%d)' % n if n < 0 else '%d' % n


def strl(s):
    return '[' + ';'.join('%d' % ord(c) for c in s) + ']%Z' if s else '(@nil Z)'


class Unencodable(Exception):
    pass


def pyv_term(v):
    """value returned by the evaluator for a limit -> pyv"""
    import numpy as np
    if isinstance(v, (bool, np.bool_)):
        raise Unencodable('bool limit')
    if isinstance(v, (complex, np.complexfloating)):
        return 'PCplx'
    if isinstance(v, (int, np.integer)):
        return '(PNum (XFin %s))' % q(int(v))
    if isinstance(v, (float, np.floating)):
        v = float(v)
        if v != v:
            return '(PNum XNaN)'
        if v == float('inf'):
            return '(PNum XPInf)'
        if v == -float('inf'):
            return '(PNum XNInf)'
        return '(PNum (XFin %s))' % q(v)
    if isinstance(v, np.ndarray):
        return 'PArr'
    raise Unencodable('limit value %r' % (type(v),))


def flat_value(v):
    """summand / sum value -> list of Fractions (re, im of every entry); int 0 -> [0, 0]"""
    import numpy as np
    if isinstance(v, np.ndarray):
        out = []
        for x in np.asarray(v).reshape(-1):
            out += flat_value(x.item() if hasattr(x, 'item') else x)
        return out
    if isinstance(v, (bool, np.bool_)):
        raise Unencodable('bool value')
    if isinstance(v, (int, np.integer)):
        return [Fraction(int(v)), Fraction(0)]
    if isinstance(v, (float, np.floating)):
        v = float(v)
        if v != v or v in (float('inf'), -float('inf')):
            raise Unencodable('non-finite value')
        return [Fraction(v), Fraction(0)]
    if isinstance(v, (complex, np.complexfloating)):
        v = complex(v)
        for p in (v.real, v.imag):
            if p != p or p in (float('inf'), -float('inf')):
                raise Unencodable('non-finite value')
        return [Fraction(v.real), Fraction(v.imag)]
    raise Unencodable('value %r' % (type(v),))


def qlist(fs):
    return '[' + ';'.join(q(f) for f in fs) + ']'


def tol_term(tol):
    if isinstance(tol, str):
        return '(TolPct %s)' % q(Fraction(tol[:-1]) / 100)
    return '(TolAbs %s)' % q(Fraction(tol))


def outcome_term(st, r):
    """observed final outcome -> `outcome bool` term, or None when it cannot be expressed"""
    if st == 'ret':
        if isinstance(r, dict) and r.get('ok') is True:
            return '(Ret true)'
        if isinstance(r, dict) and r.get('ok') is False:
            return '(Ret false)'
        return None
    if st == 'exc':
        t = err_tag(r)
        if t in ('EMitxOther', '(ESummation MUnknown)'):
            return None
        if t == 'EOther':
            return None          # nothing but library errors may leave __call__ (C02); never produced by `grade`
        return '(@Raise bool %s)' % t
    return None


HEADER = ('From Coq Require Import ZArith QArith Qabs List Bool.\n'
          'From Verif.Lib Require Import QRound SummationPy.\n'
          'From Verif.Model Require Import Summation.\n'
          'From Verif.Gen Require Summation.\nImport ListNotations.\nOpen Scope Q_scope.\n')

AGREE_DEFS = r'''
Inductive lim_entry := L (expr : str) (scope : list str) (i : nat) (out : outcome pyv).
Inductive term_entry := T (n : Z) (i : nat) (expr var : str) (scope : list str) (out : outcome (list Q)).
Inductive parse_entry := P (expr : str) (out : outcome unit) (fact factorial : bool).
(* one evaluate_sum call of the implementation: who (true = author), sample, evaluation points in order,
   whether the call returned, and the sum it returned *)
Inductive esum_obs := E (author : bool) (i : nat) (idx : list Z) (completed : bool) (value : list Q) (scale : Q).

Record ccase := mkCase {
  k_cfg : config; k_tol : tolerance; k_inputs : list str;
  k_parse : list parse_entry; k_valid : list (str * outcome bool);
  k_lim : list lim_entry; k_term : list term_entry;
  k_obs : option (outcome bool);        (* None: the implementation's outcome is not expressible / not compared *)
  k_skip_verdict : bool;                (* verdict within the guard band of the tolerance *)
  k_esums : list esum_obs
}.

Definition same_names (a b : list str) : bool := forallb (fun x => mem x b) a && forallb (fun x => mem x a) b.

Fixpoint find_parse (t : list parse_entry) (s : str) : option parse_entry :=
  match t with [] => None | (P e _ _ _ as p) :: r => if str_eqb e s then Some p else find_parse r s end.
Definition o_parses (c : ccase) (s : str) : outcome unit :=
  match find_parse (k_parse c) s with Some (P _ o _ _) => o | None => Raise EUnrecorded end.
Definition o_fact (c : ccase) (s : str) : bool :=
  match find_parse (k_parse c) s with Some (P _ _ b _) => b | None => false end.
Definition o_factorial (c : ccase) (s : str) : bool :=
  match find_parse (k_parse c) s with Some (P _ _ _ b) => b | None => false end.
Fixpoint o_valid_go (t : list (str * outcome bool)) (s : str) : outcome bool :=
  match t with [] => Raise EUnrecorded | (e, o) :: r => if str_eqb e s then o else o_valid_go r s end.
Fixpoint o_lim_go (t : list lim_entry) (s : str) (sc : list str) (i : nat) : outcome pyv :=
  match t with
  | [] => Raise EUnrecorded
  | L e sc' i' o :: r => if Nat.eqb i i' && str_eqb e s && same_names sc sc' then o else o_lim_go r s sc i
  end.
Fixpoint o_term_go (t : list term_entry) (s : str) (sc : list str) (v : str) (n : Z) (i : nat) : outcome (list Q) :=
  match t with
  | [] => Raise EUnrecorded
  | T n' i' e v' sc' o :: r =>
      if Z.eqb n n' && Nat.eqb i i' && str_eqb e s && str_eqb v v' && same_names sc sc' then o
      else o_term_go r s sc v n i
  end.

Definition m_grade (c : ccase) : outcome bool :=
  grade [] qv_add (qv_within (k_tol c)) (o_parses c) (o_fact c) (o_factorial c)
        (o_lim_go (k_lim c)) (o_term_go (k_term c)) (o_valid_go (k_valid c)) (k_cfg c) (k_inputs c).

Definition m_plan (c : ccase) (author : bool) (fields : list str) (i : nat) : outcome (Z * Z * Z) :=
  evaluate_sum_plan (o_parses c) (o_fact c) (o_factorial c) (o_lim_go (k_lim c)) (k_cfg c)
    (f_summand fields) (f_lower fields) (f_upper fields) (f_var fields)
    (if author then c_scope (k_cfg c) else student_scope (k_cfg c)) i.

Definition m_sum (c : ccase) (author : bool) (fields : list str) (i : nat) : outcome (list Q) :=
  evaluate_fields [] qv_add (o_parses c) (o_fact c) (o_factorial c) (o_lim_go (k_lim c)) (o_term_go (k_term c))
    (k_cfg c) fields (if author then c_scope (k_cfg c) else student_scope (k_cfg c)) i.

Definition m_fields (c : ccase) : option (list str) :=
  match validate_input_positions (c_positions (k_cfg c)) with
  | Ret tp => match structure_input (k_cfg c) tp (k_inputs c) with Ret f => Some f | Raise _ => None end
  | Raise _ => None
  end.

Fixpoint zlist_eqb (a b : list Z) : bool :=
  match a, b with [] , [] => true | x :: a', y :: b' => Z.eqb x y && zlist_eqb a' b' | _, _ => false end.
Fixpoint zprefix (a b : list Z) : bool :=
  match a, b with [] , _ => true | x :: a', y :: b' => Z.eqb x y && zprefix a' b' | _, _ => false end.

Definition eps : Q := 1 # 1000000000.
Definition qv_close (tol : Q) (a b : list Q) : bool := forallb (fun x => Qle_bool (Qabs x) tol) (qv_sub a b).

(* the property's index set, written independently of the model: all k between the two limits (either order),
   an infinite limit replaced by +-cut, filtered by parity *)
Definition spec_indices (lo hi : pyv) (eo cut : Z) : option (list Z) :=
  let fin (p : pyv) : option (option Z * bool * bool) :=   (* (finite value, is +inf, is -inf) *)
    match p with
    | PNum (XFin x) => if (Qden x =? 1)%positive then Some (Some (Qnum x), false, false) else None
    | PNum XPInf => Some (None, true, false)
    | PNum XNInf => Some (None, false, true)
    | _ => None
    end in
  match fin lo, fin hi with
  | Some (a, ap, an), Some (b, bp, bn) =>
      if (ap && bp) || (an && bn) then None else
      let va := match a with Some z => z | None => if ap then cut else (- cut)%Z end in
      let vb := match b with Some z => z | None => if bp then cut else (- cut)%Z end in
      let lo' := Z.min va vb in
      let hi' := Z.max va vb in
      let all := map (fun k => (lo' + Z.of_nat k)%Z) (seq 0 (Z.to_nat (hi' - lo' + 1))) in
      Some (filter (fun k => match eo with 1%Z => Z.odd k | 2%Z => Z.even k | _ => true end) all)
  | _, _ => None
  end.

Definition z_of_pyv (p : pyv) : Z := match p with PNum (XFin x) => Qnum x | _ => 0%Z end.

(* model-side check of the REGENERATED plan against the index-set specification, on the limits of this call *)
Definition gen_plan_ok (c : ccase) (author : bool) (fields : list str) (i : nat) : bool :=
  let sc := if author then c_scope (k_cfg c) else student_scope (k_cfg c) in
  match o_lim_go (k_lim c) (f_lower fields) sc i, o_lim_go (k_lim c) (f_upper fields) sc i with
  | Ret lo, Ret hi =>
      let fact := o_fact c (f_lower fields) || o_fact c (f_upper fields) || o_fact c (f_summand fields)
                  || o_factorial c (f_lower fields) || o_factorial c (f_upper fields) || o_factorial c (f_summand fields) in
      let cut := if fact then c_infty_val_fact (k_cfg c) else c_infty_val (k_cfg c) in
      match spec_indices lo hi (z_of_pyv (c_even_odd (k_cfg c))) (z_of_pyv cut) with
      | Some want =>
          match Gen.Summation.gen_summation_plan lo hi (c_even_odd (k_cfg c)) cut with
          | Ret (a, b, d) => zlist_eqb (zrange a b d) want
          | Raise _ => false
          end
      | None => true
      end
  | _, _ => true
  end.

Definition esum_ok (c : ccase) (fields : list str) (o : esum_obs) : nat :=
  match o with
  | E author i idx completed value scale =>
      let f := if author then c_answers (k_cfg c) else fields in
      if negb (gen_plan_ok c author f i) then 5%nat else
      match m_plan c author f i with
      | Ret (a, b, d) =>
          let want := zrange a b d in
          if completed then
            if negb (zlist_eqb idx want) then 2%nat
            else match m_sum c author f i with
                 | Ret v => if qv_close (eps * scale) v value then 0%nat else 3%nat
                 | Raise _ => 4%nat
                 end
          else if zprefix idx want then 0%nat else 2%nat
      | Raise _ => match idx with [] => (if completed then 4%nat else 0%nat) | _ => 2%nat end
      end
  end.

Fixpoint first_nonzero (l : list nat) : nat :=
  match l with [] => 0%nat | 0%nat :: r => first_nonzero r | x :: _ => x end.

Definition err_eqb (a b : err) : bool :=
  match a, b with
  | EConfig, EConfig | EMissing, EMissing | EInvalid, EInvalid | ECalc, ECalc | EOther, EOther
  | EGeneric, EGeneric | EUnrecorded, EUnrecorded => true
  | ESummation m, ESummation m' =>
      match m, m' with
      | MConflict, MConflict | MComplex, MComplex | MLowerInt, MLowerInt | MUpperInt, MUpperInt
      | MNegInf, MNegInf | MPosInf, MPosInf => true
      | _, _ => false
      end
  | _, _ => false
  end.

(* 0 = agreement; 1 = final outcome differs; 2 = evaluation points differ; 3 = sum differs; 4 = model fails where
   the implementation returned; 5 = regenerated plan violates the index-set specification *)
Definition case_code (c : ccase) : nat :=
  let outcome_code :=
    match k_obs c with
    | None => 0%nat
    | Some obs =>
        match m_grade c, obs with
        | Ret a, Ret b => if k_skip_verdict c || Bool.eqb a b then 0%nat else 1%nat
        | Raise e, Raise e' => if err_eqb e e' then 0%nat else 1%nat
        | _, _ => 1%nat
        end
    end in
  match outcome_code with
  | 0%nat => match m_fields c with
             | Some f => first_nonzero (map (esum_ok c f) (k_esums c))
             | None => match k_esums c with [] => 0%nat | _ => 4%nat end
             end
  | x => x
  end.
Definition case_ok (c : ccase) : bool := Nat.eqb (case_code c) 0.
'''


# ================================================================================================
# one recorded run -> Coq case term
# ================================================================================================
class Names(object):
    def __init__(self):
        self.strs, self.scopes = {}, {}

    def s(self, text):
        if text not in self.strs:
            self.strs[text] = 's%d' % len(self.strs)
        return self.strs[text]

    def sc(self, keys):
        k = tuple(keys)
        if k not in self.scopes:
            self.scopes[k] = 'sc%d' % len(self.scopes)
            for x in k:
                self.s(x)
        return self.scopes[k]

    def lets(self):
        out = []
        for text, name in self.strs.items():
            out.append('let %s : str := %s in' % (name, strl(text)))
        for keys, name in self.scopes.items():
            out.append('let %s : list str := [%s] in' % (name, ';'.join(self.strs[x] for x in keys)))
        return '\n   '.join(out)


def vec_add(a, b):
    if not a:
        return list(b)
    if not b:
        return list(a)
    if len(a) != len(b):
        raise Unencodable('terms of different shapes')
    return [x + y for x, y in zip(a, b)]


def as_inputs(inputs):
    return list(inputs) if isinstance(inputs, list) else [inputs]


def num_pyv(x):
    return '(PNum (XFin %s))' % q(Fraction(x))


def case_term(run):
    """-> (Coq term | None, info dict)"""
    spec, rec = run['spec'], run['rec']
    cfg = spec['cfg']
    info = {'boundary': False}
    nm = Names()
    st, r = run['outcome']
    if st == 'timeout':
        return None, info
    positions = cfg['positions'] if cfg.get('positions') is not None else [1, 2, 3, 4]
    tol = cfg.get('tolerance', 1e-12)
    author_scope = None
    for e in rec.esums:
        if e['k'] % 2 == 0:
            author_scope = e['scope']
            break
    scope = author_scope if author_scope is not None else run.get('default_scope', [])
    reserved = run.get('reserved', [])
    try:
        parse_entries, seen = [], set()
        for expr, o, f1, f2 in rec.parses:
            if expr in seen:
                continue
            seen.add(expr)
            ot = '(Ret tt)' if o == 'ok' else '(Raise %s)' % o
            if o in ('EMitxOther', '(ESummation MUnknown)'):
                raise Unencodable('parse error class')
            parse_entries.append('P %s %s %s %s' % (nm.s(expr), ot, core.boollit(f1), core.boollit(f2)))
        valid_entries = []
        for name, (k, v) in rec.valid:
            valid_entries.append('(%s, %s)' % (nm.s(name), '(Ret %s)' % core.boollit(v) if k == 'ret' else '(Raise %s)' % v))
        lims, terms, esums = [], [], []
        sums = {}
        for e in rec.esums:
            i, author = e['k'] // 2, e['k'] % 2 == 0
            idx, acc, scale = [], [], Fraction(1)
            for ev_ in e['evals']:
                kind, val = ev_['out']
                if ev_['allow_inf']:
                    if kind == 'ret':
                        ot = '(Ret %s)' % pyv_term(val)
                    else:
                        t = err_tag(val)
                        if t in ('EMitxOther', '(ESummation MUnknown)'):
                            raise Unencodable('limit error class')
                        ot = '(Raise %s)' % t
                    lims.append('L %s %s %d %s' % (nm.s(ev_['expr']), nm.sc(ev_['scope']), i, ot))
                else:
                    n = ev_.get('n')
                    if not isinstance(n, int) or isinstance(n, bool):
                        raise Unencodable('summation variable bound to %r' % (n,))
                    sc = [x for x in ev_['scope'] if x != e['var']]
                    if kind == 'ret':
                        fl = flat_value(val)
                        acc = vec_add(acc, fl)
                        scale += sum(abs(x) for x in fl)
                        ot = '(Ret %s)' % qlist(fl)
                    else:
                        t = err_tag(val)
                        if t in ('EMitxOther', '(ESummation MUnknown)'):
                            raise Unencodable('term error class')
                        ot = '(Raise %s)' % t
                    idx.append(n)
                    terms.append('T %s %d %s %s %s %s' % (zl(n), i, nm.s(ev_['expr']), nm.s(e['var']), nm.sc(sc), ot))
            completed = e['result'][0] == 'ret'
            value = flat_value(e['result'][1]) if completed else []
            if completed:
                sums[(i, author)] = (acc, value, scale)
            esums.append('E %s %d [%s] %s %s %s' % (core.boollit(author), i, ';'.join(zl(n) for n in idx),
                                                    core.boollit(completed), qlist(value), q(Fraction(float(scale)))))
        # guard band for the verdict
        skip = False
        shapes_ok = True
        for (i, author), (acc, value, scale) in sums.items():
            if not author or (i, False) not in sums:
                continue
            a, av, asc = acc, value, scale
            s_, sv, ssc = sums[(i, False)]
            if a and s_ and len(a) != len(s_):
                shapes_ok = False
                continue
            n_ = max(len(a), len(s_))
            a2 = list(a) + [Fraction(0)] * (n_ - len(a))
            s2 = list(s_) + [Fraction(0)] * (n_ - len(s_))
            d2 = sum((x - y) ** 2 for x, y in zip(a2, s2))
            na2 = sum(x * x for x in a2)
            T2 = (Fraction(tol[:-1]) / 100) ** 2 * na2 if isinstance(tol, str) else Fraction(tol) ** 2
            d, T = math.sqrt(d2), math.sqrt(T2)
            slack = 1e-9 * float(asc + ssc) + 1e-9 * T
            if d2 == 0:
                if av != sv and T <= slack:
                    skip = True
            elif abs(d - T) <= slack:
                skip = True
        obs = outcome_term(st, r)
        if not shapes_ok:
            obs = None
        info['boundary'] = skip
        inputs = as_inputs(spec['inputs'])
        cfg_term = ('(mkConfig [%s] [%s] [%s] %s %s %s %d %d %s [%s])' % (
            ';'.join('None' if p is None else '(Some %s)' % zl(p) for p in positions),
            ';'.join(nm.s(a) for a in cfg['answers']),
            ';'.join(nm.s(v) for v in cfg.get('instructor_vars', [])),
            num_pyv(cfg.get('even_odd', 0)), num_pyv(cfg.get('infty_val', 1e3)), num_pyv(cfg.get('infty_val_fact', 80)),
            cfg.get('samples', 2), cfg.get('failable_evals', 0), nm.sc(scope), ';'.join(nm.s(x) for x in reserved)))
        body = ('mkCase %s %s [%s]\n     [%s]\n     [%s]\n     [%s]\n     [%s]\n     %s %s\n     [%s]' % (
            cfg_term, tol_term(tol), ';'.join(nm.s(x) for x in inputs),
            '; '.join(parse_entries), '; '.join(valid_entries), ';\n      '.join(lims), ';\n      '.join(terms),
            'None' if obs is None else '(Some %s)' % obs, core.boollit(skip), ';\n      '.join(esums)))
    except Unencodable as e:
        info['unencodable'] = str(e)
        return None, info
    return '(%s\n   %s)' % (nm.lets(), body), info
